---------------------------- MODULE SmartHome ----------------------------
(* Midea SmartHome (MSmartHome) cloud client, msmart/cloud.py::SmartHomeCloud - spec growth beyond the listed     *)
(* properties (the `download` command of the CLI uses it).  Same shape as Cloud.tla:                               *)
(*  Part 1 - request layout.  Every API request is a JSON document POSTed to /mas/v5/app/proxy?alias=<endpoint>    *)
(*   with headers  random, sign = hex(HMAC-SHA256(HmacKey, IotKey ++ content ++ random)), accessToken = the token   *)
(*   issued by login ("" before), secretVersion 1.  login carries                                                   *)
(*     password = hex(SHA-256(loginId ++ hex(SHA-256(pw)) ++ LoginKey))                                             *)
(*     iampwd   = hex(SHA-256(loginId ++ hex(MD5(hex(MD5(pw)))) ++ LoginKey))    (China: hex(MD5(hex(MD5(pw)))))      *)
(*   luaGet carries applianceSn = hex(AES-128-CBC(key, iv, pkcs7(sn))) with key / iv = characters 1..16 / 17..32 of  *)
(*   hex(SHA-256(AppKey)) and applianceType = "0x<type>"; the plugin request carries appModel = sn[9:17].            *)
(*   HMAC, SHA-256, MD5 and AES are uninterpreted: the oracle o holds reference evaluations whose INPUTS this        *)
(*   module re-derives from what the server received.                                                               *)
(*  Part 2 - the flow: login-id -> login (skipped when a session exists unless forced); luaGet -> file GET ->       *)
(*   decrypt; plugin get -> file GET.  API requests: at most Retries attempts, timeouts retried, HTTP / API errors   *)
(*   end the call with a cloud error.  File GETs: ONE attempt; a timeout is a cloud error; an HTTP error status      *)
(*   escapes as the HTTP library's own exception (FileHttpEscapes: what the code does, named, not idealised).        *)
EXTENDS Bytes, FiniteSets

HmacKey == <<80, 82, 79, 68, 95, 86, 110, 111, 67, 108, 74, 73, 57, 97, 105, 107, 83, 56, 100, 121, 121>>   \* PROD_VnoClJI9aikS8dyy
IotKey == <<109, 101, 105, 99, 108, 111, 117, 100>>   \* meicloud
IotKeyCN == <<112, 114, 111, 100, 95, 115, 101, 99, 114, 101, 116, 49, 50, 51, 64, 109, 117, 99>>   \* prod_secret123@muc
LoginKey == <<97, 99, 50, 49, 98, 57, 102, 57, 99, 98, 102, 101, 52, 99, 97, 53, 97, 56, 56, 53, 54, 50, 101, 102, 50, 53, 101, 50, 98, 55, 54, 56>>   \* ac21b9f9cbfe4ca5a88562ef25e2b768
LoginKeyCN == <<97, 100, 48, 101, 101, 50, 49, 100, 52, 56, 97, 54, 52, 98, 102, 52, 57, 102, 52, 102, 98, 53, 56, 51, 97, 98, 55, 54, 101, 55, 57, 57>>   \* ad0ee21d48a64bf49f4fb583ab76e799
SAppKey == LoginKey
EpLid == <<47, 118, 49, 47, 117, 115, 101, 114, 47, 108, 111, 103, 105, 110, 47, 105, 100, 47, 103, 101, 116>>   \* /v1/user/login/id/get
EpLogin == <<47, 109, 106, 47, 117, 115, 101, 114, 47, 108, 111, 103, 105, 110>>   \* /mj/user/login
EpLua == <<47, 118, 50, 47, 108, 117, 97, 69, 110, 99, 114, 121, 112, 116, 105, 111, 110, 47, 108, 117, 97, 71, 101, 116>>   \* /v2/luaEncryption/luaGet
EpPlug == <<47, 118, 49, 47, 112, 108, 117, 103, 105, 110, 47, 117, 112, 100, 97, 116, 101, 47, 111, 118, 101, 114, 115, 101, 97, 115, 47, 103, 101, 116>>   \* /v1/plugin/update/overseas/get
ProxyPath == <<47, 109, 97, 115, 47, 118, 53, 47, 97, 112, 112, 47, 112, 114, 111, 120, 121>>   \* /mas/v5/app/proxy
JsonType == <<97, 112, 112, 108, 105, 99, 97, 116, 105, 111, 110, 47, 106, 115, 111, 110>>   \* application/json

HexCh(n) == IF n < 10 THEN 48 + n ELSE 87 + n
RECURSIVE HexOf(_)
HexOf(s) == IF s = <<>> THEN <<>> ELSE <<HexCh(Head(s) \div 16), HexCh(Mod(Head(s), 16))>> \o HexOf(Tail(s))
(* Python hex(n) for a device type 0..255: "0x" and the digits without leading zero *)
PyHex(n) == <<48, 120>> \o (IF n < 16 THEN <<HexCh(n)>> ELSE <<HexCh(n \div 16), HexCh(Mod(n, 16))>>)

Endpoint(kind) == CASE kind = "lid" -> EpLid [] kind = "login" -> EpLogin [] kind = "lua" -> EpLua [] kind = "plug" -> EpPlug

(* what a conforming server verifies on one API request.                                                         *)
(*  e: [path, alias, hdr [sign, random, token, sver, ctype], content, body [account, password, iampwd, sn, atype, *)
(*      model], o [...]]; st: [account, password, loginId, token, sn, dtype]; cn: China server                    *)
RequestClause(kind, e, st, cn) ==
  LET o == e.o
      iot == IF cn THEN IotKeyCN ELSE IotKey
      lk == IF cn THEN LoginKeyCN ELSE LoginKey
      kd == HexOf(o.kd_out) IN
  IF e.path # ProxyPath THEN "request does not go to the proxy path"
  ELSE IF e.alias # Endpoint(kind) THEN "request goes to the wrong endpoint"
  ELSE IF e.hdr.ctype # JsonType \/ e.hdr.sver # <<49>> THEN "content type / secretVersion header is wrong"
  ELSE IF o.hmac_key # HmacKey \/ o.hmac_msg # iot \o e.content \o e.hdr.random THEN "harness: HMAC oracle input is not (HmacKey, iot key + content + random)"
  ELSE IF e.hdr.sign # HexOf(o.hmac_out) THEN "sign header is not hex(HMAC-SHA256(key, iot key + content + random))"
  ELSE IF e.hdr.token # st.token THEN "accessToken header is not the token issued by login (or empty before login)"
  ELSE IF kind \in {"lid", "login"} /\ e.body.account # st.account THEN "request does not carry the account"
  ELSE IF kind = "login" /\ (o.pw1_in # st.password \/ o.md1_in # st.password) THEN "harness: password oracle input is not the password"
  ELSE IF kind = "login" /\ o.pw2_in # st.loginId \o HexOf(o.pw1_out) \o lk THEN "harness: login hash oracle input is not loginId + hex(SHA-256(password)) + login key"
  ELSE IF kind = "login" /\ e.body.password # HexOf(o.pw2_out) THEN "password is not hex(SHA-256(loginId + hex(SHA-256(password)) + login key))"
  ELSE IF kind = "login" /\ o.md2_in # HexOf(o.md1_out) THEN "harness: second MD5 oracle input is not hex(MD5(password))"
  ELSE IF kind = "login" /\ ~cn /\ o.iam_in # st.loginId \o HexOf(o.md2_out) \o lk THEN "harness: iam hash oracle input is not loginId + hex(MD5(hex(MD5(password)))) + login key"
  ELSE IF kind = "login" /\ e.body.iampwd # (IF cn THEN HexOf(o.md2_out) ELSE HexOf(o.iam_out)) THEN "iampwd is not derived from the doubly MD5-hashed password as the server expects"
  ELSE IF kind = "lua" /\ o.kd_in # SAppKey THEN "harness: key derivation oracle input is not the app key"
  ELSE IF kind = "lua" /\ (o.aes_key # Take(kd, 16) \/ o.aes_iv # Slice(kd, 17, 32) \/ o.aes_in # Pkcs7Pad(st.sn)) THEN "harness: AES oracle input is not (key, iv, pkcs7(serial number))"
  ELSE IF kind = "lua" /\ e.body.sn # HexOf(o.aes_out) THEN "applianceSn is not hex(AES-CBC(pkcs7(serial number))) under the app key"
  ELSE IF kind \in {"lua", "plug"} /\ e.body.atype # PyHex(st.dtype) THEN "appliance type is not 0x<device type>"
  ELSE IF kind = "plug" /\ e.body.model # Slice(st.sn, 10, 17) THEN "appModel is not characters 9..16 of the serial number"
  ELSE "ok"

(* the downloaded Lua file: the server sends hex(ciphertext); the client returns the unpadded plaintext *)
LuaClause(e, st) ==
  LET o == e.o  kd == HexOf(o.kd_out) IN
  IF o.kd_in # SAppKey \/ o.aes_key # Take(kd, 16) \/ o.aes_iv # Slice(kd, 17, 32) \/ e.text # HexOf(o.aes_in) THEN "harness: decryption oracle input is not (key, iv, the bytes the server sent)"
  ELSE IF ~Pkcs7Valid(o.aes_out) THEN "harness: served file does not decrypt to padded text"
  ELSE "ok"
LuaData(e) == Pkcs7Unpad(e.o.aes_out)

(* ---------------------------------------------------------------------------------------------- *)
(* Part 2: the flow                                                                               *)
(* ---------------------------------------------------------------------------------------------- *)
CONSTANTS Retries, Outcomes, MaxCalls
VARIABLES pc,        \* "idle" | "lid" | "login" | "lua" | "luafile" | "plug" | "plugfile"
          op,        \* "none" | "login" | "lua" | "plug"
          haveLid, haveSess, left, att,
          last,      \* "none" | "ok" | "cloud_error" | "http_escapes"
          lastop, calls
svars == <<pc, op, haveLid, haveSess, left, att, last, lastop, calls>>
SInit == /\ pc = "idle" /\ op = "none" /\ haveLid = FALSE /\ haveSess = FALSE /\ left = 0 /\ att = 0 /\ last = "none" /\ lastop = "none" /\ calls = 0
Start(kind) == /\ pc' = kind /\ left' = Retries /\ att' = 0
CallLogin(force) ==
  /\ pc = "idle" /\ calls < MaxCalls /\ calls' = calls + 1 /\ UNCHANGED <<haveLid, haveSess>>
  /\ IF haveSess /\ ~force THEN /\ last' = "ok" /\ lastop' = "login" /\ op' = "none" /\ UNCHANGED <<pc, left, att>>
     ELSE /\ op' = "login" /\ last' = "none" /\ UNCHANGED lastop /\ Start(IF haveLid THEN "login" ELSE "lid")
CallGet(kind) == /\ pc = "idle" /\ calls < MaxCalls /\ calls' = calls + 1 /\ op' = kind /\ last' = "none" /\ Start(kind)
                 /\ UNCHANGED <<haveLid, haveSess, lastop>>
EndCore(r) == /\ pc' = "idle" /\ op' = "none" /\ last' = r /\ lastop' = op /\ left' = 0
End(r) == EndCore(r) /\ UNCHANGED <<haveLid, haveSess, calls>>
IsApi == pc \in {"lid", "login", "lua", "plug"}
Attempt(out) ==
  /\ IsApi /\ out \in Outcomes /\ ((out = "ok" /\ pc # "login") \/ att' = att + 1)
  /\ CASE out = "timeout" -> IF left > 1 THEN /\ left' = left - 1 /\ UNCHANGED <<pc, op, haveLid, haveSess, last, lastop, calls>> ELSE End("cloud_error")
       [] out \in {"http", "api"} -> End("cloud_error")
       [] out = "ok" ->
            CASE pc = "lid" -> /\ haveLid' = TRUE /\ pc' = "login" /\ left' = Retries /\ att' = 0 /\ UNCHANGED <<op, haveSess, last, lastop, calls>>
              [] pc = "login" -> /\ haveSess' = TRUE /\ EndCore("ok") /\ UNCHANGED <<haveLid, calls>>
              [] pc = "lua" -> /\ pc' = "luafile" /\ left' = 1 /\ att' = 0 /\ UNCHANGED <<op, haveLid, haveSess, last, lastop, calls>>
              [] pc = "plug" -> /\ pc' = "plugfile" /\ left' = 1 /\ att' = 0 /\ UNCHANGED <<op, haveLid, haveSess, last, lastop, calls>>
(* file download: exactly one attempt *)
FileAttempt(out) ==
  /\ pc \in {"luafile", "plugfile"} /\ out \in Outcomes \ {"api"} /\ att' = att + 1
  /\ CASE out = "ok" -> End("ok")
       [] out = "timeout" -> End("cloud_error")
       [] out = "http" -> End("http_escapes")            \* FileHttpEscapes: r.raise_for_status() in the download is not mapped to a cloud error
SNext == (\E f \in BOOLEAN : CallLogin(f)) \/ CallGet("lua") \/ CallGet("plug") \/ (\E out \in Outcomes : Attempt(out) \/ FileAttempt(out))
SSpec == SInit /\ [][SNext]_svars
Budget == att <= Retries /\ (pc \in {"luafile", "plugfile"} => att = 0)
SessNeedsLid == haveSess => haveLid
(* a session is only ever gained by a successful login request *)
SessOnlyByLogin == [][haveSess' /\ ~haveSess => pc = "login"]_svars
(* a download is attempted only after its API request succeeded *)
FileAfterApi == [][pc' \in {"luafile", "plugfile"} /\ pc' # pc => pc \in {"lua", "plug"}]_svars
=======================================================================
