---------------------------- MODULE AcReject ----------------------------
(* Single-byte corruption of a response frame and the acceptance rule of the client (C13). *)
EXTENDS AcResponse

(* pos is 1-based; fix = recompute the outer checksum after the substitution *)
Corrupt(f, pos, sub, fix) ==
  LET g == [f EXCEPT ![pos] = sub]
  IN IF fix THEN [g EXCEPT ![Len(g)] = Checksum(Slice(g, 2, Len(g) - 1))] ELSE g

(* a single-byte change always breaks the check alternative the original used (CRC-8 detects every    *)
(* single-byte error; so does a sum); an accepted corrupted body therefore passed the OTHER alternative *)
CrcOK(g) == LET p == FPayload(g) IN Crc8(Front(p)) = Last(p)
SumOK(g) == LET p == FPayload(g) IN Checksum(Front(p)) = Last(p)
ViaOtherAlternative(f, g) == (CrcOK(f) /\ ~CrcOK(g) /\ SumOK(g)) \/ (SumOK(f) /\ ~SumOK(g) /\ CrcOK(g))
BecomesPropId(f, g) == ~IsPropertyResp(f) /\ IsPropertyResp(g)

(* Design-level classification of an accepted corruption.  The library accepts a body whose check  *)
(* byte matches CRC-8 OR the additive sum, and exempts 0xB0/0xB1 from the body check; both are       *)
(* deliberate (device compatibility) and both admit corruptions when the outer checksum is fixed up. *)
AcceptClass(f, g, fix) ==
  IF ~ClientAccepts(g) THEN "rejected"
  ELSE IF IsPropertyResp(f) /\ fix /\ IsPropertyResp(g) THEN "exempt-by-design"
  ELSE IF fix /\ BecomesPropId(f, g) THEN "becomes-property-id"
  ELSE IF fix /\ ViaOtherAlternative(f, g) THEN "dual-check-collision"
  ELSE "accepted"
=======================================================================
