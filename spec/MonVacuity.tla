---------------------------- MODULE MonVacuity ----------------------------
(* Non-vacuity of the session monitor: arbitrary (not client-generated) event sequences over a small concrete      *)
(* alphabet are folded through SessionMon!MonStep; every clause of the monitor must be reachable, i.e. for every    *)
(* clause some event sequence makes it fire.  TLC explores the monitor's own state space (BFS, bounded length) and   *)
(* prints each clause the first time it fires; the driver compares the set with the list of clauses in SessionMon.   *)
EXTENDS SessionMon
CONSTANTS MaxLen, Small      \* Small: a reduced alphabet (well-behaved environment only) for clauses that need longer event sequences
VARIABLES m, n
Ops == {"send", "auth"}
Evs ==
  {[e |-> "call", op |-> o, cr |-> c] : o \in Ops, c \in {"cached", "good", "bad"}}
  \cup {[e |-> "connok", c |-> c] : c \in 1..2} \cup {[e |-> "connrefuse"], [e |-> "connreq"], [e |-> "timer"], [e |-> "cancel"], [e |-> "jumpauth"], [e |-> "jumplife"]}
  \cup {[e |-> "close", c |-> 1], [e |-> "peerclose", c |-> 1]}
  \cup {[e |-> "tx", c |-> 1, t |-> t, ctr |-> k, tok |-> tk, k |-> kk, wf |-> w, reply |-> r] :
          t \in {"HS", "DATA"}, k \in {0, 1, 2}, tk \in {"good", "bad"}, kk \in {0, 1}, w \in BOOLEAN, r \in {"valid", "none"}}
  \cup {[e |-> "tx", c |-> 2, t |-> "DATA", ctr |-> 0, tok |-> "na", k |-> 1, wf |-> TRUE, reply |-> "valid"]}
  \cup {[e |-> "deliver", c |-> 1, m |-> mm, k |-> kk, gen |-> g, live |-> TRUE, i |-> 1] : mm \in {"HSR", "ENC", "PKT"}, kk \in {0, 1}, g \in BOOLEAN}
  \cup {[e |-> "ret", op |-> o, r |-> r, n |-> nn, stored |-> s] : o \in Ops, r \in {"frames", "authok", "auth", "timeout", "other:ValueError"}, nn \in {0, 1}, s \in {"none", "good", "bad"}}
  \cup {[e |-> "devret", op |-> "refresh", raised |-> ra, online |-> on, frames |-> f] : ra \in BOOLEAN, on \in BOOLEAN, f \in {0, 1}}
SmallEvs ==
  {[e |-> "call", op |-> o, cr |-> c] : o \in Ops, c \in {"cached", "good"}}
  \cup {[e |-> "connok", c |-> 1], [e |-> "connreq"], [e |-> "timer"]}
  \cup {[e |-> "tx", c |-> 1, t |-> t, ctr |-> k, tok |-> "good", k |-> 1, wf |-> TRUE, reply |-> "valid"] : t \in {"HS", "DATA"}, k \in {0, 1}}
  \cup {[e |-> "deliver", c |-> 1, m |-> mm, k |-> 1, gen |-> TRUE, live |-> TRUE, i |-> 1] : mm \in {"HSR", "ENC"}}
  \cup {[e |-> "ret", op |-> o, r |-> r, n |-> nn, stored |-> "good"] : o \in Ops, r \in {"frames", "authok", "timeout", "proto"}, nn \in {0, 1}}
Alphabet == IF Small THEN SmallEvs ELSE Evs
Init == m = MonInit /\ n = 0
Harness(x) == x[1] = "harness"
Next == /\ n < MaxLen /\ {x \in m.bad : ~Harness(x)} = {}
        /\ \E ev \in Alphabet :
             /\ (ev.e \in {"close", "peerclose", "tx", "deliver"} => ev.c <= Len(m.conns))          \* events about a connection need it to exist
             /\ (ev.e = "connok" => ev.c = Len(m.conns) + 1)
             /\ m' = MonStep(m, ev)
        /\ n' = n + 1
Seen == \A x \in m.bad : Harness(x) \/ PrintT(<<"CLAUSE", x[1], x[2]>>)
=======================================================================
