---------------------------- MODULE MC_V2 ----------------------------
(* In-model checks of the V2 packet layer with a MODEL cipher and MAC (the real primitives are  *)
(* uninterpreted): ModelEnc is a byte-wise bijection, ModelMd5 a keyed digest that detects every *)
(* single-bit change (CRC-8 + sum + length).                                                      *)
(*  RT (C02): for every frame length 0..255 and several device ids the encoder's packet satisfies *)
(*            V2PacketClause and V2Decode returns exactly the frame (padding/length arithmetic).   *)
(*  TM (C03): every single-bit flip and every truncation of authentic packets is an error.         *)
EXTENDS LanV2Packet
CONSTANT Full      \* TRUE: every length 0..255 x 6 ids and 5 tamper lengths; FALSE: a quick subset
VARIABLES mode, n, dev, pos, bit
vars == <<mode, n, dev, pos, bit>>
ModelEnc(s) == [k \in 1..Len(s) |-> Mod(s[k] + 77, 256)]
ModelDec(s) == [k \in 1..Len(s) |-> Mod(s[k] + 179, 256)]
ModelMd5(x) == <<Crc8(x), Mod(Sum(x), 256), Mod(Len(x), 256), Mod(Len(x) \div 256, 256)>> \o Zeros(12)
FrameOf(k) == [j \in 1..k |-> Mod(j * 7 + k, 256)]
DevIds == {Zeros(8), <<255, 0, 0, 0, 0, 0, 0, 0>>, <<0, 1, 0, 0, 0, 0, 0, 0>>, <<255, 255, 255, 255, 255, 255, 0, 0>>, Rep(255, 8), <<1, 2, 3, 4, 5, 6, 7, 8>>}
Ts == <<12, 3, 5, 7, 9, 3, 24, 20>>
Encode(frame, devid) ==
  LET ct == ModelEnc(Pkcs7Pad(frame))
      nn == 40 + Len(ct) + 16
      body == V2Header(nn, Ts, devid) \o ct
  IN body \o ModelMd5(body \o SignKey)
OracleFor(q) ==
  LET L == IF Len(q) >= 6 THEN LEVal(Slice(q, 5, 6)) ELSE 0
      r == Take(q, L)
      span == Take(r, L - 16) \o SignKey
      ct == Slice(r, 41, L - 16)
  IN [md5_in |-> span, md5_out |-> ModelMd5(span), ecb_ct |-> ct, ecb_pt |-> ModelDec(ct)]
Init == \/ /\ mode = "RT" /\ pos = 0 /\ bit = 0
           /\ IF Full THEN n \in 0..255 /\ dev \in DevIds
              ELSE n \in (0..50) \cup (238..255) /\ dev \in {Rep(255, 8), <<1, 2, 3, 4, 5, 6, 7, 8>>}
        \/ /\ mode = "TM" /\ n \in (IF Full THEN {0, 1, 15, 16, 17} ELSE {15}) /\ dev = <<1, 2, 3, 4, 5, 6, 7, 8>>
           /\ pos \in 1..(40 + 16 * ((n \div 16) + 1) + 16) /\ bit \in 0..8       \* bit 8 = truncate to pos-1 bytes
Next == UNCHANGED vars
P == Encode(FrameOf(n), dev)
RoundTrip == mode = "RT" =>
   /\ V2PacketClause(P, FrameOf(n), dev, OracleFor(P)) = "ok"
   /\ V2Decode(P, OracleFor(P)) = [k |-> "frame", f |-> FrameOf(n)]
   /\ Len(P) = 56 + 16 * ((n \div 16) + 1)
Flip(b, k) == IF Bit(b, k) = 1 THEN b - 2 ^ k ELSE b + 2 ^ k
Q == IF bit = 8 THEN Take(P, pos - 1) ELSE [P EXCEPT ![pos] = Flip(P[pos], bit)]
Tamper == mode = "TM" => V2Decode(Q, OracleFor(Q)).k = "err"
=======================================================================
