---------------------------- MODULE LanV2Packet ----------------------------
(* V2 LAN packet: 40-byte header, AES-128-ECB/PKCS7 payload under the fixed key, keyed MD5.   *)
(* AES and MD5 are uninterpreted: an oracle record o carries reference evaluations            *)
(*   o.md5_in / o.md5_out   and   o.ecb_ct / o.ecb_pt (reference decryption of ecb_ct)          *)
(* whose INPUTS the specification re-derives from the packet bytes - so slicing, padding,      *)
(* what is signed and where it sits are decided here, not by the harness.                     *)
EXTENDS Bytes

SignKey == <<120, 104, 100, 105, 119, 106, 110, 99, 104, 101, 107, 100, 52, 100, 53, 49, 50, 99, 104, 100, 106, 120, 53, 100, 56, 101, 52, 99, 51, 57, 52, 68, 50, 68, 55, 83>>     \* "xhdiwjnchekd4d512chdjx5d8e4c394D2D7S"

V2Header(n, ts, devid) ==
  <<90, 90, 1, 17>> \o LE(n, 2) \o <<32, 0>> \o Zeros(4) \o ts \o devid \o Zeros(12)

(* "ok" or the first clause that fails: is p the V2 packet for (frame, devid)?  The 4 message-id *)
(* bytes and the 8 timestamp bytes are unconstrained (DESIGN 6.1 F1).                            *)
V2PacketClause(p, frame, devid, o) ==
  LET n == Len(p)  padded == Pkcs7Pad(frame) IN
  IF n # 40 + Len(padded) + 16 THEN "total length is not 40 + padded frame + 16"
  ELSE IF Take(p, 2) # <<90, 90>> THEN "start marker"
  ELSE IF Slice(p, 5, 6) # LE(n, 2) THEN "length field is not the little-endian total length"
  ELSE IF Slice(p, 21, 28) # devid THEN "device id is not 8 bytes little-endian at offset 20"
  ELSE IF Take(p, 8) # <<90, 90, 1, 17>> \o LE(n, 2) \o <<32, 0>> \/ Slice(p, 29, 40) # Zeros(12) THEN "fixed header bytes"       \* message id (8..11) and timestamp (12..19) are free
  ELSE IF o.ecb_ct # Slice(p, 41, n - 16) THEN "harness: ciphertext oracle is not for bytes 40..n-16"
  ELSE IF o.ecb_pt # padded THEN "payload does not decrypt to the PKCS7-padded frame"
  ELSE IF o.md5_in # Take(p, n - 16) \o SignKey THEN "harness: MD5 oracle input is not packet[0:n-16] + key"
  ELSE IF Slice(p, n - 15, n) # o.md5_out THEN "signature is not MD5(packet before signature + key)"
  ELSE "ok"

(* What a conforming receiver makes of arbitrary bytes q.  Result: [k |-> "frame", f |-> ..] or *)
(* [k |-> "err", why |-> ..].  The receiver honours the length field (bytes after it ignored). *)
Err(w) == [k |-> "err", why |-> w]
V2Decode(q, o) ==
  IF Len(q) < 6 THEN Err("short")
  ELSE IF Take(q, 2) # <<90, 90>> THEN Err("marker")
  ELSE LET L == LEVal(Slice(q, 5, 6)) IN
       IF Len(q) < L THEN Err("truncated")
       ELSE IF L < 56 THEN Err("no room for header and signature")
       ELSE LET r == Take(q, L)  ct == Slice(r, 41, L - 16) IN
            IF o.md5_in # Take(r, L - 16) \o SignKey THEN [k |-> "harness", why |-> "MD5 oracle input is not the signed span"]
            ELSE IF Slice(r, L - 15, L) # o.md5_out THEN Err("signature")
            ELSE IF Len(ct) = 0 \/ Mod(Len(ct), 16) # 0 THEN Err("ciphertext not block aligned")
            ELSE IF o.ecb_ct # ct THEN [k |-> "harness", why |-> "ciphertext oracle is not the payload span"]
            ELSE IF ~Pkcs7Valid(o.ecb_pt) THEN Err("padding")
            ELSE [k |-> "frame", f |-> Pkcs7Unpad(o.ecb_pt)]
=======================================================================
