---------------------------- MODULE Trace_C15 ----------------------------
(* code -> spec: a list of capability records parsed by the real CapabilitiesResponse (whole and     *)
(* one record at a time) and fetched by the real get_capabilities() in one response and split at     *)
(* every point.  v = [recs, body, whole, singles, attrsWhole, splits:[at, attrs, raised], raised]     *)
EXTENDS AcCaps, Json, IOUtils
Vectors == JsonDeserialize(IOEnv.TRACE_FILE)
VARIABLE i
Init == i \in 1..Len(Vectors)
Next == UNCHANGED i
RECURSIVE BadSplit(_, _, _)
BadSplit(sp, want, k) == IF k > Len(sp) THEN 0
                         ELSE IF sp[k].raised # "none" \/ sp[k].attrs # want THEN k ELSE BadSplit(sp, want, k + 1)
Verdict(v) ==
  IF v.body # CapsBody(v.recs, FALSE) THEN "harness: body is not CapsBody(recs)"
  ELSE IF v.raised # "none" THEN "parsing raised " \o v.raised
  ELSE IF v.whole # MergeAll(v.singles) THEN "capabilities of the list differ from the in-order merge of the records interpreted alone"
  ELSE IF FlagsOf(v.attrsWhole) # DeriveFlags(v.whole)
       THEN "supports_* flags are not the documented function of the parsed capabilities: " \o (CHOOSE f \in DOMAIN DeriveFlags(v.whole) : FlagsOf(v.attrsWhole)[f] # DeriveFlags(v.whole)[f])
  ELSE IF SetsOf(v.attrsWhole) # DeriveSets(v.whole)
       THEN "supported modes / speeds are not the documented function of the parsed capabilities: " \o (CHOOSE f \in DOMAIN DeriveSets(v.whole) : SetsOf(v.attrsWhole)[f] # DeriveSets(v.whole)[f])
  ELSE IF TempsOf(v.attrsWhole) # DeriveTemps(v.whole) THEN "setpoint limits are not the documented function of the parsed capabilities"
  ELSE IF FlagsOf(v.attrsReuse) # FlagsOf(v.attrsWhole) \/ SetsOf(v.attrsReuse) # SetsOf(v.attrsWhole) \/ TempsOf(v.attrsReuse) # TempsOf(v.attrsWhole)
       THEN "an object that queried another unit's capabilities before reports something else than a fresh object (state carried across queries)"
  ELSE IF FlagsOf(v.attrsAfterState) # FlagsOf(v.attrsWhole) \/ SetsOf(v.attrsAfterState) # SetsOf(v.attrsWhole) \/ TempsOf(v.attrsAfterState) # TempsOf(v.attrsWhole)
       THEN "an object that polled the unit's state before reports other capabilities than a fresh object (state leaking into capabilities)"
  ELSE IF BadSplit(v.splits, v.attrsWhole, 1) # 0
       THEN "split delivery differs from single response at split point " \o ToString(v.splits[BadSplit(v.splits, v.attrsWhole, 1)].at)
  ELSE "ok"
Drift(v) == IF v.whole # ParseCaps(v.body) THEN "raw capabilities differ from the documented reader table (ParseCaps)" ELSE "none"
Judge == LET r == Verdict(Vectors[i]) IN
         /\ (r = "ok" \/ PrintT(<<"REJECT", i, r>>))
         /\ (r # "ok" \/ Drift(Vectors[i]) = "none" \/ PrintT(<<"DRIFT", i, Drift(Vectors[i])>>))
=======================================================================
