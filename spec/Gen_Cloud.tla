---------------------------- MODULE Gen_Cloud ----------------------------
(* spec -> code: behaviours of the Cloud flow with the history of user calls and per-attempt server outcomes *)
EXTENDS MC_Cloud, Json, TLC
VARIABLE hist
GInit == CInit /\ hist = <<>>
GNext == \/ CallLogin /\ hist' = Append(hist, [a |-> "login", out |-> "", lst |-> <<>>])
         \/ \E ls \in TokenLists : CallTok(ls) /\ hist' = Append(hist, [a |-> "tok", out |-> "", lst |-> ls])
         \/ \E out \in Outcomes : Attempt(out) /\ hist' = Append(hist, [a |-> "att", out |-> out, lst |-> <<>>])
GEmit == IF pc = "idle" /\ calls = MaxCalls THEN PrintT(<<"SCN", ToJson(hist)>>) /\ FALSE ELSE TRUE
FewLists == {<<>>, <<E1(1)>>, <<E1(2)>>, <<E1(2), E1(1)>>, <<E1(1), E1(2)>>, <<E1(2), E1(3), E1(2), E1(1)>>, <<E1(3), E1(1), E1(2)>>, <<E1(3), E1(2), E1(3), E1(2)>>, <<E1(1), E1(2), E1(1)>>}
=======================================================================
