---------------------------- MODULE Trace_Disc ----------------------------
(* code -> spec: one Discover.discover() / discover_single() run on the simulated network per vector:      *)
(*   probes   what the library sent (bytes, destination, reference MD5 of the span the spec names)        *)
(*   arrivals the datagrams delivered, in order: source address, port, bytes, reference ECB decryption     *)
(*   result   the Device objects returned (or the exception that escaped)                                  *)
(* The spec folds the arrivals (first datagram of an address decides), derives the identity each deciding   *)
(* well-formed reply encodes, and compares the set with what was returned.                                  *)
EXTENDS DiscLayout, Json, IOUtils, TLC
Vectors == JsonDeserialize(IOEnv.TRACE_FILE)
VARIABLE i
Init == i \in 1..Len(Vectors)
Next == UNCHANGED i

RECURSIVE Deciding(_, _, _)          \* indexes of the arrivals that are the first from their address
Deciding(arr, k, ips) == IF k > Len(arr) THEN <<>>
                         ELSE IF arr[k].ip \in ips THEN Deciding(arr, k + 1, ips)
                         ELSE <<k>> \o Deciding(arr, k + 1, ips \cup {arr[k].ip})
Expected(arr) == LET d == Deciding(arr, 1, {}) IN
                 { [Info(arr[d[j]].data, arr[d[j]].o) EXCEPT !.id = @] @@ [ip |-> arr[d[j]].ip] : j \in {x \in 1..Len(d) : WellFormed(arr[d[x]].data, arr[d[x]].o)} }
Returned(res) == { [id |-> res[k].id, port |-> res[k].port, sn |-> res[k].sn, name |-> res[k].name, type |-> res[k].type,
                    version |-> res[k].version, cls |-> res[k].cls, ip |-> res[k].ip] : k \in 1..Len(res) }
Ports(pr) == {pr[k].port : k \in 1..Len(pr)}

Verdict(v) ==
  IF v.exc # "" /\ Len(v.probes) = 0 THEN "C17: the run raised " \o v.exc \o " before any probe was sent (the devices on the network were never asked)"
  ELSE IF v.exc # "" /\ Expected(v.arrivals) # {} THEN "C17/C18: the run raised " \o v.exc \o ": the hosts that answered with a well-formed reply are not reported"
  ELSE IF v.exc # "" THEN "C18: the run raised " \o v.exc \o " instead of omitting the bad responder"
  ELSE IF Len(v.probes) = 0 THEN "C17: no probe was sent"
  ELSE IF \E k \in 1..Len(v.probes) : ProbeClause(v.probes[k].data, v.probes[k].o) # "ok"
       THEN "C17: " \o ProbeClause(v.probes[CHOOSE k \in 1..Len(v.probes) : ProbeClause(v.probes[k].data, v.probes[k].o) # "ok"].data,
                                    v.probes[CHOOSE k \in 1..Len(v.probes) : ProbeClause(v.probes[k].data, v.probes[k].o) # "ok"].o)
  ELSE IF Ports(v.probes) # {6445, 20086} THEN "C17: probes not sent to ports 6445 and 20086"
  ELSE IF \E k \in 1..Len(v.probes) : v.probes[k].host # v.target THEN "C17: probe sent to another address than the target"
  ELSE LET want == Expected(v.arrivals) got == Returned(v.result) IN
       IF Len(v.result) # Cardinality(got) THEN "C18: the same device was reported more than once"
       ELSE IF \E d \in got : \E e \in got : d # e /\ d.ip = e.ip THEN "C18: two devices reported for one address"
       ELSE IF \E d \in want : \A e \in got : e.ip # d.ip THEN "C17/C18: a host with a well-formed reply is missing from the result"
       ELSE IF \E e \in got : \A d \in want : d.ip # e.ip THEN "C18: a device was reported for a host whose deciding reply was not well-formed"
       ELSE IF got # want THEN
            LET e == CHOOSE e \in got : e \notin want
                d == CHOOSE d \in want : d.ip = e.ip
            IN "C17: reported identity differs from the reply: " \o (CHOOSE f \in DOMAIN e : e[f] # d[f])
       ELSE "ok"
Judge == LET r == Verdict(Vectors[i]) IN IF r = "ok" THEN TRUE ELSE PrintT(<<"REJECT", i, r>>)
=======================================================================
