---------------------------- MODULE Trace_CliDiscover ----------------------------
(* code -> spec: one `msmart-ng discover` run per vector on the simulated network.                                   *)
(* v = [host, count, probes, arrivals, printed (the dictionaries logged, projected), nprinted, none_found, exit, exc] *)
EXTENDS CliDiscover, Json, IOUtils
Vectors == JsonDeserialize(IOEnv.TRACE_FILE)
VARIABLE i
Init == i \in 1..Len(Vectors)
Next == UNCHANGED i
PrintedSet(ps) == { [id |-> ps[k].id, port |-> ps[k].port, sn |-> ps[k].sn, name |-> ps[k].name, type |-> ps[k].type, ip |-> ps[k].ip] : k \in 1..Len(ps) }
Verdict(v) ==
  LET opt == [host |-> v.host, count |-> v.count] IN
  IF v.exc # "" THEN "the command raised " \o v.exc
  ELSE IF v.exit # 0 THEN "exit status " \o ToString(v.exit)
  ELSE IF ProbesClause(opt, v.probes) # "ok" THEN ProbesClause(opt, v.probes)
  ELSE IF Len(v.printed) # Cardinality(PrintedSet(v.printed)) THEN "the same device was printed twice"
  ELSE IF PrintedClause(opt, v.arrivals, PrintedSet(v.printed)) # "ok" THEN PrintedClause(opt, v.arrivals, PrintedSet(v.printed))
  ELSE IF v.none_found # (Len(v.printed) = 0) THEN "'No devices found.' is not reported exactly when nothing is printed"
  ELSE "ok"
Judge == LET r == Verdict(Vectors[i]) IN IF r = "ok" THEN TRUE ELSE PrintT(<<"REJECT", i, r>>)
=======================================================================
