---------------------------- MODULE Trace_C14 ----------------------------
(* code -> spec: one public operation of AirConditioner whose every exchange is answered with the  *)
(* given frames (valid, truncated, oversized, unknown ids, wild counts, garbage).                    *)
(* v = [op, frames, raised, online, flags (attributes after), n_ok ...]                              *)
EXTENDS AcResponse, Json, IOUtils
Vectors == JsonDeserialize(IOEnv.TRACE_FILE)
VARIABLE i
Init == i \in 1..Len(Vectors)
Next == UNCHANGED i
BodyOf(f) == Slice(f, 11, Len(f) - 2)
Good(f) == ClientAccepts(f) /\ Decodable(BodyOf(f))
GoodState(f) == Good(f) /\ f[11] = 192
Flags(a) == [ power |-> a.power, t2 |-> a.t2, mode |-> a.mode, fan |-> a.fan, swing |-> a.swing, turbo |-> a.turbo,
              follow |-> a.follow, aux |-> a.aux, eco |-> a.eco, purifier |-> a.purifier, sleep |-> a.sleep,
              fahr |-> a.fahr, filter |-> a.filter, display |-> a.display, hum |-> a.hum, freeze |-> a.freeze ]
Applying == {"refresh", "apply", "toggle_display", "start_self_clean"}
LastGoodState(fs) == LET S == {k \in 1..Len(fs) : GoodState(fs[k])} IN
                     IF S = {} THEN 0 ELSE CHOOSE k \in S : \A j \in S : j <= k
(* property-backed attributes (swing angles): the value reported by the last fully decodable property response of the exchange that reports it *)
IsProps(f) == Good(f) /\ f[11] \in {176, 177}
Partial(f) == IsProps(f) /\ \E j \in 1..Len(PropsOf(BodyOf(f))) : PropsOf(BodyOf(f))[j].val = -1
Reports(f, id) == IsProps(f) /\ \E j \in 1..Len(PropsOf(BodyOf(f))) : PropsOf(BodyOf(f))[j].id = id
ValueIn(f, id) == LET ps == PropsOf(BodyOf(f))
                      j == CHOOSE x \in 1..Len(ps) : ps[x].id = id /\ \A y \in (x + 1)..Len(ps) : ps[y].id # id IN ps[j].val
PropClause(v, id, name) ==
  LET fs == v.frames
      K == {k \in 1..Len(fs) : Reports(fs[k], id)} IN
  IF \E k \in 1..Len(fs) : Partial(fs[k]) THEN "ok"                      \* a record running past the end: what is kept of that frame is not pinned down here
  ELSE IF K = {} THEN (IF v.pflags[name] # v.pbefore[name] THEN "exchange without a decodable property response changed a property attribute" ELSE "ok")
  ELSE LET k == CHOOSE x \in K : \A y \in K : y <= x IN
       IF ValueIn(fs[k], id) \in {0, 1, 25, 50, 75, 100} /\ v.pflags[name] # ValueIn(fs[k], id)
       THEN "decodable property response delivered in the exchange was not applied (or another frame of the exchange disturbed it)" ELSE "ok"
(* capabilities: a decodable 0xB5 response (frame type 3) delivered to get_capabilities() is applied, whatever else the exchange carried.  *)
(* Observed through one capability: vertical swing angle (record 09 00 01 01).                                                        *)
RECURSIVE HasRec(_, _, _, _)
HasRec(b, n, id, val) == IF n = 0 \/ Len(b) < 3 THEN FALSE
                         ELSE LET sz == b[3] IN
                              IF Len(b) < 3 + sz THEN FALSE
                              ELSE (b[1] + 256 * b[2] = id /\ sz >= 1 /\ b[4] = val) \/ HasRec(Drop(b, 3 + sz), n - 1, id, val)
CapsUD(f) == Good(f) /\ f[11] = 181 /\ f[10] = 3 /\ Len(BodyOf(f)) >= 2 /\ HasRec(Drop(BodyOf(f), 2), BodyOf(f)[2], 9, 1)
CapsClause(v) ==
  IF v.op # "get_capabilities" \/ ~(\E k \in 1..Len(v.frames) : CapsUD(v.frames[k])) THEN "ok"
  ELSE IF \E k \in 1..Len(v.frames) : Good(v.frames[k]) /\ v.frames[k][11] = 181 /\ ~CapsUD(v.frames[k]) THEN "ok"       \* several capability frames: which one counts is not pinned down here
  ELSE IF ~v.cflags.ud THEN "decodable capabilities response delivered to get_capabilities was not applied" ELSE "ok"
Verdict(v) ==
  IF v.raised # "none" THEN "operation raised " \o v.raised
  ELSE IF CapsClause(v) # "ok" THEN CapsClause(v)
  ELSE IF v.op \in Applying /\ PropClause(v, PropSwingUD, "ud") # "ok" THEN PropClause(v, PropSwingUD, "ud")
  ELSE IF v.op \in Applying /\ PropClause(v, PropSwingLR, "lr") # "ok" THEN PropClause(v, PropSwingLR, "lr")
  ELSE LET k == LastGoodState(v.frames) IN
       IF v.op \in Applying /\ k # 0 /\ Flags(v.flags) # StateView(BodyOf(v.frames[k]))
            THEN "decodable state response delivered in the exchange was not applied (or a later undecodable one disturbed it)"
       ELSE IF v.op = "refresh" /\ (\E j \in 1..Len(v.frames) : Good(v.frames[j])) /\ ~v.online
            THEN "decodable response delivered but refresh reports offline"
       ELSE IF v.op \in Applying /\ k = 0 /\ Flags(v.flags) # Flags(v.before)
            THEN "exchange without any decodable state response changed the state attributes"
       ELSE "ok"
Judge == LET r == Verdict(Vectors[i]) IN IF r = "ok" THEN TRUE ELSE PrintT(<<"REJECT", i, r>>)
=======================================================================
