---------------------------- MODULE Trace_C14 ----------------------------
(* code -> spec: one public operation of AirConditioner whose every exchange is answered with the  *)
(* given frames (valid, truncated, oversized, unknown ids, wild counts, garbage).                    *)
(* v = [op, frames, raised, online, flags (attributes after), n_ok ...]                              *)
EXTENDS AcResponse, Json, IOUtils
Vectors == JsonDeserialize(IOEnv.TRACE_FILE)
VARIABLE i
Init == i \in 1..Len(Vectors)
Next == UNCHANGED i
BodyOf(f) == Slice(f, 11, Len(f) - 2)
Good(f) == ClientAccepts(f) /\ Decodable(BodyOf(f))
GoodState(f) == Good(f) /\ f[11] = 192
Flags(a) == [ power |-> a.power, t2 |-> a.t2, mode |-> a.mode, fan |-> a.fan, swing |-> a.swing, turbo |-> a.turbo,
              follow |-> a.follow, aux |-> a.aux, eco |-> a.eco, purifier |-> a.purifier, sleep |-> a.sleep,
              fahr |-> a.fahr, filter |-> a.filter, display |-> a.display, hum |-> a.hum, freeze |-> a.freeze ]
Applying == {"refresh", "apply", "toggle_display", "start_self_clean"}
LastGoodState(fs) == LET S == {k \in 1..Len(fs) : GoodState(fs[k])} IN
                     IF S = {} THEN 0 ELSE CHOOSE k \in S : \A j \in S : j <= k
Verdict(v) ==
  IF v.raised # "none" THEN "operation raised " \o v.raised
  ELSE LET k == LastGoodState(v.frames) IN
       IF v.op \in Applying /\ k # 0 /\ Flags(v.flags) # StateView(BodyOf(v.frames[k]))
            THEN "decodable state response delivered in the exchange was not applied (or a later undecodable one disturbed it)"
       ELSE IF v.op = "refresh" /\ (\E j \in 1..Len(v.frames) : Good(v.frames[j])) /\ ~v.online
            THEN "decodable response delivered but refresh reports offline"
       ELSE IF v.op \in Applying /\ k = 0 /\ Flags(v.flags) # Flags(v.before)
            THEN "exchange without any decodable state response changed the state attributes"
       ELSE "ok"
Judge == LET r == Verdict(Vectors[i]) IN IF r = "ok" THEN TRUE ELSE PrintT(<<"REJECT", i, r>>)
=======================================================================
