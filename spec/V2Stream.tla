---------------------------- MODULE V2Stream ----------------------------
(* Reassembly of V2 packets from a TCP byte stream (part of C01: "for all ways the device's byte stream is  *)
(* segmented", V2).  A V2 packet starts with 0x5A 0x5A and carries its total length little-endian at        *)
(* bytes 4..5.  The framer (msmart/lan.py _LanProtocol.data_received after fix D7):                          *)
(*   - while the buffer is a proper prefix of a packet, wait;                                                *)
(*   - a complete packet is queued, the rest is framed again;                                                *)
(*   - a buffer that does not start like a packet is passed through unchanged as ONE item (the decoder then  *)
(*     reports it), except when it trails a packet extracted by the same call: then it is ignored;           *)
(*   - a length field below 6 cannot be a packet: passed through;                                            *)
(*   - Flush (read timeout): whatever is buffered is handed over as one item ("truncated").                  *)
EXTENDS Bytes
VARIABLES parts,    \* <<[g |-> junk bytes, p |-> packet bytes], ...>>
          stream, pos, buffer, queue
vars == <<parts, stream, pos, buffer, queue>>
RECURSIVE Concat(_)
Concat(ps) == IF ps = <<>> THEN <<>> ELSE Head(ps).g \o Head(ps).p \o Concat(Tail(ps))
IsPacket(p) == Len(p) >= 6 /\ p[1] = 90 /\ p[2] = 90 /\ LEVal(Slice(p, 5, 6)) = Len(p)
StartsLikePacket(b) == Len(b) >= 1 /\ b[1] = 90 /\ (Len(b) >= 2 => b[2] = 90)      \* b"\x5a\x5a".startswith(b[:2])
RECURSIVE Extract(_, _)
Extract(b, extracted) ==
  IF Len(b) = 0 THEN [rest |-> <<>>, pkts |-> <<>>]
  ELSE IF ~StartsLikePacket(b) THEN (IF extracted THEN [rest |-> <<>>, pkts |-> <<>>] ELSE [rest |-> <<>>, pkts |-> <<b>>])
  ELSE IF Len(b) < 6 THEN [rest |-> b, pkts |-> <<>>]
  ELSE LET n == LEVal(Slice(b, 5, 6)) IN
       IF n < 6 THEN [rest |-> <<>>, pkts |-> <<b>>]
       ELSE IF Len(b) < n THEN [rest |-> b, pkts |-> <<>>]
       ELSE LET r == Extract(Drop(b, n), TRUE) IN [rest |-> r.rest, pkts |-> <<Take(b, n)>> \o r.pkts]
Init == /\ stream = Concat(parts) /\ pos = 0 /\ buffer = <<>> /\ queue = <<>>
Segment(n) == /\ n \in 1..(Len(stream) - pos)
              /\ LET r == Extract(buffer \o Slice(stream, pos + 1, pos + n), FALSE) IN buffer' = r.rest /\ queue' = queue \o r.pkts
              /\ pos' = pos + n /\ UNCHANGED <<parts, stream>>
Flush == /\ buffer # <<>> /\ queue' = Append(queue, buffer) /\ buffer' = <<>> /\ UNCHANGED <<parts, stream, pos>>
Next == \E n \in 1..(Len(stream) - pos) : Segment(n)
(* junk-free streams: each packet exactly once, complete, in order, as soon as its last byte has arrived - however the stream is cut *)
JunkFree == \A k \in 1..Len(parts) : parts[k].g = <<>> /\ IsPacket(parts[k].p)
RECURSIVE EndOf(_, _)
EndOf(ps, k) == IF k = 0 THEN 0 ELSE EndOf(ps, k - 1) + Len(ps[k].g) + Len(ps[k].p)
DeliveredBy(ps, x) == LET K == {k \in 1..Len(ps) : EndOf(ps, k) <= x} IN [k \in 1..Cardinality(K) |-> ps[k].p]
Delivered == JunkFree => queue = DeliveredBy(parts, pos)
NoLoss == JunkFree => buffer = Slice(stream, EndOf(parts, Len(queue)) + 1, pos)
=======================================================================
