---------------------------- MODULE Gen_C16 ----------------------------
(* spec -> code: AcDevice with a history of the user's calls; complete histories are printed as scenarios. *)
EXTENDS MC_C16, Json
VARIABLE hist
H(a, v) == hist' = Append(hist, [a |-> a, v |-> v])
GInit == DInit /\ hist = <<>>
GNext == \/ \E b \in BOOLEAN : (SetBreezeAway(b) /\ H("away", B(b)))
         \/ \E b \in BOOLEAN : (SetBreezeMild(b) /\ H("mild", B(b)))
         \/ \E b \in BOOLEAN : (SetBreezeless(b) /\ H("less", B(b)))
         \/ \E b \in BOOLEAN : (SetIeco(b) /\ H("ieco", B(b)))
         \/ \E b \in BOOLEAN : (SetBeep(b) /\ H("beep", B(b)))
         \/ \E v \in Rates : (SetRate(v) /\ H("rate", v))
         \/ \E v \in Angles : (SetLR(v) /\ H("lr", v))
         \/ \E v \in Angles : (SetUD(v) /\ H("ud", v))
         \/ (Apply /\ H("apply", 0)) \/ (Refresh /\ H("refresh", 0)) \/ (GetCaps /\ H("caps", 0)) \/ (StartSelfClean /\ H("selfclean", 0)) \/ (CleanDone /\ H("cleandone", 0)) \/ (GetCapsPage1 /\ H("caps1", 0))
(* print histories of exactly MaxDepth calls (BFS) / every prefix end (simulation runs to depth) *)
GEmit == IF Len(hist) >= MaxDepth THEN PrintT(<<"SCN", ToJson(hist)>>) /\ FALSE ELSE TRUE
(* the shape every read-back needs: get_capabilities, two free calls, apply, refresh *)
ReadBackShape == /\ (Len(hist) >= 1 => hist[1].a = "caps") /\ (Len(hist) >= 4 => hist[4].a = "apply") /\ (Len(hist) >= 5 => hist[5].a = "refresh")
CapsFirst == Len(hist) >= 1 => hist[1].a = "caps"
=======================================================================
