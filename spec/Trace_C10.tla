---------------------------- MODULE Trace_C10 ----------------------------
(* code -> spec: every 0x40 body the simulated device received after AirConditioner.apply(),  *)
(* with the state the user requested.  TLC judges each vector with the vendor layout.         *)
EXTENDS AcCommand, Json, IOUtils
Vectors == JsonDeserialize(IOEnv.TRACE_FILE)
VARIABLE i
Init == i \in 1..Len(Vectors)
Next == UNCHANGED i
Verdict(v) ==
  IF ~SettableDomain(v.req) THEN "harness: requested state outside the property's domain"
  ELSE IF ~WellFormedCommand(v.frame) THEN "frame not well-formed"
  ELSE IF FType(v.frame) # TypeControl THEN "frame type is not CONTROL"
  ELSE LET b == FBody(v.frame) IN
       IF Len(b) # 24 \/ b[1] # 64 THEN "not a 24-byte 0x40 body"
       ELSE IF ~Vendor40Shape(b) THEN "vendor shape (client mode / swing marker / turbo pair)"
       ELSE IF VendorDecode40(b) # Requested(v.req) THEN "vendor decode differs from requested state"
       ELSE IF ~VendorNeutral(b) THEN "unrequested vendor feature bits set"
       ELSE IF v.devstate # Requested(v.req) THEN "harness: simulated device decoded a different state"
       ELSE "ok"
Judge == LET r == Verdict(Vectors[i]) IN IF r = "ok" THEN TRUE ELSE PrintT(<<"REJECT", i, r>>)
(* informational: byte-exact agreement with the library-shaped packing *)
Exact == FBody(Vectors[i].frame) = SetStateBody(Vectors[i].req)
=======================================================================
