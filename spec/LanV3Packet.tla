---------------------------- MODULE LanV3Packet ----------------------------
(* V3 LAN packets.  6-byte header: 0x83 0x70, size (2, big endian), 0x20, pad<<4 | type.          *)
(*   encrypted request (type 6) / response (type 3):                                              *)
(*       AES-CBC(zero IV, session key)[ counter(2, BE) payload padbytes ]  SHA-256(header plaintext) *)
(*       size = len(payload) + pad + 32 ; pad = (16 - (len(payload)+2) mod 16) mod 16              *)
(*   handshake request (type 0) / response (type 1): counter(2) data, unencrypted, size = len(data) *)
(* AES-CBC and SHA-256 are uninterpreted: the oracle o carries reference evaluations whose inputs   *)
(* are re-derived here (o.cbc_ct / o.cbc_pt under the session key, o.sha_in / o.sha_out).           *)
EXTENDS Bytes

TypeHSRequest == 0   TypeHSResponse == 1   TypeEncResponse == 3   TypeEncRequest == 6   TypeError == 15
Pad(n) == Mod(16 - Mod(n + 2, 16), 16)
EncHeader(n, typ) == <<131, 112>> \o BE(n + Pad(n) + 32, 2) \o <<32, Pad(n) * 16 + typ>>

EncPacketClause(pkt, payload, ctr, typ, o) ==
  LET n == Len(payload)  L == Len(pkt) IN
  IF L # 6 + n + 2 + Pad(n) + 32 THEN "total length is not 6 + (2 + payload + pad) + 32 with pad = (16 - (len+2) mod 16) mod 16"
  ELSE IF Take(pkt, 2) # <<131, 112>> THEN "start marker"
  ELSE IF Slice(pkt, 3, 4) # BE(n + Pad(n) + 32, 2) THEN "size field is not big-endian payload + pad + 32"
  ELSE IF pkt[5] # 32 THEN "magic byte"
  ELSE IF pkt[6] # Pad(n) * 16 + typ THEN "pad/type byte"
  ELSE IF o.cbc_ct # Slice(pkt, 7, L - 32) THEN "harness: ciphertext oracle is not bytes 6..L-32"
  ELSE IF Len(o.cbc_pt) # n + 2 + Pad(n) THEN "plaintext length"
  ELSE IF Take(o.cbc_pt, 2) # BE(ctr, 2) THEN "counter is not big-endian in the first two plaintext bytes"
  ELSE IF Slice(o.cbc_pt, 3, n + 2) # payload THEN "decrypted payload differs"
  ELSE IF o.sha_in # Take(pkt, 6) \o o.cbc_pt THEN "harness: SHA-256 oracle input is not header + plaintext"
  ELSE IF Slice(pkt, L - 31, L) # o.sha_out THEN "tag is not SHA-256(header + plaintext)"
  ELSE "ok"

HSRequestClause(pkt, token, ctr) ==
  IF pkt # <<131, 112>> \o BE(Len(token), 2) \o <<32, TypeHSRequest>> \o BE(ctr, 2) \o token
  THEN "handshake request is not header(size = len(token), type 0) + counter + token" ELSE "ok"

Err(w) == [k |-> "err", why |-> w]
(* what a conforming receiver holding the session key makes of one whole packet q *)
V3Decode(q, hasKey, o) ==
  IF Len(q) < 6 THEN Err("short")
  ELSE IF Take(q, 2) # <<131, 112>> THEN Err("marker")
  ELSE IF q[5] # 32 THEN Err("magic")
  ELSE LET typ == Mod(q[6], 16)  pad == q[6] \div 16  ct == Slice(q, 7, Len(q) - 32) IN
       IF typ = TypeError THEN Err("error packet")
       ELSE IF typ = TypeHSResponse THEN [k |-> "handshake", data |-> Drop(q, 8)]
       ELSE IF typ # TypeEncResponse THEN Err("unexpected type")
       ELSE IF ~hasKey THEN Err("encrypted data before authentication")
       ELSE IF Len(q) < 6 + 16 + 32 \/ Mod(Len(ct), 16) # 0 THEN Err("ciphertext not block aligned")
       ELSE IF o.cbc_ct # ct THEN [k |-> "harness", why |-> "ciphertext oracle is not bytes 6..L-32"]
       ELSE IF o.sha_in # Take(q, 6) \o o.cbc_pt THEN [k |-> "harness", why |-> "SHA-256 oracle input is not header + plaintext"]
       ELSE IF Slice(q, Len(q) - 31, Len(q)) # o.sha_out THEN Err("tag")
       ELSE IF pad > Len(o.cbc_pt) - 2 THEN Err("pad larger than plaintext")
       ELSE [k |-> "frame", f |-> Slice(o.cbc_pt, 3, Len(o.cbc_pt) - pad)]
=======================================================================
