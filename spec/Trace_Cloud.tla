---------------------------- MODULE Trace_Cloud ----------------------------
(* code -> spec: one client (NetHomePlusCloud) against the model cloud server.  Events:                      *)
(*   call(op, udpid, list)   the user calls login() / get_token(udpid); list = token list the server will answer *)
(*   req(path, fields, order, o, out, lid, sid)   one HTTP attempt as the server saw it and how it answered        *)
(*   ret(r, token, key)      the call returned (ok) or raised (cloud_error / other:<type>)                        *)
(* The Cloud flow machine is stepped along; the first difference is the verdict.                                  *)
EXTENDS MC_Cloud, Json, IOUtils, TLC
Traces == JsonDeserialize(IOEnv.TRACE_FILE)
VARIABLES tid, l, verdict, lidV, sidV, udpidV, listV
Acct == Traces[tid].account
Pw == Traces[tid].password
Abs(list, u) == [j \in 1..Len(list) |-> [udpId |-> IF list[j].udpId = u THEN 1 ELSE 2]]
St == [account |-> Acct, password |-> Pw, loginId |-> lidV, session |-> sidV, udpid |-> udpidV]
TInit == tid \in 1..Len(Traces) /\ l = 1 /\ verdict = "ok" /\ lidV = <<>> /\ sidV = <<>> /\ udpidV = <<>> /\ listV = <<>> /\ CInit
Keep == UNCHANGED <<lidV, sidV, udpidV, listV>>
Stay == UNCHANGED cvars
OnCall(e) ==
  IF pc # "idle" THEN verdict' = "harness: call while another call is running" /\ Stay /\ Keep
  ELSE IF e.op = "login" THEN CallLogin /\ verdict' = "ok" /\ Keep
  ELSE CallTok(Abs(e.list, e.udpid)) /\ verdict' = "ok" /\ udpidV' = e.udpid /\ listV' = e.list /\ UNCHANGED <<lidV, sidV>>
OnReq(e) ==
  IF pc = "idle" THEN verdict' = "a request was sent although the call is over (attempt budget exceeded or request after an error)" /\ Stay /\ Keep
  ELSE LET c == RequestClause(pc, e.path, e.fields, e.order, e.o, St) IN
       IF c # "ok" THEN verdict' = c /\ Stay /\ Keep
       ELSE /\ Attempt(e.out) /\ verdict' = "ok"
            /\ lidV' = IF e.out = "ok" /\ pc = "lid" THEN e.lid ELSE lidV
            /\ sidV' = IF e.out = "ok" /\ pc = "login" THEN e.sid ELSE sidV
            /\ UNCHANGED <<udpidV, listV>>
OnRet(e) ==
  /\ Stay /\ Keep
  /\ verdict' = IF pc # "idle" THEN "the call ended although the flow requires another request (gave up early / skipped a step): " \o pc
                ELSE IF e.r \notin {"ok", "cloud_error"} THEN "the call raised something other than a cloud error: " \o e.r
                ELSE IF e.r # last THEN "outcome of the call differs: expected " \o last \o ", got " \o e.r
                ELSE IF lastop = "tok" /\ last = "ok" /\ (e.token # listV[got].token \/ e.key # listV[got].key) THEN "token/key returned are not those of the matching entry"
                ELSE "ok"
(* end-to-end observation of an auto-connect: the device found by discovery, the credentials it holds afterwards, the credentials *)
(* registered in the cloud for the udpid of its id (in the byte order it was registered under), whether it was refreshed          *)
OnE2E(e) ==
  /\ Stay /\ Keep
  /\ verdict' = IF e.exc # "" THEN "auto-connect raised " \o e.exc
                ELSE IF ~e.found THEN "the V3 device was not reported"
                ELSE IF e.dev_token # e.reg_token \/ e.dev_key # e.reg_key THEN "the device does not hold the credentials registered for the udpid of its id"
                ELSE IF ~e.online THEN "the authenticated device was not refreshed"
                ELSE "ok"
(* auto-connect while the cloud fails (API error code, HTTP failure, exhausted timeouts) at a chosen step: the failure surfaces as a cloud error *)
OnE2EFault(e) ==
  /\ Stay /\ Keep
  /\ verdict' = IF e.exc = "CloudError" THEN "ok"
                ELSE IF e.exc = "" THEN "a cloud failure (" \o e.fault \o " at the " \o e.step \o " step) during auto-connect was swallowed: no cloud error surfaced"
                ELSE "a cloud failure (" \o e.fault \o " at the " \o e.step \o " step) during auto-connect surfaced as " \o e.exc \o " instead of a cloud error"
TNext == /\ l <= Len(Traces[tid].events) /\ verdict = "ok"
         /\ LET e == Traces[tid].events[l] IN
            CASE e.ev = "call" -> OnCall(e) [] e.ev = "req" -> OnReq(e) [] e.ev = "ret" -> OnRet(e) [] e.ev = "e2e" -> OnE2E(e) [] e.ev = "e2ef" -> OnE2EFault(e)
         /\ l' = l + 1 /\ UNCHANGED tid
Done == l = Len(Traces[tid].events) + 1 \/ verdict # "ok"
Judge == Done => PrintT(<<"DONE", tid, IF verdict = "ok" THEN "ok" ELSE verdict \o " @event " \o ToString(l - 1)>>)
=======================================================================
