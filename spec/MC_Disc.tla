---------------------------- MODULE MC_Disc ----------------------------
(* In-model check of the discovery layout: the identity Info() reads from a reply built with the layout     *)
(* (under an identity cipher: o.pt = padded body, o.ct = the bytes in the packet) is the identity put in,  *)
(* for every appliance type byte in both hex cases, id and port boundary values, both versions.             *)
EXTENDS DiscLayout, TLC
HexChar(d, up) == IF d < 10 THEN 48 + d ELSE (IF up THEN 55 ELSE 87) + d
Name(typ, up) == <<110, 101, 116, Us, HexChar(typ \div 16, up), HexChar(Mod(typ, 16), up), Us, 70, 55, 66, 52>>
Sn == [k \in 1..32 |-> 48 + Mod(k, 10)]
Body(port, typ, up) == <<140, 1, 100, 10>> \o LE(port, 2) \o <<0, 0>> \o Sn \o <<Len(Name(typ, up))>> \o Name(typ, up)
Reply(ver, id6, body) ==
  LET ct == Pkcs7Pad(body)
      n == 40 + Len(ct) + 16
      inner == <<90, 90, 1, 17>> \o LE(n, 2) \o <<122, 128>> \o Zeros(12) \o id6 \o Zeros(14) \o ct \o Zeros(16)
  IN IF ver = 2 THEN inner ELSE <<131, 112>> \o BE(Len(inner) + 16, 2) \o <<32, 15, 0, 0>> \o inner \o Zeros(16)
Ids == {Zeros(6), <<1, 0, 0, 0, 0, 0>>, <<255, 255, 255, 255, 255, 255>>, <<0, 1, 0, 0, 0, 0>>, <<0, 0, 0, 0, 0, 128>>, <<86, 52, 18, 240, 222, 188>>}
Ports == {1, 255, 256, 6444, 32768, 65535}
VARIABLES typ, up, ver, id6, port
Init == typ \in 0..255 /\ up \in BOOLEAN /\ ver \in {2, 3} /\ id6 \in Ids /\ port \in Ports
Next == UNCHANGED <<typ, up, ver, id6, port>>
RoundTrip ==
  LET body == Body(port, typ, up)
      r == Reply(ver, id6, body)
      o == [ct |-> Pkcs7Pad(body), pt |-> Pkcs7Pad(body)]
      inf == Info(r, o)
  IN /\ WellFormed(r, o)
     /\ inf.id = id6 /\ inf.port = port /\ inf.sn = Sn /\ inf.name = Name(typ, up) /\ inf.type = typ /\ inf.version = ver
     /\ inf.cls = (IF typ = 172 THEN "AirConditioner" ELSE "Device")
     /\ ReportedIp(o) = <<10, 100, 1, 140>>
=======================================================================
