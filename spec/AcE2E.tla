---------------------------- MODULE AcE2E ----------------------------
(* End-to-end fidelity at the design level (C01): clients, one appliance, one in-order byte stream per  *)
(* client connection.  A client operation (apply / refresh) sends one command, the appliance answers      *)
(* with a state frame generated from its state at that moment; besides that the appliance may push        *)
(* unsolicited state reports, duplicates and frames of other kinds at any time.  The client applies EVERY  *)
(* frame of the exchange IN ORDER (everything queued before its request, the solicited reply, whatever     *)
(* arrived right behind it).  States are numbered by a version counter so that "which state" is           *)
(* unambiguous: ver = number of state writes so far.                                                       *)
EXTENDS Naturals, Sequences, TLC
CONSTANTS Clients, Vals, MaxVer, MaxQ,
          EarlyCompletion    \* TRUE: model what the code really does - the FIRST frame that arrives after the request ends the exchange (finding D11)
VARIABLES dev,      \* [val, ver]          appliance state
          ch,       \* [c -> sequence of frames [k: "state"|"other", val, ver]] in flight / queued, in order
          attrs,    \* [c -> [val, ver]]  the client's copy (ver = version of the frame it was taken from; 0 = none)
          wait,     \* [c -> 0 | index in ch[c] of the solicited reply]
          floor     \* [c -> version the device had when it generated the solicited reply]
evars == <<dev, ch, attrs, wait, floor>>
Frame(d) == [k |-> "state", val |-> d.val, ver |-> d.ver]
EInit == /\ dev = [val |-> CHOOSE v \in Vals : TRUE, ver |-> 0]
         /\ ch = [c \in Clients |-> <<>>] /\ attrs = [c \in Clients |-> [val |-> CHOOSE v \in Vals : TRUE, ver |-> 0]]
         /\ wait = [c \in Clients |-> 0] /\ floor = [c \in Clients |-> 0]
Room(c) == Len(ch[c]) < MaxQ
(* apply(v): the command reaches the appliance, which takes the state over and reports it *)
Apply(c, v) == /\ wait[c] = 0 /\ dev.ver < MaxVer /\ Room(c)
               /\ dev' = [val |-> v, ver |-> dev.ver + 1]
               /\ ch' = [ch EXCEPT ![c] = Append(@, Frame(dev'))]
               /\ wait' = [wait EXCEPT ![c] = Len(ch[c]) + 1] /\ floor' = [floor EXCEPT ![c] = dev.ver + 1]
               /\ UNCHANGED attrs
Refresh(c) == /\ wait[c] = 0 /\ Room(c)
              /\ ch' = [ch EXCEPT ![c] = Append(@, Frame(dev))]
              /\ wait' = [wait EXCEPT ![c] = Len(ch[c]) + 1] /\ floor' = [floor EXCEPT ![c] = dev.ver]
              /\ UNCHANGED <<dev, attrs>>
Unsolicited(c) == /\ Room(c) /\ ch' = [ch EXCEPT ![c] = Append(@, Frame(dev))] /\ UNCHANGED <<dev, attrs, wait, floor>>
Duplicate(c) == /\ Room(c) /\ ch[c] # <<>> /\ ch' = [ch EXCEPT ![c] = Append(@, ch[c][Len(ch[c])])] /\ UNCHANGED <<dev, attrs, wait, floor>>
Other(c) == /\ Room(c) /\ ch' = [ch EXCEPT ![c] = Append(@, [k |-> "other", val |-> dev.val, ver |-> 0])] /\ UNCHANGED <<dev, attrs, wait, floor>>
(* the exchange completes: the client has read the frames up to some point n at or behind the solicited reply *)
RECURSIVE Fold(_, _)
Fold(a, fs) == IF fs = <<>> THEN a ELSE Fold(IF Head(fs).k = "state" THEN [val |-> Head(fs).val, ver |-> Head(fs).ver] ELSE a, Tail(fs))
Complete(c) == /\ wait[c] # 0
               /\ \E n \in wait[c]..Len(ch[c]) :
                    /\ attrs' = [attrs EXCEPT ![c] = Fold(@, SubSeq(ch[c], 1, n))]
                    /\ ch' = [ch EXCEPT ![c] = SubSeq(@, n + 1, Len(@))]
               /\ wait' = [wait EXCEPT ![c] = 0] /\ UNCHANGED <<dev, floor>>
(* what LAN.send really does: it returns as soon as ONE frame has arrived after the request - if an unsolicited frame reaches the  *)
(* client at an earlier instant than the solicited reply, the exchange ends without the reply (which is read by the next exchange) *)
CompleteEarly(c) == /\ EarlyCompletion /\ wait[c] > 1
                    /\ \E n \in 1..(wait[c] - 1) :
                         /\ attrs' = [attrs EXCEPT ![c] = Fold(@, SubSeq(ch[c], 1, n))]
                         /\ ch' = [ch EXCEPT ![c] = SubSeq(@, n + 1, Len(@))]
                    /\ wait' = [wait EXCEPT ![c] = 0] /\ UNCHANGED <<dev, floor>>
ENext == \E c \in Clients : \/ \E v \in Vals : Apply(c, v)
                            \/ Refresh(c) \/ Unsolicited(c) \/ Duplicate(c) \/ Other(c) \/ Complete(c) \/ CompleteEarly(c)
ESpec == EInit /\ [][ENext]_evars
(* after an exchange the client's copy is the state the appliance had when it answered, or a later one; never an older one *)
Fresh == [][\A c \in Clients : (wait[c] # 0 /\ wait'[c] = 0) => attrs'[c].ver >= floor[c]]_evars
(* and it is always a state the appliance really was in *)
NeverInvented == \A c \in Clients : attrs[c].ver <= dev.ver
=======================================================================
