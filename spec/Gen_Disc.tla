---------------------------- MODULE Gen_Disc ----------------------------
(* spec -> code: discovery runs with a history of arrivals; finished runs are printed as scenarios *)
EXTENDS Discover, Json, TLC
VARIABLE hist
GInit == DInit /\ hist = <<>>
GNext == \/ \E h \in Hosts : Arrive(h) /\ hist' = Append(hist, [h |-> h, good |-> Good[h][sent[h] + 1]])
         \/ Finish /\ UNCHANGED hist
GEmit == IF done THEN PrintT(<<"SCN", ToJson([arrivals |-> hist, result |-> result])>>) /\ FALSE ELSE TRUE
AllArrive == done => \A h \in Hosts : sent[h] = Copies[h]
=======================================================================
