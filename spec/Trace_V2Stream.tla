---------------------------- MODULE Trace_V2Stream ----------------------------
(* code -> spec: a stream cut into segments and stepped through the real _LanProtocol.data_received (V2); a "flush" event is a *)
(* read that timed out.  Each event must be explained by V2Stream!Segment(n) / Flush with exactly the logged output.            *)
EXTENDS V2Stream, Json, IOUtils
Traces == JsonDeserialize(IOEnv.TRACE_FILE)
VARIABLES tid, l, bad
T == Traces[tid]
TInit == /\ tid \in 1..Len(Traces) /\ l = 1 /\ bad = "ok" /\ parts = Traces[tid].parts /\ stream = Concat(Traces[tid].parts)
         /\ pos = 0 /\ buffer = <<>> /\ queue = <<>>
Ev == T.events[l]
TNext ==
  /\ bad = "ok" /\ l <= Len(T.events)
  /\ IF Ev.flush THEN (IF buffer = <<>> THEN UNCHANGED vars ELSE Flush) ELSE Segment(Ev.n)
  /\ bad' = (IF queue' # queue \o Ev.out THEN "items queued by this step differ from the specification"
             ELSE IF JunkFree /\ ~Ev.flush /\ queue' # DeliveredBy(parts, pos') THEN "delivered packets are not exactly those complete by now"
             ELSE "ok")
  /\ l' = l + 1 /\ UNCHANGED tid
Done == l = Len(T.events) + 1 \/ bad # "ok"
Judge == Done => PrintT(<<"DONE", tid, bad>>)
=======================================================================
