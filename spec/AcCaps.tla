---------------------------- MODULE AcCaps ----------------------------
(* 0xB5 capability responses: record framing, per-record interpretation, merge, paging.        *)
(* body = <<0xB5, count>> \o records \o <<additional flag, x>> ; record = id(2 LE) size data    *)
(* A capability set is a function from capability names to values ("later wins" merge).         *)
EXTENDS AcResponse, TLC

Empty == [x \in {} |-> 0]
Merge(a, b) == b @@ a                      \* b overrides a  (dict.update)
RECURSIVE MergeAll(_)
MergeAll(ds) == IF ds = <<>> THEN Empty ELSE Merge(MergeAll(Front(ds)), Last(ds))

(* ---- record framing ---- *)
RecBytes(r) == LE(r.id, 2) \o <<Len(r.data)>> \o r.data
RECURSIVE Flatten(_)
Flatten(rs) == IF rs = <<>> THEN <<>> ELSE RecBytes(Head(rs)) \o Flatten(Tail(rs))
CapsBody(rs, more) == <<181, Len(rs)>> \o Flatten(rs) \o <<B(more), 0>>

(* byte-level walk of a body: the records a correct parser sees (complete records only) *)
RECURSIVE Walk(_, _)
Walk(b, n) ==
  IF n = 0 \/ Len(b) < 3 THEN <<>>
  ELSE LET sz == b[3] IN
       IF Len(b) < 3 + sz THEN <<>>                                   \* record runs past the end: cut off
       ELSE <<[id |-> LEVal(Take(b, 2)), data |-> Slice(b, 4, 3 + sz)]>> \o Walk(Drop(b, 3 + sz), n - 1)
RECURSIVE Rest(_, _)
Rest(b, n) == IF n = 0 \/ Len(b) < 3 THEN b
              ELSE IF Len(b) < 3 + b[3] THEN <<>> ELSE Rest(Drop(b, 3 + b[3]), n - 1)
RecordsOf(p) == IF Len(p) < 2 THEN <<>> ELSE Walk(Drop(p, 2), p[2])
AdditionalFlag(p) == LET r == Rest(Drop(p, 2), p[2]) IN Len(r) > 1 /\ r[Len(r) - 1] # 0

(* ---- per-record interpretation (the library's documented reader table) ---- *)
In(v, S) == v \in S
Interp(r) ==
  LET id == r.id  sz == Len(r.data)  v == IF sz > 0 THEN r.data[1] ELSE 0 IN
  IF sz = 0 THEN Empty
  ELSE CASE id = 542 -> ("anion" :> (v = 1))
    [] id = 537 -> ("aux_electric_heat" :> (v = 1))
    [] id = 66 -> ("breeze_away" :> (v = 1))
    [] id = 67 -> ("breeze_control" :> (v = 1))
    [] id = 24 -> ("breezeless" :> (v = 1))
    [] id = 556 -> ("buzzer" :> (v = 1))
    [] id = 548 -> ("display_control" :> In(v, {1, 2, 100}))
    [] id = 534 -> ("energy_stats" :> In(v, {2, 3, 4, 5})) @@ ("energy_setting" :> In(v, {3, 5})) @@ ("energy_bcd" :> In(v, {2, 3}))
    [] id = 546 -> ("fahrenheit" :> (v = 0))
    [] id = 528 -> ("fan_silent" :> (v = 6)) @@ ("fan_low" :> In(v, 3..7)) @@ ("fan_medium" :> In(v, 5..7))
                   @@ ("fan_high" :> In(v, 3..7)) @@ ("fan_auto" :> In(v, 4..6)) @@ ("fan_custom" :> (v = 1))
    [] id = 535 -> ("filter_notice" :> In(v, {1, 2, 4})) @@ ("filter_clean" :> In(v, {3, 4}))
    [] id = 543 -> ("humidity_auto_set" :> In(v, {1, 2})) @@ ("humidity_manual_set" :> In(v, {2, 3}))
    [] id = 532 -> ("heat_mode" :> In(v, {1, 2, 4, 6, 7, 9, 10, 11, 12, 13})) @@ ("cool_mode" :> ~In(v, {2, 10, 12}))
                   @@ ("dry_mode" :> In(v, {0, 1, 5, 6, 9, 11, 13})) @@ ("auto_mode" :> In(v, {0, 1, 2, 7, 8, 9, 13}))
                   @@ ("aux_heat_mode" :> (v = 9)) @@ ("aux_mode" :> In(v, {9, 10, 11, 13}))
    [] id = 530 -> ("eco" :> In(v, {1, 2}))
    [] id = 531 -> ("freeze_protection" :> (v = 1))
    [] id = 227 -> ("ieco" :> (v = 1))
    [] id = 538 -> ("turbo_heat" :> In(v, {1, 3})) @@ ("turbo_cool" :> (v < 2))
    [] id = 72 -> ("rate_select_2_level" :> (v = 1)) @@ ("rate_select_5_level" :> In(v, {2, 3}))
    [] id = 57 -> ("self_clean" :> (v = 1))
    [] id = 48 -> ("smart_eye" :> (v = 1))
    [] id = 10 -> ("swing_horizontal_angle" :> (v = 1))
    [] id = 9 -> ("swing_vertical_angle" :> (v = 1))
    [] id = 533 -> ("swing_horizontal" :> In(v, {1, 3})) @@ ("swing_vertical" :> (v < 2))
    [] id = 51 -> ("wind_off_me" :> (v = 1))
    [] id = 50 -> ("wind_on_me" :> (v = 1))
    [] id = 549 -> IF sz < 6 THEN Empty                      \* undersized temperature record: nothing, and nothing else is disturbed
                   ELSE ("cool_min_temperature" :> r.data[1]) @@ ("cool_max_temperature" :> r.data[2])      \* half degrees
                        @@ ("auto_min_temperature" :> r.data[3]) @@ ("auto_max_temperature" :> r.data[4])
                        @@ ("heat_min_temperature" :> r.data[5]) @@ ("heat_max_temperature" :> r.data[6])
                        @@ ("decimals" :> (IF sz > 6 THEN r.data[7] # 0 ELSE TRUE))
    [] OTHER -> Empty
(* ---- what the device object derives from a capability set (documented meaning of the supports_* flags) ---- *)
Has(c, k) == k \in DOMAIN c /\ c[k] = TRUE
DeriveFlags(c) ==
  [ breeze_away |-> Has(c, "breeze_away") \/ Has(c, "breeze_control"),          \* breeze control supersedes the legacy flags, it does not hide them
    breeze_mild |-> Has(c, "breeze_control"),
    breezeless |-> Has(c, "breezeless") \/ Has(c, "breeze_control"),
    ieco |-> Has(c, "ieco"), v_angle |-> Has(c, "swing_vertical_angle"), h_angle |-> Has(c, "swing_horizontal_angle"),
    self_clean |-> Has(c, "self_clean"), eco |-> Has(c, "eco"), turbo |-> Has(c, "turbo_heat") \/ Has(c, "turbo_cool"),
    freeze |-> Has(c, "freeze_protection"), display |-> Has(c, "display_control"), filter |-> Has(c, "filter_notice"),
    purifier |-> Has(c, "anion"), custom_fan |-> Has(c, "fan_custom"),
    humidity |-> Has(c, "humidity_auto_set") \/ Has(c, "humidity_manual_set"), target_humidity |-> Has(c, "humidity_manual_set") ]
FlagsOf(a) == [ breeze_away |-> a.breeze_away, breeze_mild |-> a.breeze_mild, breezeless |-> a.breezeless, ieco |-> a.ieco, v_angle |-> a.v_angle,
                h_angle |-> a.h_angle, self_clean |-> a.self_clean, eco |-> a.eco, turbo |-> a.turbo, freeze |-> a.freeze, display |-> a.display,
                filter |-> a.filter, purifier |-> a.purifier, custom_fan |-> a.custom_fan, humidity |-> a.humidity, target_humidity |-> a.target_humidity ]
(* ... and the set-valued attributes (enum values as in device.py: OperationalMode, SwingMode, FanSpeed, AuxHeatMode) *)
FanKeys == {"fan_silent", "fan_low", "fan_medium", "fan_high", "fan_auto", "fan_custom"}
FanHas(c, sp) == IF DOMAIN c \cap FanKeys # {} THEN Has(c, "fan_" \o sp) \/ Has(c, "fan_custom")       \* any fan record present: only what is announced (custom = every speed)
                 ELSE sp \in {"low", "medium", "high", "auto"}                                      \* no fan record at all: the default set
If(b, S) == IF b THEN S ELSE {}
DeriveSets(c) ==
  [ op_modes |-> {5} \cup If(Has(c, "dry_mode"), {3}) \cup If(Has(c, "cool_mode"), {2}) \cup If(Has(c, "heat_mode"), {4}) \cup If(Has(c, "auto_mode"), {1})
                 \cup If(Has(c, "humidity_manual_set"), {6}),
    swing_modes |-> {0} \cup If(Has(c, "swing_horizontal"), {3}) \cup If(Has(c, "swing_vertical"), {12}) \cup If(Has(c, "swing_horizontal") /\ Has(c, "swing_vertical"), {15}),
    fan_speeds |-> If(FanHas(c, "silent"), {20}) \cup If(FanHas(c, "low"), {40}) \cup If(FanHas(c, "medium"), {60}) \cup If(FanHas(c, "high"), {80})
                   \cup If(FanHas(c, "auto"), {102}) \cup If(Has(c, "fan_custom"), {100}),
    aux_modes |-> {0} \cup If(Has(c, "aux_electric_heat") \/ Has(c, "aux_heat_mode"), {1}) \cup If(Has(c, "aux_mode"), {2}) ]       \* each announcement counts on its own
(* setpoint limits in half degrees: the smallest minimum / largest maximum over the three modes, 16 / 30 degrees for a mode the unit says nothing about *)
Lim(c, k, dflt) == IF k \in DOMAIN c THEN c[k] ELSE dflt
Min3(a, b, d) == IF a <= b /\ a <= d THEN a ELSE IF b <= d THEN b ELSE d
Max3(a, b, d) == IF a >= b /\ a >= d THEN a ELSE IF b >= d THEN b ELSE d
DeriveTemps(c) == [ min_t2 |-> Min3(Lim(c, "cool_min_temperature", 32), Lim(c, "auto_min_temperature", 32), Lim(c, "heat_min_temperature", 32)),
                    max_t2 |-> Max3(Lim(c, "cool_max_temperature", 60), Lim(c, "auto_max_temperature", 60), Lim(c, "heat_max_temperature", 60)) ]
TempsOf(a) == [min_t2 |-> a.min_t2, max_t2 |-> a.max_t2]
SeqSet(q) == {q[j] : j \in 1..Len(q)}
SetsOf(a) == [ op_modes |-> SeqSet(a.op_modes), swing_modes |-> SeqSet(a.swing_modes), fan_speeds |-> SeqSet(a.fan_speeds), aux_modes |-> SeqSet(a.aux_modes) ]
RECURSIVE InterpAll(_)
InterpAll(rs) == IF rs = <<>> THEN <<>> ELSE <<Interp(Head(rs))>> \o InterpAll(Tail(rs))
ParseCaps(p) == MergeAll(InterpAll(RecordsOf(p)))
=======================================================================
