---------------------------- MODULE MC_CliQuery ----------------------------
(* every option set x every pattern of answers: the command ends, within its budgets, with a status that tells the truth *)
EXTENDS CliQuery
VARIABLES s, hist
QInit == \E o \in Opts : s = S0(o) /\ hist = <<>>
QNext == s.pc # "done" /\ \E a \in BOOLEAN : s' = Step(s, a) /\ hist' = Append(hist, a)
QSpec == QInit /\ [][QNext]_<<s, hist>>
TypeOK == s.pc \in Waits \cup {"auth", "disc", "done"} /\ s.left \in 0..Retries /\ s.exitc \in {-1, 0, 1}
Budget == \A k \in Kinds : Count(s.reqs, k) <= (IF k = "state" /\ s.opt.auto THEN 2 ELSE 1) * Retries
Ends == Len(hist) <= 1 + 3 * Retries                                   \* no behaviour is longer than discovery + three exhausted requests
Order == \A j \in 1..Len(s.reqs) : \A k \in 1..Len(s.reqs) : j < k => ~(s.reqs[j] = "caps1" /\ s.reqs[k] = "caps0")
NothingAfterRejectedAuth == ((s.opt.creds \/ s.opt.auto) /\ Len(hist) >= 1 /\ ~hist[1]) => (s.reqs = <<>> /\ s.exitc = 1)      \* ... or after a discovery nobody answered
StateQueryTellsTheTruth == (s.pc = "done" /\ ~s.opt.cap /\ (~(s.opt.creds \/ s.opt.auto) \/ hist[1])) =>
                              /\ (s.exitc = 0) = hist[Len(hist)]          \* success iff the last transmission was answered
                              /\ (s.printed = "state") = (s.exitc = 0)
Retransmits == (s.pc = "done" /\ s.exitc = 1 /\ s.reqs # <<>> /\ ~s.opt.cap) => (Len(hist) >= Retries /\ \A k \in (Len(hist) - Retries + 1)..Len(hist) : ~hist[k])
PrintsOnlyOnSuccess == (s.printed # "none") = (s.exitc = 0)
(* observation O1 stated as what it is: with the code's OnlineOnlyByRefresh no manual capability query ever succeeds *)
O1_CapabilityQueryNeverSucceeds == (s.pc = "done" /\ s.opt.cap /\ ~s.opt.auto) => (s.exitc = 1 /\ s.printed = "none")
(* with --auto the capability query can succeed - exactly when the refresh of Discover.connect was answered (O2: whether or not the capability request was) *)
AutoCapabilityQuery == (s.pc = "done" /\ s.opt.cap /\ s.opt.auto /\ hist[1]) => ((s.exitc = 0) = s.online /\ (s.printed = "caps") = s.online)
(* liveness: the command / operation terminates when its steps keep being taken *)
FairQSpec == QSpec /\ WF_<<s, hist>>(QNext)
Terminates == <>(s.pc = "done")
=======================================================================
