---------------------------- MODULE Trace_C12 ----------------------------
(* code -> spec: frames emitted by the real library (Command.tobytes() over parameter domains *)
(* and frames a simulated device received for every public AirConditioner operation).         *)
(* v = [frame, kind, prev (message id of the previous command of the process or -1), ...]      *)
(* kind "received": a frame the appliance took out of a transmission (first or repeated)       *)
EXTENDS AcCommand, Json, IOUtils
Vectors == JsonDeserialize(IOEnv.TRACE_FILE)
VARIABLE i
Init == i \in 1..Len(Vectors)
Next == UNCHANGED i
WantType(k) == IF k \in {"set_state", "set_props", "set_props_any"} THEN TypeControl ELSE TypeQuery
KindOf(k) == IF k = "set_props_any" THEN "set_props" ELSE k
RECURSIVE SameWrites(_, _)
SameWrites(w, want) ==      \* w parsed from the frame; want = [id, v] list from the harness: equal as multisets, order free
  IF Len(w) # Len(want) THEN FALSE
  ELSE IF w = <<>> THEN TRUE
  ELSE \E j \in 1..Len(want) :
         /\ want[j].id = w[1].id /\ PropValueBytes(want[j].id, want[j].v) = w[1].val
         /\ SameWrites(Tail(w), [k \in 1..(Len(want) - 1) |-> IF k < j THEN want[k] ELSE want[k + 1]])
SameIds(got, want) == Len(got) = Len(want) /\ \A x \in 1..Len(want) : \E y \in 1..Len(got) : got[y] = want[x]
Verdict(v) ==
  LET f == v.frame IN
  IF ~WellFormedCommand(f) THEN
       (IF Len(f) < 14 THEN "too short"
        ELSE IF f[1] # 170 THEN "start byte"
        ELSE IF f[2] # Len(f) - 1 THEN "length byte"
        ELSE IF f[3] # ApplianceAC THEN "appliance type"
        ELSE IF ~OuterSumOK(f) THEN "checksum"
        ELSE IF Crc8(Slice(f, 11, Len(f) - 2)) # FCheck(f) THEN "crc8 over body and id"
        ELSE "header / frame type")
  ELSE IF v.kind = "received" THEN "ok"          \* what the appliance unwrapped from a (re)transmission that matches no emitted frame byte for byte: at least a command
  ELSE IF FType(f) # WantType(v.kind) THEN "frame type is not the documented one"
  ELSE IF CommandKind(f) # KindOf(v.kind) THEN "device parser classifies it as " \o CommandKind(f)
  ELSE IF v.prev >= 0 /\ FMsgId(f) # Mod(v.prev + 1, 256) THEN "message id does not advance by one modulo 256"
  ELSE IF v.kind = "get_props" /\ FBody(f)[2] # Len(ParseIds(Drop(FBody(f), 2), FBody(f)[2])) THEN "announced property count differs from the ids carried"
  ELSE IF v.kind \in {"set_props", "set_props_any"} /\ FBody(f)[2] # Len(ParseWrites(Drop(FBody(f), 2), FBody(f)[2])) THEN "announced property count differs from the entries carried"
  ELSE IF v.kind = "get_props" /\ ~SameIds(ParseIds(Drop(FBody(f), 2), FBody(f)[2]), v.ids) THEN "property ids"
  ELSE IF v.kind = "set_props" /\ ~SameWrites(ParseWrites(Drop(FBody(f), 2), FBody(f)[2]), v.writes) THEN "property writes / vendor value encoding"
  ELSE IF v.kind = "toggle_display" /\ FBody(f) # ToggleDisplayBody(v.beep) THEN "toggle display body"
  ELSE "ok"
Judge == LET r == Verdict(Vectors[i]) IN IF r = "ok" THEN TRUE ELSE PrintT(<<"REJECT", i, r>>)
=======================================================================
