---------------------------- MODULE AcResponse ----------------------------
(* Responses of the appliance and what a client must expose after decoding them. *)
(* p is the response body WITHOUT its trailing check byte; p[k+1] = payload[k].  *)
(* Temperatures are integers in tenths of a degree, setpoints in half degrees.   *)
EXTENDS AcCommand

None == -32768            \* "unknown" marker for optional numeric attributes (JSON side uses the same number)

(* ------------------------------------------------------------------------ *)
(* 0xC0 state response, vendor layout (Lua binToModel 1664-1836)              *)
(* ------------------------------------------------------------------------ *)
StateMinLen == 16         \* bytes 0..15 are read unconditionally

(* temperature semantics documented by the library (MideaUART rule):             *)
(*   raw byte 0xFF = unknown; coarse = (raw-50)/2; in Celsius a non-zero tenths  *)
(*   digit replaces the fraction; otherwise tenths >= 5 means a half degree.     *)
Trunc2(d) == IF d >= 0 THEN d \div 2 ELSE -((-d) \div 2)
ParseTemp10(raw, tenths, fahr) ==
  IF raw = 255 THEN None
  ELSE LET d == raw - 50
           sgn == IF d >= 0 THEN 1 ELSE -1
       IN IF ~fahr /\ tenths # 0 THEN Trunc2(d) * 10 + sgn * tenths
          ELSE IF tenths >= 5 THEN Trunc2(d) * 10 + sgn * 5
          ELSE d * 5
Coarse10(raw) == (raw - 50) * 5
Abs(x) == IF x < 0 THEN -x ELSE x
(* the three temperature clauses of C11, as predicates on an exposed value t10 *)
TempUnknownIff(raw, t10) == (t10 = None) <=> (raw = 255)
TempNearCoarse(raw, t10) == raw # 255 => Abs(t10 - Coarse10(raw)) <= 10
TempTenthsExact(raw, tenths, fahr, t10) ==
  (raw # 255 /\ ~fahr /\ tenths \in 1..9) => Mod(Abs(t10), 10) = tenths

StateView(p) ==
  LET alt == Field(p[14], 0, 5)
      ti == IF alt # 0 THEN alt + 12 ELSE Field(p[3], 0, 4) + 16
      m == Field(p[3], 5, 3)
      sw == Field(p[8], 0, 4)
      fahr == Bit(p[11], 2) = 1
  IN [ power |-> Bit(p[2], 0) = 1,
       t2 |-> 2 * ti + Bit(p[3], 4),
       mode |-> IF m \in 1..6 THEN m ELSE 5,                 \* unknown mode -> documented default FAN_ONLY
       fan |-> p[4],
       swing |-> IF sw \in {0, 3, 12, 15} THEN sw ELSE 0,     \* unknown swing -> OFF
       turbo |-> Bit(p[9], 5) = 1 \/ Bit(p[11], 1) = 1,
       follow |-> Bit(p[9], 7) = 1,
       aux |-> IF Bit(p[9], 6) = 1 THEN 2 ELSE IF Bit(p[10], 3) = 1 THEN 1 ELSE 0,
       eco |-> Bit(p[10], 4) = 1,
       purifier |-> Bit(p[10], 5) = 1,
       sleep |-> Bit(p[11], 0) = 1,
       fahr |-> fahr,
       filter |-> Bit(p[14], 5) = 1,
       display |-> Field(p[15], 4, 3) # 7,                    \* screenDisplayNowValue == 7 means off
       hum |-> IF Len(p) >= 20 THEN Field(p[20], 0, 7) ELSE None,
       freeze |-> IF Len(p) >= 22 THEN B(Bit(p[22], 7) = 1) ELSE None ]

IndoorRaw(p) == p[12]
OutdoorRaw(p) == p[13]
IndoorTenths(p) == Field(p[16], 0, 4)
OutdoorTenths(p) == Field(p[16], 4, 4)

(* device side: a body for abstract state st (used by the model device; same layout, written as packing) *)
StateBody(st, n) ==
  LET ti == st.t2 \div 2
      half == Mod(st.t2, 2)
      prim == ti >= 17 /\ ti <= 30
      full == << 192, B(st.power),
                 (IF prim THEN ti - 16 ELSE 0) + 16 * half + 32 * st.mode,
                 st.fan, 127, 127, 0, 48 + st.swing,
                 128 * B(st.follow) + 32 * B(st.turbo) + 64 * B(st.aux = 2),
                 16 * B(st.eco) + 32 * B(st.purifier) + 8 * B(st.aux = 1),
                 B(st.sleep) + 2 * B(st.turbo) + 4 * B(st.fahr),
                 st.indoor, st.outdoor,
                 (IF prim THEN 0 ELSE Mod(ti - 12, 32)) + 32 * B(st.filter),
                 IF st.display THEN 0 ELSE 112,
                 st.inTenths + 16 * st.outTenths,
                 0, 0, 0, Mod(st.hum, 128), 0, 128 * B(st.freeze), 0, 0 >> \o Zeros(8)
  IN Take(full, n)

(* ------------------------------------------------------------------------ *)
(* 0xB0 / 0xB1 property responses                                              *)
(*   id(2 LE) result(1) size(1) value(size)                                    *)
(* ------------------------------------------------------------------------ *)
PropDecode(id, v) ==      \* v = remaining bytes starting at the value; None = "not reported"
  IF id \in {PropBreezeless, PropSelfClean} THEN B(v[1] # 0)
  ELSE IF id = PropBreezeAway THEN B(v[1] = 2)
  ELSE IF id = PropBuzzer THEN None
  ELSE IF id = PropIeco THEN B(v[2] # 0)
  ELSE v[1]
KnownProps == SupportedProps \cup {PropHumidity, PropFreshAir, PropAnion}

(* fold over the records: returns the sequence of [id, val] that the client must take over, in order *)
RECURSIVE PropsWalk(_, _)
PropsWalk(b, n) ==
  IF n = 0 \/ Len(b) < 4 THEN <<>>
  ELSE LET sz == b[4] id == LEVal(Take(b, 2)) IN
       IF sz = 0 THEN PropsWalk(Drop(b, 4), n - 1)
       ELSE IF id \notin KnownProps THEN PropsWalk(Drop(b, 4 + sz), n - 1)
       ELSE IF id \notin SupportedProps THEN PropsWalk(Drop(b, 4 + sz), n - 1)
       ELSE LET val == Drop(b, 4)
                need == IF id = PropIeco THEN 2 ELSE 1
            IN IF Len(val) < need THEN <<[id |-> id, val |-> -1]>>           \* value runs past the end (marker -1)
               ELSE (IF PropDecode(id, val) = None THEN <<>> ELSE <<[id |-> id, val |-> PropDecode(id, val)]>>)
                    \o PropsWalk(Drop(b, 4 + sz), n - 1)
PropsOf(p) == IF Len(p) < 2 THEN <<>> ELSE PropsWalk(Drop(p, 2), p[2])

(* ------------------------------------------------------------------------ *)
(* 0xC1 group data                                                             *)
(* ------------------------------------------------------------------------ *)
Bcd(d) == 10 * (d \div 16) + Mod(d, 16)
GroupOf(p) == Field(p[4], 0, 4)
HumidityOf(p) == IF p[5] # 0 THEN p[5] ELSE None
(* energy group (4): BCD fields; totals in hundredths of a kWh, power in tenths of a watt *)
Energy(p) == [ total100 |-> 1000000 * Bcd(p[5]) + 10000 * Bcd(p[6]) + 100 * Bcd(p[7]) + Bcd(p[8]),
               current100 |-> 1000000 * Bcd(p[13]) + 10000 * Bcd(p[14]) + 100 * Bcd(p[15]) + Bcd(p[16]),
               power10 |-> 10000 * Bcd(p[17]) + 100 * Bcd(p[18]) + Bcd(p[19]) ]
EnergyValid(p) == LET e == Energy(p) IN e.total100 # 0 \/ e.current100 # 0 \/ e.power10 # 0

(* minimum body lengths (without check byte) below which a response is undecodable and must be skipped *)
MinLen(p) ==
  IF p[1] = 192 THEN StateMinLen
  ELSE IF p[1] \in {176, 177, 181} THEN 2
  ELSE IF p[1] = 193 THEN (IF Len(p) < 4 THEN 4 ELSE IF GroupOf(p) = 4 THEN 19 ELSE IF GroupOf(p) = 5 THEN 5 ELSE 4)
  ELSE 1
Decodable(p) == Len(p) >= 1 /\ Len(p) >= MinLen(p)
=======================================================================
