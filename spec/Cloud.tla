---------------------------- MODULE Cloud ----------------------------
(* NetHome Plus cloud flow (C19): login-id -> login -> getToken, as msmart/cloud.py does it.            *)
(*  Part 1 - request layout.  Every request is a form with the common fields plus its own; the form    *)
(*  carries  sign = hex(SHA-256(path ++ sortedQuery ++ AppKey))  where sortedQuery is "k=v" joined by    *)
(*  "&" over all fields except sign, sorted by key; login carries  password = hex(SHA-256(loginId ++     *)
(*  hex(SHA-256(password)) ++ AppKey)).  SHA-256 is uninterpreted: the oracle o holds reference          *)
(*  evaluations whose INPUTS this module re-derives from the request the server received.                *)
(*  All strings are byte sequences.                                                                      *)
(*  Part 2 - the flow as a state machine: per request at most Retries attempts; a timeout is retried,   *)
(*  an HTTP error or API error code ends the call with a cloud error at once, exhausted timeouts too;    *)
(*  the session id issued by login is presented by every later request; getToken returns the entry       *)
(*  whose udpId equals the requested one (the first such), never another entry.                           *)
EXTENDS Bytes, FiniteSets

AppKey == <<51, 55, 52, 50, 101, 57, 101, 53, 56, 52, 50, 100, 52, 97, 100, 53, 57, 99, 50, 100, 98, 56, 56, 55, 101, 49, 50, 52, 52, 57, 102, 57>>   \* "3742e9e5842d4ad59c2db887e12449f9"
PathLid == <<47, 118, 49, 47, 117, 115, 101, 114, 47, 108, 111, 103, 105, 110, 47, 105, 100, 47, 103, 101, 116>>                    \* /v1/user/login/id/get
PathLogin == <<47, 118, 49, 47, 117, 115, 101, 114, 47, 108, 111, 103, 105, 110>>                                                   \* /v1/user/login
PathTok == <<47, 118, 49, 47, 105, 111, 116, 47, 115, 101, 99, 117, 114, 101, 47, 103, 101, 116, 84, 111, 107, 101, 110>>           \* /v1/iot/secure/getToken
KSign == <<115, 105, 103, 110>>                    KSession == <<115, 101, 115, 115, 105, 111, 110, 73, 100>>
KAccount == <<108, 111, 103, 105, 110, 65, 99, 99, 111, 117, 110, 116>>     KPassword == <<112, 97, 115, 115, 119, 111, 114, 100>>
KUdpid == <<117, 100, 112, 105, 100>>

HexCh(n) == IF n < 10 THEN 48 + n ELSE 87 + n
RECURSIVE HexOf(_)
HexOf(s) == IF s = <<>> THEN <<>> ELSE <<HexCh(Head(s) \div 16), HexCh(Mod(Head(s), 16))>> \o HexOf(Tail(s))

RECURSIVE LexLess(_, _)                 \* strict lexicographic order on byte sequences
LexLess(a, b) == IF b = <<>> THEN FALSE ELSE IF a = <<>> THEN TRUE
                 ELSE IF Head(a) # Head(b) THEN Head(a) < Head(b) ELSE LexLess(Tail(a), Tail(b))
(* fields: sequence of [k, v]; order: the harness's claim of the key-sorted order of the fields other than sign *)
Keys(f) == {f[j].k : j \in 1..Len(f)}
Val(f, key) == f[CHOOSE j \in 1..Len(f) : f[j].k = key].v
Has(f, key) == key \in Keys(f)
OrderOK(f, order) ==
  /\ \A j \in 1..Len(order) : order[j] \in 1..Len(f) /\ f[order[j]].k # KSign
  /\ {order[j] : j \in 1..Len(order)} = {j \in 1..Len(f) : f[j].k # KSign} /\ Len(order) = Cardinality({j \in 1..Len(f) : f[j].k # KSign})
  /\ \A j \in 1..(Len(order) - 1) : LexLess(f[order[j]].k, f[order[j + 1]].k)
RECURSIVE QueryFrom(_, _, _)
QueryFrom(f, order, j) == IF j > Len(order) THEN <<>>
                          ELSE (IF j > 1 THEN <<38>> ELSE <<>>) \o f[order[j]].k \o <<61>> \o f[order[j]].v \o QueryFrom(f, order, j + 1)
SignInput(path, f, order) == path \o QueryFrom(f, order, 1) \o AppKey

(* what a conforming server verifies on one request; st = [account, password, loginId, session, udpid] *)
RequestClause(kind, path, f, order, o, st) ==
  LET want == CASE kind = "lid" -> PathLid [] kind = "login" -> PathLogin [] kind = "tok" -> PathTok IN
  IF path # want THEN "request goes to the wrong endpoint"
  ELSE IF Cardinality(Keys(f)) # Len(f) THEN "a form field occurs twice"
  ELSE IF ~Has(f, KSign) THEN "request carries no signature"
  ELSE IF ~OrderOK(f, order) THEN "harness: field order supplied by the harness is not the key-sorted order"
  ELSE IF o.sign_in # SignInput(path, f, order) THEN "harness: signature oracle input is not path + sorted query + app key"
  ELSE IF Val(f, KSign) # HexOf(o.sign_out) THEN "signature is not SHA-256(path + sorted query + app key)"
  ELSE IF ~Has(f, KSession) \/ Val(f, KSession) # st.session THEN "request does not carry the session id issued by login"
  ELSE IF kind \in {"lid", "login"} /\ (~Has(f, KAccount) \/ Val(f, KAccount) # st.account) THEN "request does not carry the account"
  ELSE IF kind = "login" /\ o.pw1_in # st.password THEN "harness: password oracle input is not the password"
  ELSE IF kind = "login" /\ o.pw2_in # st.loginId \o HexOf(o.pw1_out) \o AppKey THEN "harness: login hash oracle input is not loginId + hex(SHA-256(password)) + app key"
  ELSE IF kind = "login" /\ (~Has(f, KPassword) \/ Val(f, KPassword) # HexOf(o.pw2_out)) THEN "password field is not hex(SHA-256(loginId + hex(SHA-256(password)) + app key))"
  ELSE IF kind = "tok" /\ (~Has(f, KUdpid) \/ Val(f, KUdpid) # st.udpid) THEN "request does not carry the requested udpid"
  ELSE "ok"

(* the entry getToken must return: the first one whose udpId equals the requested id; 0 = none *)
MatchIdx(list, udpid) == IF \E j \in 1..Len(list) : list[j].udpId = udpid
                         THEN CHOOSE j \in 1..Len(list) : list[j].udpId = udpid /\ \A i \in 1..(j - 1) : list[i].udpId # udpid ELSE 0

(* ---------------------------------------------------------------------------------------------- *)
(* Part 2: the flow                                                                               *)
(* ---------------------------------------------------------------------------------------------- *)
CONSTANTS Retries, Outcomes, TokenLists, MaxCalls
VARIABLES pc,        \* "idle" | "lid" | "login" | "tok"
          op,        \* "none" | "login" | "tok"
          haveLid,   \* the client holds a login id
          haveSess,  \* the client holds a session
          left,      \* attempts left for the running request
          att,       \* attempts made for the running request
          last,      \* outcome of the last finished call: "none" | "ok" | "cloud_error"
          got,       \* index of the token list entry returned (0 = none)
          lst,       \* token list the server answers with (chosen per getToken call); udpId 1 = the requested id
          lastop,    \* operation of the last finished call
          calls
cvars == <<pc, op, haveLid, haveSess, left, att, last, got, lst, lastop, calls>>
CInit == /\ pc = "idle" /\ op = "none" /\ haveLid = FALSE /\ haveSess = FALSE /\ left = 0 /\ att = 0 /\ last = "none" /\ got = 0
         /\ lst = <<>> /\ lastop = "none" /\ calls = 0
Start(kind) == /\ pc' = kind /\ left' = Retries /\ att' = 0
CallLogin == /\ pc = "idle" /\ calls < MaxCalls /\ calls' = calls + 1 /\ got' = 0 /\ UNCHANGED <<haveLid, haveSess, lst>>
             /\ IF haveSess THEN /\ last' = "ok" /\ lastop' = "login" /\ UNCHANGED <<pc, left, att>> /\ op' = "none"          \* a session exists: nothing is sent
                ELSE /\ op' = "login" /\ last' = "none" /\ UNCHANGED lastop /\ Start(IF haveLid THEN "login" ELSE "lid")
CallTok(l) == /\ pc = "idle" /\ calls < MaxCalls /\ calls' = calls + 1 /\ got' = 0 /\ op' = "tok" /\ last' = "none"
              /\ lst' = l /\ Start("tok") /\ UNCHANGED <<haveLid, haveSess, lastop>>
Fail == /\ pc' = "idle" /\ op' = "none" /\ last' = "cloud_error" /\ lastop' = op /\ left' = 0 /\ UNCHANGED <<haveLid, haveSess, got, lst, calls>>
Attempt(out) ==
  /\ pc # "idle" /\ out \in Outcomes /\ ((out = "ok" /\ pc = "lid") \/ att' = att + 1)
  /\ CASE out = "timeout" -> IF left > 1 THEN /\ left' = left - 1 /\ UNCHANGED <<pc, op, haveLid, haveSess, last, got, lst, lastop, calls>>
                             ELSE Fail
       [] out \in {"http", "api"} -> Fail
       [] out = "ok" ->
            CASE pc = "lid" -> /\ haveLid' = TRUE /\ pc' = "login" /\ left' = Retries /\ att' = 0 /\ UNCHANGED <<op, haveSess, last, got, lst, lastop, calls>>
              [] pc = "login" -> /\ haveSess' = TRUE /\ pc' = "idle" /\ op' = "none" /\ last' = "ok" /\ lastop' = "login" /\ left' = 0 /\ UNCHANGED <<haveLid, got, lst, calls>>
              [] pc = "tok" -> /\ got' = MatchIdx(lst, 1) /\ pc' = "idle" /\ op' = "none" /\ left' = 0 /\ lastop' = "tok"
                               /\ last' = (IF MatchIdx(lst, 1) = 0 THEN "cloud_error" ELSE "ok") /\ UNCHANGED <<haveLid, haveSess, lst, calls>>
CNext == CallLogin \/ (\E l \in TokenLists : CallTok(l)) \/ \E out \in Outcomes : Attempt(out)
CSpec == CInit /\ [][CNext]_cvars
(* at most Retries attempts per request; the attempt counter restarts with every request *)
Budget == att <= Retries
(* a token is returned only from the matching entry, and an absent match is a cloud error *)
OnlyMatching == got # 0 => lst[got].udpId = 1 /\ \A i \in 1..(got - 1) : lst[i].udpId # 1
AbsentIsError == (pc = "idle" /\ lastop = "tok" /\ last = "ok") => got # 0
=======================================================================
