---------------------------- MODULE Trace_Cli ----------------------------
(* code -> spec: one msmart.cli.main() invocation per vector, on the simulated network.                         *)
EXTENDS Cli, Json, IOUtils, TLC
Vectors == JsonDeserialize(IOEnv.TRACE_FILE)
VARIABLE i
Init == i \in 1..Len(Vectors)
Next == UNCHANGED i
St(a) == [ power |-> a.power, t2 |-> a.t2, mode |-> a.mode, fan |-> a.fan, swing |-> a.swing, follow |-> a.follow, turbo |-> a.turbo, eco |-> a.eco,
           purifier |-> a.purifier, aux |-> a.aux, sleep |-> a.sleep, fahr |-> a.fahr, hum |-> a.hum, freeze |-> a.freeze, display |-> a.display ]
FirstDiff(x, y) == CHOOSE f \in DOMAIN x : x[f] # y[f]
Writes(v) == IF Len(v.b0) = 0 THEN <<>> ELSE LET b == FBody(v.b0[1]) IN ParseWrites(Drop(b, 2), b[2])
Verdict(v) ==
  LET args == v.args rep == St(v.reported) aft == St(v.after) IN
  IF ~AllValid(args) THEN
       (IF v.exit = 0 THEN "an invalid setting or value was accepted (exit status 0)"
        ELSE IF v.sent # 0 THEN "something was sent to the device although the command line is invalid"
        ELSE IF aft # rep THEN "device state changed although the command line is invalid" ELSE "ok")
  ELSE IF v.exit # 0 THEN "a valid command line was rejected (exit status " \o ToString(v.exit) \o ", " \o v.exc \o ")"
  ELSE LET want == Expected(rep, args, 1) IN
       IF aft # want THEN "device state after control differs from reported state overridden by the settings: " \o FirstDiff(aft, want)
       ELSE IF v.toggles # (IF Given(args, "display") /\ (LastVal(args, "display") # 0) # rep.display THEN 1 ELSE 0) THEN "display toggled although it did not differ / not toggled although it differed"
       ELSE IF OnlyDisplay(args) /\ Len(v.frames40) # 0 THEN "a state command was sent although only the display was addressed"
       ELSE IF ~OnlyDisplay(args) /\ Len(v.frames40) = 0 THEN "no state command was sent"
       ELSE IF \E k \in 1..Len(v.frames40) : v.frames40[k] # v.frames40[1] THEN "different state commands were sent"
       ELSE IF ~OnlyDisplay(args) /\ (Bit(FBody(v.frames40[1])[2], 6) = 1) # (Given(args, "beep") /\ LastVal(args, "beep") # 0) THEN "beep bit of the state command differs from the beep setting"
       ELSE LET wp == WantedProps(args) ws == Writes(v) IN
            IF wp = {} /\ Len(v.b0) # 0 THEN "a property write was sent although no property setting was given"
            ELSE IF wp # {} /\ Len(v.b0) # 1 THEN "property settings were not written exactly once"
            ELSE IF wp # {} /\ {ws[k].id : k \in 1..Len(ws)} # {PropIdC(f, v.ctl) : f \in wp} \cup {PropBuzzer} THEN "property ids written differ from the settings given"
            ELSE IF wp # {} /\ \E f \in wp : \E k \in 1..Len(ws) : ws[k].id = PropIdC(f, v.ctl) /\ ws[k].val # (IF f = "ieco" THEN <<0, 1, LastVal(args, f)>> \o Zeros(10) ELSE <<PropRawC(f, LastVal(args, f), v.ctl)>>)
                 THEN "property value written differs from the setting"
            ELSE "ok"
Judge == LET r == Verdict(Vectors[i]) IN IF r = "ok" THEN TRUE ELSE PrintT(<<"REJECT", i, r>>)
=======================================================================
