---------------------------- MODULE AcFrame ----------------------------
(* The 0xAA application frame carried inside LAN packets.                         *)
(*   [1]=0xAA  [2]=length (= total-1)  [3]=appliance type  [4..8]=0  [9]=protocol *)
(*   version  [10]=frame type  [11..n-1]=payload  [n]=two's complement checksum   *)
(* For AC commands the payload is  body \o <<message id>> \o <<CRC-8(body,id)>>.  *)
(* Sequences are 1-based; "byte k" of the Python code is element k+1 here.        *)
EXTENDS Bytes

HeaderLen == 10
TypeControl == 2
TypeQuery == 3
TypeReport == 4
ApplianceAC == 172          \* 0xAC

(* ---- encoder (what a conforming sender produces) ---- *)
Header(ftype, n) == <<170, n + HeaderLen, ApplianceAC, 0, 0, 0, 0, 0, 0, ftype>>
Frame(ftype, payload) ==
  LET h == Header(ftype, Len(payload)) \o payload IN h \o <<Checksum(Drop(h, 1))>>
Payload(body, mid) == LET p == body \o <<mid>> IN p \o <<Crc8(p)>>
CommandFrame(ftype, body, mid) == Frame(ftype, Payload(body, mid))

(* ---- accessors ---- *)
FPayload(f) == Slice(f, 11, Len(f) - 1)       \* body, id, crc
FBody(f) == Slice(f, 11, Len(f) - 3)          \* without id and crc
FMsgId(f) == f[Len(f) - 2]
FCheck(f) == f[Len(f) - 1]
FType(f) == f[10]

(* ---- what a spec-conforming DEVICE parser requires of a command (C12) ---- *)
OuterSumOK(f) == Checksum(Slice(f, 2, Len(f) - 1)) = f[Len(f)]
WellFormedCommand(f) ==
  /\ Len(f) >= 14                                  \* header, >=1 body byte, id, crc, checksum
  /\ f[1] = 170
  /\ f[2] = Len(f) - 1
  /\ f[3] = ApplianceAC
  /\ \A k \in 4..9 : f[k] = 0
  /\ FType(f) \in {TypeControl, TypeQuery}
  /\ Crc8(Slice(f, 11, Len(f) - 2)) = FCheck(f)    \* CRC-8 over body and id
  /\ OuterSumOK(f)

(* ---- what the CLIENT accepts as a response (C13) ---- *)
(* body check byte: CRC-8 or additive checksum over payload without its last byte *)
BodyCheckOK(p) == LET d == Front(p) IN Crc8(d) = Last(p) \/ Checksum(d) = Last(p)
RespId(f) == f[11]
IsPropertyResp(f) == RespId(f) \in {176, 177}      \* 0xB0 0xB1: exempt from the body check by design
Parsable(f) == Len(f) >= 13                        \* header + id + check + checksum
ClientAccepts(f) ==
  /\ Parsable(f)
  /\ OuterSumOK(f)
  /\ (IsPropertyResp(f) \/ BodyCheckOK(FPayload(f)))

(* response built by a device: check style "crc" or "sum" *)
RespPayload(body, style) == body \o <<IF style = "crc" THEN Crc8(body) ELSE Checksum(body)>>
RespFrame(ftype, body, style) == Frame(ftype, RespPayload(body, style))
=======================================================================
