---------------------------- MODULE MC_CliDownload ----------------------------
EXTENDS CliDownload
VARIABLES s, hist
DInit == s = S0 /\ hist = <<>>
DNext == s.pc # "done" /\ \E ok \in BOOLEAN : s' = Step(s, ok) /\ hist' = Append(hist, ok)
DSpec == DInit /\ [][DNext]_<<s, hist>>
Ends == Len(hist) <= 4
SuccessIffBothFiles == (s.pc = "done") => ((s.exitc = 0) = (s.files = <<"lua", "plugin">>))
NoCloudWithoutDevice == (Len(hist) >= 1 /\ ~hist[1]) => (s.calls = <<>> /\ s.files = <<>>)
NothingFetchedWithoutLogin == (Len(hist) >= 2 /\ ~hist[2]) => (s.calls = <<"login">> /\ s.files = <<>>)
PluginOnlyAfterProtocol == \A k \in 1..Len(s.files) : s.files[k] = "plugin" => (k = 2 /\ s.files[1] = "lua")
EscapesOnlyWhenFetching == s.escaped => (Len(s.calls) >= 2 /\ s.exitc = 1)
(* liveness: the command / operation terminates when its steps keep being taken *)
FairDSpec == DSpec /\ WF_<<s, hist>>(DNext)
Terminates == <>(s.pc = "done")
=======================================================================
