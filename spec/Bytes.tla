---------------------------- MODULE Bytes ----------------------------
(* Byte-string vocabulary shared by every codec module.                        *)
(* A byte string is a Seq(0..255).  Integers stay below 2^31 (TLC ints are     *)
(* 32 bit); 64-bit quantities travel as byte sequences.                        *)
EXTENDS Naturals, Integers, Sequences, FiniteSets, Bitwise, TLC

Mod(a, b) == a % b
Byte == 0..255
IsBytes(s) == \A k \in 1..Len(s) : s[k] \in Byte

BXor(a, b) == a ^^ b
BAnd(a, b) == a & b
Shr(a, n) == shiftR(a, n)
Bit(b, k) == Mod(b \div (2 ^ k), 2)                 \* bit k (0 = lsb) of b
Field(b, lo, w) == Mod(b \div (2 ^ lo), 2 ^ w)      \* w-bit field starting at bit lo
B(x) == IF x THEN 1 ELSE 0

Zeros(n) == [k \in 1..n |-> 0]
Rep(x, n) == [k \in 1..n |-> x]
Slice(s, a, b) ==                                    \* 1-based inclusive, clipped to s, empty when b < a
  LET hi == IF b > Len(s) THEN Len(s) ELSE b
      lo == IF a < 1 THEN 1 ELSE a
  IN IF hi < lo THEN <<>> ELSE SubSeq(s, lo, hi)
Drop(s, n) == Slice(s, n + 1, Len(s))
Take(s, n) == Slice(s, 1, n)
Last(s) == s[Len(s)]
Front(s) == Slice(s, 1, Len(s) - 1)

RECURSIVE SumFrom(_, _, _)
SumFrom(s, k, acc) == IF k > Len(s) THEN acc ELSE SumFrom(s, k + 1, acc + s[k])
Sum(s) == SumFrom(s, 1, 0)

(* two's-complement additive checksum used by the 0xAA frame and by some bodies *)
Checksum(s) == Mod(256 - Mod(Sum(s), 256), 256)

(* little / big endian encodings of n < 2^31 in k bytes *)
LE(n, k) == [j \in 1..k |-> Mod(n \div (256 ^ (j - 1)), 256)]
BE(n, k) == [j \in 1..k |-> Mod(n \div (256 ^ (k - j)), 256)]
LEVal(s) == LET RECURSIVE V(_, _)
                V(k, acc) == IF k = 0 THEN acc ELSE V(k - 1, acc * 256 + s[k])
            IN V(Len(s), 0)
BEVal(s) == LET RECURSIVE V(_, _)
                V(k, acc) == IF k > Len(s) THEN acc ELSE V(k + 1, acc * 256 + s[k])
            IN V(1, 0)

(* CRC-8/MAXIM (poly 0x31 reflected = 0x8C) lookup table: the table used by Midea frames *)
Crc8Table == <<
    0, 94, 188, 226, 97, 63, 221, 131, 194, 156, 126, 32, 163, 253, 31, 65,
    157, 195, 33, 127, 252, 162, 64, 30, 95, 1, 227, 189, 62, 96, 130, 220,
    35, 125, 159, 193, 66, 28, 254, 160, 225, 191, 93, 3, 128, 222, 60, 98,
    190, 224, 2, 92, 223, 129, 99, 61, 124, 34, 192, 158, 29, 67, 161, 255,
    70, 24, 250, 164, 39, 121, 155, 197, 132, 218, 56, 102, 229, 187, 89, 7,
    219, 133, 103, 57, 186, 228, 6, 88, 25, 71, 165, 251, 120, 38, 196, 154,
    101, 59, 217, 135, 4, 90, 184, 230, 167, 249, 27, 69, 198, 152, 122, 36,
    248, 166, 68, 26, 153, 199, 37, 123, 58, 100, 134, 216, 91, 5, 231, 185,
    140, 210, 48, 110, 237, 179, 81, 15, 78, 16, 242, 172, 47, 113, 147, 205,
    17, 79, 173, 243, 112, 46, 204, 146, 211, 141, 111, 49, 178, 236, 14, 80,
    175, 241, 19, 77, 206, 144, 114, 44, 109, 51, 209, 143, 12, 82, 176, 238,
    50, 108, 142, 208, 83, 13, 239, 177, 240, 174, 76, 18, 145, 207, 45, 115,
    202, 148, 118, 40, 171, 245, 23, 73, 8, 86, 180, 234, 105, 55, 213, 139,
    87, 9, 235, 181, 54, 104, 138, 212, 149, 203, 41, 119, 244, 170, 72, 22,
    233, 183, 85, 11, 136, 214, 52, 106, 43, 117, 151, 201, 74, 20, 246, 168,
    116, 42, 200, 150, 21, 75, 169, 247, 182, 232, 10, 84, 215, 137, 107, 53
>>
RECURSIVE CrcFrom(_, _, _)
CrcFrom(s, k, acc) == IF k > Len(s) THEN acc ELSE CrcFrom(s, k + 1, Crc8Table[BXor(acc, s[k]) + 1])
Crc8(s) == CrcFrom(s, 1, 0)

(* the same CRC defined bit-serially from the polynomial -- used to validate the table in-model *)
CrcBitStep(c) == IF Mod(c, 2) = 1 THEN BXor(c \div 2, 140) ELSE c \div 2
CrcByte(c) == CrcBitStep(CrcBitStep(CrcBitStep(CrcBitStep(CrcBitStep(CrcBitStep(CrcBitStep(CrcBitStep(c))))))))
Crc8TableOK == \A b \in Byte : Crc8Table[b + 1] = CrcByte(b)

(* PKCS#7 with block size 16 *)
PadLen(n) == 16 - Mod(n, 16)
Pkcs7Pad(s) == s \o Rep(PadLen(Len(s)), PadLen(Len(s)))
Pkcs7Valid(s) == /\ Len(s) > 0 /\ Mod(Len(s), 16) = 0
                 /\ Last(s) \in 1..16
                 /\ \A k \in (Len(s) - Last(s) + 1)..Len(s) : s[k] = Last(s)
Pkcs7Unpad(s) == Take(s, Len(s) - Last(s))

(* index of first occurrence of the 2-byte marker <<a,b>> in s, 0 if none *)
RECURSIVE FindFrom(_, _, _, _)
FindFrom(s, a, b, k) == IF k + 1 > Len(s) THEN 0
                        ELSE IF s[k] = a /\ s[k + 1] = b THEN k ELSE FindFrom(s, a, b, k + 1)
Find2(s, a, b) == FindFrom(s, a, b, 1)

Ascii(str) == str  \* placeholder: strings are carried as byte sequences from the harness
=======================================================================
