---------------------------- MODULE MC_Cli ----------------------------
(* In-model checks of the CLI catalogue: every setting x every documented spelling class converts to a value of   *)
(* the setting's domain; garbage is rejected for every setting; overrides are field-local and the last one wins.  *)
EXTENDS Cli, TLC
S(str) == str
T_True == <<84, 114, 117, 101>>  T_true == <<116, 114, 117, 101>>  T_TRUE == <<84, 82, 85, 69>>  T_False == <<70, 97, 108, 115, 101>>
T_fAlSe == <<102, 65, 108, 83, 101>>  T_1 == <<49>>  T_0 == <<48>>  T_45 == <<52, 53>>  T_45_7 == <<52, 53, 46, 55>>  T_20_5 == <<50, 48, 46, 53>>
T_17_0 == <<49, 55, 46, 48>>  T_bogus == <<98, 111, 103, 117, 115>>  T_empty == <<>>  T_1x == <<49, 120>>  T_dots == <<49, 46, 50, 46, 51>>
T_on == <<111, 110>>  T_yes == <<121, 101, 115>>
BoolToks == {T_True, T_true, T_TRUE, T_False, T_fAlSe, T_1, T_0}
Garbage == {T_bogus, T_empty, T_1x, T_dots}
LowerS(s) == [k \in 1..Len(s) |-> LowerC(s[k])]
VARIABLES j, j2
Init == j \in 1..Len(Settings) /\ j2 \in 1..Len(Settings)
Next == UNCHANGED <<j, j2>>
Base == [ power |-> FALSE, t2 |-> 40, mode |-> 2, fan |-> 60, swing |-> 0, follow |-> FALSE, turbo |-> FALSE, eco |-> FALSE, purifier |-> FALSE,
          aux |-> 0, sleep |-> FALSE, fahr |-> FALSE, hum |-> 0, freeze |-> FALSE, display |-> TRUE ]
ConvTotal ==
  LET st == Settings[j] IN
  CASE st.k \in {"enum", "enumraw", "propenum"} ->
         /\ \A m \in 1..Len(st.tbl) : /\ Conv(st, st.tbl[m].m) = Good(st.tbl[m].v) /\ Conv(st, LowerS(st.tbl[m].m)) = Good(st.tbl[m].v)
         /\ (st.k = "enumraw") = Conv(st, T_45).ok
    [] st.k \in {"bool", "propbool", "display", "local"} ->
         /\ \A t \in {T_True, T_true, T_TRUE, T_1} : Conv(st, t) = Good(1)
         /\ \A t \in {T_False, T_fAlSe, T_0} : Conv(st, t) = Good(0)
         /\ ~Conv(st, T_on).ok /\ ~Conv(st, T_yes).ok
    [] st.k = "int" -> Conv(st, T_45) = Good(45) /\ Conv(st, T_45_7) = Good(45)
    [] st.k = "float" -> Conv(st, T_20_5) = Good(41) /\ Conv(st, T_17_0) = Good(34) /\ Conv(st, T_45) = Good(90)
RejectsGarbage == \A g \in Garbage : ~Conv(Settings[j], g).ok
(* overriding setting j then j2 changes only their own fields, and a later value for the same field wins *)
Val1(st) == IF st.k \in {"enum", "enumraw", "propenum"} THEN st.tbl[1].v ELSE IF st.k = "float" THEN 41 ELSE IF st.k = "int" THEN 45 ELSE 1
OverrideLocal ==
  LET a == Settings[j] b == Settings[j2]
      s2 == Override(Override(Base, j, Val1(a)), j2, Val1(b))
  IN /\ \A f \in DOMAIN Base : (f # a.f /\ f # b.f) => s2[f] = Base[f]
     /\ (a.f # b.f /\ a.f \in DOMAIN Base) => s2[a.f] = Override(Base, j, Val1(a))[a.f]
     /\ (b.f \in DOMAIN Base) => s2[b.f] = Override(Base, j2, Val1(b))[b.f]
=======================================================================
