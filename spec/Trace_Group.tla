---------------------------- MODULE Trace_Group ----------------------------
(* code -> spec (spec growth beyond the listed properties): 0xC1 group-data responses.  A refresh of an appliance *)
(* that reports energy (group 4) and humidity (group 5) bodies; the exposed attributes are compared with the       *)
(* layout operators Energy / EnergyValid / HumidityOf of AcResponse.tla, in BCD and in binary form.  Differences   *)
(* are reported as conformance drift by the C11 check; they do not decide any listed property.                     *)
EXTENDS AcResponse, Json, IOUtils
Vectors == JsonDeserialize(IOEnv.TRACE_FILE)
VARIABLE i
Init == i \in 1..Len(Vectors)
Next == UNCHANGED i
Bin24(p, k) == 65536 * p[k] + 256 * p[k + 1] + p[k + 2]
Verdict(v) ==
  LET e == v.energy h == v.humidity IN
  IF Len(e) < 19 \/ Len(h) < 5 THEN "harness: bodies too short"
  ELSE IF v.hum # HumidityOf(h) THEN "indoor humidity differs from byte 4 of the group-5 body (0 = unknown)"
  ELSE IF ~EnergyValid(e) THEN (IF v.total100 # None \/ v.current100 # None \/ v.power10 # None THEN "energy reported although all BCD fields are zero" ELSE "ok")
  ELSE IF ~v.binary THEN
       (IF v.total100 # Energy(e).total100 THEN "total energy (BCD)" ELSE IF v.current100 # Energy(e).current100 THEN "current energy (BCD)"
        ELSE IF v.power10 # Energy(e).power10 THEN "real time power (BCD)" ELSE "ok")
  ELSE (IF v.total_hi # 256 * e[5] + e[6] \/ v.total_lo # 256 * e[7] + e[8] THEN "total energy (binary)"
        ELSE IF v.current_hi # 256 * e[13] + e[14] \/ v.current_lo # 256 * e[15] + e[16] THEN "current energy (binary)"
        ELSE IF v.power10 # Bin24(e, 17) THEN "real time power (binary)" ELSE "ok")
Judge == LET r == Verdict(Vectors[i]) IN IF r = "ok" THEN TRUE ELSE PrintT(<<"REJECT", i, r>>)
=======================================================================
