---------------------------- MODULE Trace_CliDownload ----------------------------
(* code -> spec: one `msmart-ng download` run per vector.                                                                           *)
(* v = [outs (per stage reached: did it succeed), calls (cloud operations in order), rets (what they returned: [op, name, data]),      *)
(*      files ([name, data] written, in order), exit, exc, call_sn, dev_sn, call_type, dev_type]                                       *)
EXTENDS CliDownload, Json, IOUtils, TLC
Vectors == JsonDeserialize(IOEnv.TRACE_FILE)
VARIABLE i
Init == i \in 1..Len(Vectors)
Next == UNCHANGED i
Kinds(rets) == [k \in 1..Len(rets) |-> rets[k].op]
Verdict(v) ==
  LET f == Run(S0, v.outs) IN
  IF f.pc # "done" THEN "the command ended although the model expects a further stage"
  ELSE IF v.calls # f.calls THEN "cloud operations differ from the model's"
  ELSE IF v.exit # f.exitc THEN "exit status " \o ToString(v.exit) \o " where the model ends with " \o ToString(f.exitc) \o " " \o v.exc
  ELSE IF (v.exc # "") # f.escaped THEN "an exception escaped the command / was swallowed other than the model says: " \o v.exc
  ELSE IF Kinds(v.rets) # f.files THEN "harness: successful fetches differ from the model's files"
  ELSE IF Len(v.files) # Len(f.files) THEN "files written differ in number from the successful fetches"
  ELSE IF \E k \in 1..Len(v.files) : v.files[k].name # v.rets[k].name \/ v.files[k].data # v.rets[k].data THEN "a file written differs in name or contents from what the cloud call returned"
  ELSE IF Len(f.calls) >= 2 /\ (v.call_sn # v.dev_sn \/ v.call_type # v.dev_type) THEN "the protocol / plugin was requested for another serial number or appliance type than the discovered one"
  ELSE "ok"
Judge == LET r == Verdict(Vectors[i]) IN IF r = "ok" THEN TRUE ELSE PrintT(<<"REJECT", i, r>>)
=======================================================================
