---------------------------- MODULE MC_ApaRefine_Cloud ----------------------------
(* Cloud.tla refines Apa_CloudFlow under  midx = MatchIdx(lst, 1): every step of the listed flow is a step of the abstract flow. *)
EXTENDS MC_Cloud
midxOf == MatchIdx(lst, 1)
A == INSTANCE Apa_CloudFlow WITH midx <- midxOf
StepRefines == [][A!CNext]_cvars
InitRefines == A!CInit
IdxBounded == midxOf \in 0..A!MaxIdx
=======================================================================
