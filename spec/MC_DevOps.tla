---------------------------- MODULE MC_DevOps ----------------------------
EXTENDS DevOps, Json, TLC
VARIABLES s, hist
OInit == \E op \in Ops : \E pr \in Profiles : s = S0(op, pr) /\ hist = <<>>
           /\ (op # "caps" => ~pr.more) /\ (op # "apply" => ~pr.pend) /\ (op \in {"caps", "clean"} => ~pr.energy /\ ~pr.humidity) /\ (op = "caps" => ~pr.props)
           /\ (op = "apply" => ~pr.energy /\ ~pr.humidity) /\ (pr.pend => pr.props) /\ (op = "clean" => pr.props)
ONext == ~s.done /\ \E a \in BOOLEAN : s' = Step(s, a) /\ hist' = Append(hist, a)
OSpec == OInit /\ [][ONext]_<<s, hist>>
Want(s0) == IF s0.op = "caps" /\ s0.pr.more THEN {"caps0", "caps1"} ELSE {Requests(s0.op, s0.pr)[k] : k \in 1..Len(Requests(s0.op, s0.pr))}
(* every request of the operation is transmitted at least once and at most Retries times - except the second capability page, asked only when the first arrived *)
EveryQuestionAsked == s.done => \A r \in Want(s) : (r = "caps1" /\ Count(s.seen, "caps0") > 0 /\ ~(\E k \in 1..Len(hist) : hist[k] /\ s.seen[k] = "caps0")) \/ Count(s.seen, r) >= 1
Budget == \A r \in {"state", "energy", "humidity", "props", "caps0", "caps1", "set_state", "set_props", "toggle"} : Count(s.seen, r) <= Retries
OnlineIffAnswered == (s.done /\ s.op \in {"refresh", "toggle"}) => (s.online = (\E k \in 1..Len(hist) : hist[k] /\ s.seen[k] \in {"state", "energy", "humidity", "props"}))
OnlineOnlyByRefresh == (s.op \in {"caps", "apply", "clean"}) => ~s.online
Ends == Len(hist) <= 5 * Retries
GEmit == IF s.done THEN PrintT(<<"SCN", ToJson([op |-> s.op, pr |-> s.pr, answers |-> hist])>>) ELSE TRUE
(* liveness: the command / operation terminates when its steps keep being taken *)
FairOSpec == OSpec /\ WF_<<s, hist>>(ONext)
Terminates == <>(s.done)
=======================================================================
