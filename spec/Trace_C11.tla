---------------------------- MODULE Trace_C11 ----------------------------
(* code -> spec: raw 0xC0 body reported by the simulated device, attributes of a fresh        *)
(* AirConditioner after refresh().  TLC judges with the vendor layout and the C11 clauses.    *)
EXTENDS AcResponse, Json, IOUtils
Vectors == JsonDeserialize(IOEnv.TRACE_FILE)
VARIABLE i
Init == i \in 1..Len(Vectors)
Next == UNCHANGED i
Flags(a) == [ power |-> a.power, t2 |-> a.t2, mode |-> a.mode, fan |-> a.fan, swing |-> a.swing, turbo |-> a.turbo,
              follow |-> a.follow, aux |-> a.aux, eco |-> a.eco, purifier |-> a.purifier, sleep |-> a.sleep,
              fahr |-> a.fahr, filter |-> a.filter, display |-> a.display, hum |-> a.hum, freeze |-> a.freeze ]
FirstDiff(x, y) == CHOOSE f \in DOMAIN x : x[f] # y[f]
Verdict(v) ==
  LET p == v.body a == v.attrs IN
  IF Len(p) < StateMinLen \/ p[1] # 192 THEN "harness: not a decodable state body"
  ELSE IF ~v.online THEN "refresh did not accept a valid state response"
  ELSE LET want == StateView(p) got == Flags(a) fh == want.fahr IN
       IF got # want THEN "attribute differs from reported value: " \o FirstDiff(got, want)
       ELSE IF ~TempUnknownIff(IndoorRaw(p), a.indoor10) THEN "indoor: unknown iff 0xFF"
       ELSE IF ~TempUnknownIff(OutdoorRaw(p), a.outdoor10) THEN "outdoor: unknown iff 0xFF"
       ELSE IF ~TempNearCoarse(IndoorRaw(p), a.indoor10) THEN "indoor: more than one degree from coarse reading"
       ELSE IF ~TempNearCoarse(OutdoorRaw(p), a.outdoor10) THEN "outdoor: more than one degree from coarse reading"
       ELSE IF ~TempTenthsExact(IndoorRaw(p), IndoorTenths(p), fh, a.indoor10) THEN "indoor: Celsius tenths digit not reflected"
       ELSE IF ~TempTenthsExact(OutdoorRaw(p), OutdoorTenths(p), fh, a.outdoor10) THEN "outdoor: Celsius tenths digit not reflected"
       ELSE "ok"
Drift(v) ==
  LET p == v.body fh == StateView(p).fahr IN
  IF IndoorTenths(p) <= 9 /\ v.attrs.indoor10 # ParseTemp10(IndoorRaw(p), IndoorTenths(p), fh) THEN "indoor differs from ParseTemp10"
  ELSE IF OutdoorTenths(p) <= 9 /\ v.attrs.outdoor10 # ParseTemp10(OutdoorRaw(p), OutdoorTenths(p), fh) THEN "outdoor differs from ParseTemp10"
  ELSE "none"
Judge == LET r == Verdict(Vectors[i]) IN
         /\ (r = "ok" \/ PrintT(<<"REJECT", i, r>>))
         /\ (r # "ok" \/ Drift(Vectors[i]) = "none" \/ PrintT(<<"DRIFT", i, Drift(Vectors[i])>>))
=======================================================================
