---------------------------- MODULE MC_C13 ----------------------------
(* In-model enumeration for C13: sample valid responses of every kind (both check styles), EVERY *)
(* position after the start byte, EVERY one of the 255 substitutes, with and without checksum     *)
(* fix-up.  Real CRC-8 / sum arithmetic.  The invariant states exactly which corruptions the      *)
(* acceptance rule lets through: none without fix-up; with fix-up only the two design classes.    *)
EXTENDS AcReject
CONSTANT SubStep           \* 1 = all 255 substitutes; k = every k-th (quick tier)
VARIABLES kind, style, pos, sub, fix
vars == <<kind, style, pos, sub, fix>>
St == [power |-> TRUE, t2 |-> 43, mode |-> 4, fan |-> 60, swing |-> 12, follow |-> FALSE, turbo |-> TRUE,
       eco |-> TRUE, purifier |-> FALSE, aux |-> 1, sleep |-> FALSE, fahr |-> FALSE, hum |-> 55, freeze |-> FALSE,
       indoor |-> 95, outdoor |-> 110, filter |-> FALSE, display |-> TRUE, inTenths |-> 3, outTenths |-> 7]
BodyOf(k) == CASE k = "state" -> StateBody(St, 24)
               [] k = "caps" -> <<181, 2, 18, 2, 1, 1, 20, 2, 1, 0, 0, 0>>
               [] k = "props" -> <<177, 2, 9, 0, 0, 1, 25, 66, 0, 0, 1, 2, 33>>
               [] k = "energy" -> <<193, 33, 1, 68, 0, 0, 18, 52, 0, 0, 0, 0, 0, 0, 0, 86, 0, 7, 137, 0>>
               [] k = "humidity" -> <<193, 33, 1, 69, 55, 0, 0, 0>>
Orig(k, s) == RespFrame(TypeQuery, BodyOf(k), s)
Kinds == {"state", "caps", "props", "energy", "humidity"}
Init == /\ kind \in Kinds /\ style \in {"crc", "sum"}
        /\ pos \in 2..Len(Orig(kind, style))
        /\ sub \in {x \in 0..255 : Mod(x, SubStep) = 0 \/ x \in {176, 177}}
        /\ fix \in BOOLEAN
Next == UNCHANGED vars
F == Orig(kind, style)
G == Corrupt(F, pos, sub, fix)
Applicable == sub # F[pos] /\ (fix => (pos >= 11 /\ pos <= Len(F) - 2))   \* fix-up only for body bytes other than the check byte
OrigValid == ClientAccepts(F)
NoFixNeverAccepted == (Applicable /\ ~fix) => AcceptClass(F, G, fix) = "rejected"
FixOnlyDesignClasses == (Applicable /\ fix) =>
    AcceptClass(F, G, fix) \in {"rejected", "exempt-by-design", "becomes-property-id", "dual-check-collision"}
(* at most one substitute per body position collides with the other check alternative *)
CollisionCount == (kind # "props" /\ fix /\ sub = 0 /\ pos >= 11 /\ pos <= Len(F) - 2) =>
    Cardinality({x \in 0..255 : x # F[pos] /\ AcceptClass(F, Corrupt(F, pos, x, TRUE), TRUE) = "dual-check-collision"}) <= 1
=======================================================================
