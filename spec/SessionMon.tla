---------------------------- MODULE SessionMon ----------------------------
(* Property monitor for the LAN transport (C06, C07, C08, C09).                                   *)
(* It consumes the OBSERVABLE event alphabet only - what the user, the network and the device can  *)
(* see - and records the names of violated clauses in m.bad.  The same operator MonStep is used    *)
(*   (1) inside LanSession.tla, fed with the events the model predicts (TLC proves m.bad = {}),     *)
(*   (2) in Trace_Mon.tla, fed with the events recorded from the real code.                         *)
(*                                                                                                  *)
(* Events (records, field e):                                                                       *)
(*  user/environment: call(op, cr) connok(c) connrefuse connhang deliver(c, m, k, gen, live)        *)
(*                    lost(c, m) timer cancel peerclose(c) jumpauth jumphalf jumplife                         *)
(*  client:           close(c) connreq tx(c, t, ctr, tok, k, wf, reply) ret(op, r, n, stored)        *)
(*  tx.t in {"HS","DATA","JUNK"}; tx.k = id of the device-issued key that decrypts a DATA packet     *)
(*  (0 = none), for HS the id of the key the device derived for it (0 = token rejected);            *)
(*  tx.reply = abstract class of what the device put in flight in reaction.                         *)
EXTENDS Naturals, Integers, Sequences, FiniteSets, TLC

CONSTANTS Retries,     \* retry budget of every call
          Ver,         \* 2 or 3: protocol version of the device
          CtrMod,      \* modulus at which the model device expects the counter to wrap (4096 for the real one)
          HSRetries,   \* handshake retry budget of an authentication started implicitly by send (LAN.RETRIES = 3)
          DevLevel     \* BOOLEAN: calls are made through the Device layer (authenticate must fail with AuthenticationError only)

NoCall == [op |-> "none"]
ConnInit == [open |-> FALSE, cclosed |-> FALSE, pclosed |-> FALSE,
             hsok |-> FALSE,      \* a genuine reply to a good-token handshake on this connection has been delivered
             last |-> -1,         \* counter of the previous packet on this connection
             issued |-> {},       \* key ids the device derived on this connection
             latest |-> 0,        \* the newest of them
             answered |-> 0,      \* newest key id whose genuine reply has been delivered (in order, nothing older after it)
             racy |-> FALSE,      \* replies were lost / forged / delivered out of order: client and device keys may differ (A1/A2)
             stray |-> 0,         \* messages delivered that nobody was waiting for (they sit in the client's queue)
             straybad |-> 0,      \* ... those of them that are not valid data packets under the key the client holds
             authvalid |-> FALSE, \* a genuine handshake reply was accepted and the 12 h lifetime has not elapsed since
             half |-> FALSE,      \* half of that lifetime has elapsed since the accepted handshake
             hsfail |-> 0]        \* handshake requests written while ~authvalid (not yet genuinely answered)

MonInit == [ call |-> NoCall,
             conns |-> <<>>,               \* one record per connection opened so far
             cur |-> 0,            \* connection the client is using (last opened, not closed by it)
             nconn |-> 0,
             stored |-> "none",    \* credentials visible through the public token/key properties
             okcr |-> "none",      \* credentials of the latest explicit authentication that succeeded: the configured ones, whatever the object shows
             fly |-> 0,            \* messages in flight
             mustHS |-> 0,         \* after the 12 h jump: next packet on this connection must be a handshake
             mustNew |-> 0,        \* after the lifetime jump: next packet must be a handshake on a connection newer than this
             prevFailed |-> FALSE,
             hadGood |-> FALSE,    \* valid credentials were stored at some point (a failed exchange must not lose them: C08 recovery)
             devfault |-> FALSE,   \* a connect attempt failed during the running device-level operation
             afterAuth |-> FALSE,  \* the previous call was an authentication that reported success
             bad |-> {} ]

Flag(m, name) == [m EXCEPT !.bad = @ \cup {name}]
FlagIf(m, cond, name) == IF cond THEN Flag(m, name) ELSE m
Success(r) == r \in {"frames", "authok"}
AllowedOutcomes == {"frames", "authok", "proto", "auth", "timeout", "cancelled"}
NReplies(cls) == CASE cls = "none" -> 0 [] cls \in {"valid+unsolicited", "dup"} -> 2 [] OTHER -> 1
ValidReply(cls) == cls = "valid"

(* counter discipline: previous + 1; the only other admissible value is 0 when previous + 1 reaches the 12-bit mask the code     *)
(* uses or the width of the 2-byte field (DESIGN 6.1 F2)                                                                         *)
CtrOK(last, ctr) == ctr = (last + 1) % CtrMod \/ (ctr = 0 /\ (last + 1) \in {4096, 65536})
(* ---------------------------------------------------------------------------------------------- *)
OnCall(m, e) ==
  LET cnq == m.conns[m.cur]
      (* nothing stale in flight; stale VALID data already queued is harmless (it is read before the request goes out); stale anything is
         harmless when the exchange starts with a handshake (the queue is flushed first) or on a connection the client has to replace *)
      quiet == m.fly = 0 /\ (m.cur = 0 \/ cnq.straybad = 0 \/ (Ver = 3 /\ ~cnq.authvalid) \/ cnq.pclosed \/ m.mustNew = m.cur) IN
  [ FlagIf(m, m.call.op # "none", <<"harness", "call while another call is active">>)
    EXCEPT !.call = [op |-> e.op, cr |-> e.cr, tx |-> 0, hs |-> 0, resp |-> FALSE, txAfterResp |-> FALSE,
                     benign |-> quiet, awaiting |-> FALSE, genuine |-> FALSE, everConnected |-> m.cur # 0, cancelled |-> FALSE,
                     connfail |-> FALSE,    \* a connect attempt of this call was refused / timed out
                     fault |-> FALSE,       \* a fault of C08's list hit this call: failed connect, peer close / reset, error packet, garbage
                     lastk |-> 0,           \* key id under which the last data packet of this call was written
                     silent |-> TRUE,       \* nothing but silence from the network so far: no delivery, loss, close, refusal or cancellation
                     canSucceed |-> Ver = 2 \/ (e.op = "send" /\ (m.stored = "good" \/ m.hadGood))
                                    \/ (e.op = "auth" /\ (e.cr = "good" \/ (e.cr = "cached" /\ m.stored = "good")))] ]

OnConnOK(m, e) ==
  [ m EXCEPT !.nconn = e.c, !.cur = e.c,
             !.conns = Append(m.conns, [ConnInit EXCEPT !.open = TRUE]),
             !.bad = IF e.c # Len(m.conns) + 1 THEN @ \cup {<<"harness", "connection ids are not consecutive">>} ELSE @,
             !.call = IF m.call.op = "none" THEN @ ELSE [@ EXCEPT !.everConnected = TRUE] ]

OnConnFail(m, e) == IF m.call.op = "none" THEN m ELSE [m EXCEPT !.call.benign = FALSE, !.call.silent = FALSE, !.call.connfail = TRUE, !.call.fault = TRUE, !.devfault = TRUE]

OnClose(m, e) ==
  LET m1 == [m EXCEPT !.conns[e.c].cclosed = TRUE, !.cur = IF m.cur = e.c THEN 0 ELSE m.cur] IN
  IF m.mustNew = e.c THEN m1 ELSE m1

OnPeerClose(m, e) ==
  [ m EXCEPT !.conns[e.c].pclosed = TRUE, !.devfault = TRUE,
             !.call = IF m.call.op = "none" THEN @ ELSE [@ EXCEPT !.benign = FALSE, !.silent = FALSE, !.fault = TRUE] ]

(* ---- a packet written by the client, as decoded by the device ---- *)
OnTx(m, e) ==
  LET c == e.c
      cn == m.conns[c]
      isHS == e.t = "HS"
      isData == e.t = "DATA"
      v3 == Ver = 3
      wantTok == IF m.call.op = "auth" /\ m.call.cr # "cached" THEN m.call.cr ELSE IF m.okcr # "none" THEN m.okcr ELSE m.stored
      b1 == IF v3 /\ ~isHS /\ ~cn.hsok THEN {<<"C07", "data written before a successful handshake on this connection">>} ELSE {}
      b2 == IF v3 /\ isHS /\ e.tok # wantTok THEN {<<"C07", "handshake request does not carry the configured token">>} ELSE {}
      b3 == IF v3 /\ cn.last >= 0 /\ ~CtrOK(cn.last, e.ctr)
               THEN {<<"C07", "packet counter is not previous + 1">>} ELSE {}
      b3b == IF v3 /\ cn.last < 0 /\ e.ctr # 0 THEN {<<"C07", "first packet on a connection does not start the counter at 0">>} ELSE {}
      b4 == IF v3 /\ isData /\ cn.hsok /\ (e.k = 0 \/ e.k \notin cn.issued)
               THEN {<<"C07", "data packet is not under a session key derived on this connection">>} ELSE {}
      b5 == IF v3 /\ isData /\ cn.hsok /\ ~cn.racy /\ cn.answered = cn.latest /\ e.k # cn.latest
               THEN {<<"C07", "data packet is not under the key of the latest handshake on this connection">>} ELSE {}
      b6 == IF m.mustHS = c /\ ~isHS THEN {<<"C07", "no new handshake after the 12 h authentication lifetime elapsed">>} ELSE {}
      b7 == IF m.mustNew # 0 /\ (c <= m.mustNew \/ (v3 /\ ~isHS))
               THEN {<<"C07", "exchange after the connection lifetime elapsed did not start with a handshake on a new connection">>} ELSE {}
      b7b == IF m.mustNew # 0 /\ c > m.mustNew /\ ~m.conns[m.mustNew].cclosed /\ ~m.conns[m.mustNew].pclosed
               THEN {<<"C07", "expired connection was not closed">>} ELSE {}
      b8 == IF ~e.wf THEN {<<"C05", "packet on the wire is not decodable by the device">>} ELSE {}
      b9 == IF cn.cclosed \/ ~cn.open THEN {<<"harness", "transmission on a closed connection">>} ELSE {}
      b10 == IF isData /\ m.call.op = "send" /\ m.call.tx + 1 > Retries THEN {<<"C08", "more transmissions than the retry budget">>} ELSE {}
      b11 == IF isData /\ m.call.op = "send" /\ m.call.resp THEN {<<"C08", "retransmission after a response had arrived">>} ELSE {}
      b12 == IF isData /\ m.call.op # "send" THEN {<<"C06", "something other than handshake requests sent during authentication">>} ELSE {}
      b13 == IF isHS /\ m.call.op # "none" /\ m.call.hs + 1 > (IF m.call.op = "auth" THEN Retries ELSE HSRetries) THEN {<<"C08", "more handshake transmissions than the retry budget">>} ELSE {}
      b14 == IF v3 /\ isData /\ ~cn.authvalid
               THEN {<<"C07", "data written while the session is not authenticated (no accepted handshake on this connection, or none since the 12 h lifetime elapsed)">>} ELSE {}
      b15 == IF v3 /\ isData /\ ~cn.authvalid /\ cn.hsfail > 0
               THEN {<<"C06", "data sent although the handshake was not genuinely answered: the session did not stay unauthenticated">>} ELSE {}
      newIssued == IF isHS /\ e.k # 0 THEN cn.issued \cup {e.k} ELSE cn.issued
      (* a handshake request whose genuine reply is not yet delivered makes keys potentially differ until it is *)
      racy2 == cn.racy
      cn2 == [cn EXCEPT !.last = IF v3 THEN e.ctr ELSE -1, !.issued = newIssued,
                        !.latest = IF isHS /\ e.k # 0 THEN e.k ELSE @,
                        !.racy = racy2,
                        !.stray = IF isHS THEN 0 ELSE @,           \* the client flushes its queue before a handshake request
                        !.straybad = IF isHS THEN 0 ELSE @,
                        !.hsfail = IF isHS /\ ~cn.authvalid THEN @ + 1 ELSE @]
      call2 == IF m.call.op = "none" THEN m.call
               ELSE [m.call EXCEPT !.tx = IF isData THEN @ + 1 ELSE @, !.hs = IF isHS THEN @ + 1 ELSE @,
                                   !.awaiting = TRUE,
                                   !.lastk = IF isData THEN e.k ELSE @,
                                   !.benign = @ /\ ValidReply(e.reply),
                                   !.silent = @ /\ e.reply = "none"]
  IN [ m EXCEPT !.bad = @ \cup b1 \cup b2 \cup b3 \cup b3b \cup b4 \cup b5 \cup b6 \cup b7 \cup b7b \cup b8 \cup b9 \cup b10 \cup b11 \cup b12 \cup b13 \cup b14 \cup b15,
                !.conns[c] = cn2, !.call = call2,
                !.fly = @ + NReplies(e.reply),
                !.mustHS = IF m.mustHS = c THEN 0 ELSE @,
                !.mustNew = IF m.mustNew # 0 /\ c > m.mustNew THEN 0 ELSE @ ]

OnDeliver(m, e) ==
  LET c == e.c
      cn == m.conns[c]
      (* bytes that are not (yet) a complete, well-framed V3 packet - the first part of a reply that TCP delivers in two segments, or a reply
         cut off by the transport - complete nothing: the reader keeps waiting (C04); whatever follows them is judged with them *)
      fragment == Ver = 3 /\ ((e.m = "OTHER" /\ "obs" \in DOMAIN e /\ e.obs.ty = -1 /\ e.obs.ln > 0) \/ e.m = "NOISE")
      awaited0 == e.live /\ m.call.op # "none" /\ m.call.awaiting /\ c = m.cur
      awaited == awaited0 /\ ~fragment
      isResp == awaited /\ m.call.op = "send" /\ m.call.tx > 0 /\ e.gen /\ e.m \in {"ENC", "PKT"} /\ (Ver = 2 \/ e.k = m.call.lastk)
      genHS == e.m = "HSR" /\ e.gen
      inOrder == genHS /\ e.k = cn.latest
      cn2 == [cn EXCEPT !.hsok = @ \/ (genHS /\ e.live /\ awaited),
                        !.answered = IF genHS /\ e.live /\ awaited THEN e.k ELSE @,
                        !.racy = @ \/ (genHS /\ ~inOrder) \/ (genHS /\ ~awaited),
                        !.stray = IF e.live /\ ~awaited /\ ~(fragment /\ awaited0) THEN @ + 1 ELSE @,
                        !.straybad = IF e.live /\ ~awaited /\ ~(fragment /\ awaited0) /\ ~(e.gen /\ e.m \in {"PKT", "ENC"} /\ (Ver = 2 \/ e.k = cn.answered)) THEN @ + 1 ELSE @,
                        !.authvalid = @ \/ (genHS /\ e.live /\ awaited),
                        !.half = IF genHS /\ e.live /\ awaited THEN FALSE ELSE @,
                        !.hsfail = IF genHS /\ e.live /\ awaited THEN 0 ELSE @]
      call2 == IF m.call.op = "none" THEN m.call
               ELSE [m.call EXCEPT !.awaiting = IF awaited THEN FALSE ELSE @,
                                   !.resp = @ \/ isResp,
                                   !.genuine = @ \/ (genHS /\ awaited),
                                   !.benign = @ /\ awaited /\ e.gen,
                                   !.fault = @ \/ (e.live /\ (e.m \in {"OTHER", "ERR", "NOISE"} \/ ~e.gen)),
                                   !.silent = FALSE]
  IN [ m EXCEPT !.conns[c] = cn2, !.call = call2, !.fly = IF @ > 0 THEN @ - 1 ELSE 0,
                !.devfault = @ \/ (e.live /\ (e.m \in {"OTHER", "ERR"} \/ ~e.gen)) ]

OnLost(m, e) ==
  [ m EXCEPT !.fly = IF @ > 0 THEN @ - 1 ELSE 0,
             !.conns[e.c].racy = @ \/ (e.m = "HSR"),
             !.call = IF m.call.op = "none" THEN @ ELSE [@ EXCEPT !.benign = FALSE, !.silent = FALSE] ]

OnTimer(m, e) ==
  IF m.call.op = "none" THEN m
  ELSE [m EXCEPT !.call.benign = @ /\ ~m.call.awaiting]     \* a timer firing while a reply is awaited = the device was not prompt

OnCancel(m, e) == IF m.call.op = "none" THEN m ELSE [m EXCEPT !.call.benign = FALSE, !.call.silent = FALSE]

OnJumpAuth(m, e) ==
  IF m.cur # 0 /\ m.conns[m.cur].hsok THEN [m EXCEPT !.mustHS = m.cur, !.conns[m.cur].authvalid = FALSE] ELSE m
OnJumpHalf(m, e) ==     \* the key lifetime runs from the accepted handshake: the second half step since then expires it, whatever traffic there was in between
  IF m.cur # 0 /\ m.conns[m.cur].hsok /\ m.conns[m.cur].authvalid
  THEN (IF m.conns[m.cur].half THEN OnJumpAuth(m, e) ELSE [m EXCEPT !.conns[m.cur].half = TRUE])
  ELSE m
OnJumpLife(m, e) ==
  IF m.cur # 0 THEN [m EXCEPT !.mustNew = m.cur, !.mustHS = 0] ELSE m

OnRet(m, e) ==
  LET cl == m.call
      ok == Success(e.r)
      failedAuth == cl.op = "auth" /\ ~ok
      b1 == IF e.r \notin AllowedOutcomes THEN {<<"C09", "exception other than protocol/authentication error or timeout escaped the transport">>} ELSE {}
      b2 == IF cl.op = "send" /\ e.r = "frames" /\ cl.tx = 0 THEN {<<"C08", "frames returned although the request was never transmitted">>} ELSE {}
      b3 == IF cl.op = "send" /\ e.r = "frames" /\ e.n = 0 THEN {<<"C08", "success without any response">>} ELSE {}
      (* timeout "no response" from a connected exchange means the budget was used up *)
      b4 == IF cl.op = "send" /\ e.r = "timeout" /\ cl.tx > 0 /\ cl.tx < Retries /\ ~cl.cancelled
               THEN {<<"C08", "gave up before the retry budget was exhausted">>} ELSE {}
      b5 == IF m.prevFailed /\ cl.benign /\ cl.canSucceed /\ ~ok THEN {<<"C08", "exchange with a promptly responding device failed after a failed exchange">>} ELSE {}
      b5b == IF ~m.prevFailed /\ cl.benign /\ cl.canSucceed /\ ~ok
               THEN {<<"C08", "exchange with a promptly responding device failed">>} ELSE {}
      b6 == IF failedAuth /\ ~cl.genuine /\ e.stored # m.stored THEN {<<"C06", "failed authentication replaced the stored token/key">>} ELSE {}
      b7 == IF cl.op = "auth" /\ ok /\ cl.cr # "cached" /\ e.stored # cl.cr THEN {<<"C06", "successful authentication did not store the presented token/key">>} ELSE {}
      b8 == IF cl.op = "auth" /\ ok /\ cl.cr = "bad" THEN {<<"C06", "authentication succeeded with credentials the device does not know">>} ELSE {}
      b9 == IF cl.op = "send" /\ e.stored # m.stored THEN {<<"C06", "send changed the stored token/key">>} ELSE {}
      b10 == IF cl.op = "auth" /\ ok /\ (m.cur = 0 \/ ~m.conns[m.cur].hsok \/ ~cl.genuine)
               THEN {<<"C06", "authentication reported success without a genuine handshake reply having been delivered">>} ELSE {}
      (* every transmission met with silence and nothing else happened: the budget must be used up and the result must be a timeout *)
      b11 == IF cl.op = "send" /\ cl.silent /\ cl.tx > 0 /\ (e.r # "timeout" \/ cl.tx # Retries)
               THEN {<<"C08", "unanswered request did not end in a timeout after exactly `retries` transmissions">>} ELSE {}
      b12 == IF DevLevel /\ cl.op = "auth" /\ ~ok /\ e.r \notin {"auth", "cancelled"}
               THEN {<<"C06", "device-level authenticate failed with something other than an authentication error">>} ELSE {}
      b14 == IF cl.op = "send" /\ cl.resp /\ e.r # "frames"
               THEN {<<"C08", "a valid response arrived while the exchange was waiting for it, yet the exchange did not return it">>} ELSE {}
      b15 == IF cl.op = "auth" /\ cl.silent /\ cl.hs > 0 /\ ~cl.cancelled
                  /\ (cl.hs # Retries \/ e.r # (IF DevLevel THEN "auth" ELSE "timeout"))
               THEN {<<"C06", "unanswered handshake did not end in a timeout after exactly `retries` handshake requests (a later genuine reply could not be accepted)">>} ELSE {}
      (* a refused / unreachable / hanging connect is a failed exchange like any other: it is reported as a protocol error (or timeout), whatever the OS calls it *)
      b16 == IF cl.connfail /\ ~ok /\ e.r \notin AllowedOutcomes
               THEN {<<"C08", "a failed connect surfaced as something other than a protocol error or timeout">>} ELSE {}
      b16b == IF cl.fault /\ ~cl.connfail /\ ~ok /\ e.r \notin AllowedOutcomes
               THEN {<<"C08", "an exchange hit by a fault (peer close, error packet, garbage) surfaced as something other than a protocol error, authentication error or timeout">>} ELSE {}
      (* the handshake a send performs on its own went unanswered: it is retransmitted like any request and ends in a timeout when its budget is used up *)
      (* authentication succeeded, so client and device hold the same session key: the exchange that follows with a prompt device works *)
      b18 == IF cl.op = "send" /\ m.afterAuth /\ cl.benign /\ cl.canSucceed /\ ~ok
               THEN {<<"C06", "the exchange right after a successful authentication failed with a promptly responding device (client and device do not hold the same session key)">>} ELSE {}
      b17 == IF cl.op = "send" /\ cl.silent /\ cl.tx = 0 /\ cl.hs > 0 /\ ~cl.cancelled /\ (cl.hs # HSRetries \/ e.r # "timeout")
               THEN {<<"C08", "unanswered handshake of a send did not end in a timeout after exactly the handshake retry budget">>} ELSE {}
      b13 == IF cl.op = "auth" /\ cl.genuine /\ cl.canSucceed /\ ~ok /\ e.r # "cancelled"
               THEN {<<"C06", "authentication failed although the device's reply proved knowledge of the key">>} ELSE {}
  IN [ m EXCEPT !.bad = @ \cup b1 \cup b2 \cup b3 \cup b4 \cup b5 \cup b5b \cup b6 \cup b7 \cup b8 \cup b9 \cup b10 \cup b11 \cup b12 \cup b13 \cup b14 \cup b15 \cup b16 \cup b16b \cup b17 \cup b18,
                !.call = NoCall, !.stored = e.stored, !.prevFailed = ~ok, !.afterAuth = (cl.op = "auth" /\ ok),
                !.hadGood = @ \/ e.stored = "good" \/ (cl.op = "auth" /\ cl.cr = "good" /\ cl.genuine),     \* (a client whose handshake with the right credentials was genuinely answered holds them - even if the call was cancelled afterwards)
                !.okcr = IF cl.op = "auth" /\ ok /\ cl.cr # "cached" THEN cl.cr ELSE @,
                !.conns = [c \in 1..Len(m.conns) |-> IF c = m.cur /\ e.r = "frames" THEN [m.conns[c] EXCEPT !.stray = 0, !.straybad = 0] ELSE m.conns[c]] ]

(* a device-level operation (AirConditioner.refresh) built on one or more exchanges has returned:      *)
(* e.raised = it raised; e.online = the device's online flag; e.frames = frames its exchanges returned *)
OnDevRet(m, e) ==
  LET b1 == IF e.raised THEN {<<"C09", "device-level operation raised instead of reporting an unresponsive device">>} ELSE {}
      b0 == IF e.raised /\ m.devfault THEN {<<"C08", "device-level operation raised after a fault (failed connect, peer close, error packet, garbage) instead of reporting no response / offline">>} ELSE {}
      b2 == IF ~e.raised /\ e.frames = 0 /\ e.online THEN {<<"C08", "device reported online although no exchange returned a response">>} ELSE {}
      b3 == IF ~e.raised /\ e.frames > 0 /\ ~e.online THEN {<<"C08", "device reported offline although a response was returned">>} ELSE {}
  IN [m EXCEPT !.bad = @ \cup b0 \cup b1 \cup b2 \cup b3, !.devfault = FALSE]

MonStep(m, e) ==
  CASE e.e = "call" -> OnCall(m, e)
    [] e.e = "connok" -> OnConnOK(m, e)
    [] e.e \in {"connrefuse", "connhang"} -> OnConnFail(m, e)
    [] e.e = "connreq" -> m
    [] e.e = "devcall" -> [m EXCEPT !.devfault = FALSE]
    [] e.e = "close" -> OnClose(m, e)
    [] e.e = "peerclose" -> OnPeerClose(m, e)
    [] e.e = "tx" -> OnTx(m, e)
    [] e.e = "deliver" -> OnDeliver(m, e)
    [] e.e = "lost" -> OnLost(m, e)
    [] e.e = "timer" -> OnTimer(m, e)
    [] e.e = "cancel" -> [OnCancel(m, e) EXCEPT !.call = IF m.call.op = "none" THEN @ ELSE [@ EXCEPT !.cancelled = TRUE]]
    [] e.e = "jumpauth" -> OnJumpAuth(m, e)
    [] e.e = "jumphalf" -> OnJumpHalf(m, e)
    [] e.e = "setlife" -> m                          \* configuring the lifetime again does not give the existing connection a new lease
    [] e.e = "jumplife" -> OnJumpLife(m, e)
    [] e.e = "ret" -> IF m.call.op = "none" THEN Flag(m, <<"harness", "result without a call">>) ELSE OnRet(m, e)
    [] e.e = "devret" -> OnDevRet(m, e)
    [] OTHER -> Flag(m, <<"harness", "unknown event">>)

RECURSIVE MonSteps(_, _)
MonSteps(m, es) == IF es = <<>> THEN m ELSE MonSteps(MonStep(m, Head(es)), Tail(es))
=======================================================================
