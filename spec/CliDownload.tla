---------------------------- MODULE CliDownload ----------------------------
(* `msmart-ng download HOST` (cli._download): discovery of the one host without connecting to it, SmartHome cloud login, then the    *)
(* protocol (lua) and the plugin of the discovered appliance, each written to a file named by the cloud.  One step per stage        *)
(* outcome.  Spec growth beyond the listed properties; the cloud requests of the same runs are judged by Trace_SmartHome.            *)
(* Named behaviour of the code that an idealised model would not have: DownloadErrorEscapes - a cloud error while fetching the       *)
(* protocol or the plugin is not caught by the command (the process ends with a traceback, status 1), whereas a failed login is      *)
(* reported and ends the command with status 1; a protocol file already written stays when the plugin stage fails.                   *)
EXTENDS Naturals, Integers, Sequences, FiniteSets
Stages == <<"disc", "login", "lua", "plugin">>
S0 == [pc |-> "disc", calls |-> <<>>, files |-> <<>>, exitc |-> -1, escaped |-> FALSE]
Done(s, code) == [s EXCEPT !.pc = "done", !.exitc = code]
Step(s, ok) ==
  CASE s.pc = "disc" -> IF ok THEN [s EXCEPT !.pc = "login"] ELSE Done(s, 1)                                  \* "Device not found."
    [] s.pc = "login" -> LET t == [s EXCEPT !.calls = Append(@, "login")] IN IF ok THEN [t EXCEPT !.pc = "lua"] ELSE Done(t, 1)
    [] s.pc = "lua" -> LET t == [s EXCEPT !.calls = Append(@, "lua")] IN
                       IF ok THEN [t EXCEPT !.pc = "plugin", !.files = Append(@, "lua")] ELSE [Done(t, 1) EXCEPT !.escaped = TRUE]
    [] s.pc = "plugin" -> LET t == [s EXCEPT !.calls = Append(@, "plugin")] IN
                          IF ok THEN Done([t EXCEPT !.files = Append(@, "plugin")], 0) ELSE [Done(t, 1) EXCEPT !.escaped = TRUE]
    [] OTHER -> s
RECURSIVE Run(_, _)
Run(s, outs) == IF outs = <<>> \/ s.pc = "done" THEN s ELSE Run(Step(s, Head(outs)), Tail(outs))
=======================================================================
