---------------------------- MODULE Gen_SmartHome ----------------------------
(* spec -> code: behaviours of the SmartHome flow with the history of user calls and per-attempt server outcomes *)
EXTENDS MC_SmartHome, Json, TLC
VARIABLE hist
GInit == SInit /\ hist = <<>>
GNext == \/ \E f \in BOOLEAN : CallLogin(f) /\ hist' = Append(hist, [a |-> IF f THEN "loginf" ELSE "login", out |-> ""])
         \/ CallGet("lua") /\ hist' = Append(hist, [a |-> "lua", out |-> ""])
         \/ CallGet("plug") /\ hist' = Append(hist, [a |-> "plug", out |-> ""])
         \/ \E out \in Outcomes : Attempt(out) /\ hist' = Append(hist, [a |-> "att", out |-> out])
         \/ \E out \in Outcomes : FileAttempt(out) /\ hist' = Append(hist, [a |-> "file", out |-> out])
GEmit == IF pc = "idle" /\ calls = MaxCalls THEN PrintT(<<"SCN", ToJson(hist)>>) /\ FALSE ELSE TRUE
=======================================================================
