---------------------------- MODULE MC_C14 ----------------------------
(* In-model check for C14: the decodability thresholds of the spec are sufficient.  For every   *)
(* response kind and EVERY truncation length, whenever Decodable() admits the body, the decoder *)
(* operator of that kind evaluates (TLC raises an error on any out-of-range index), and bodies   *)
(* below the thresholds are classified undecodable.                                              *)
EXTENDS AcCaps
VARIABLES kind, n, fill
St == [power |-> TRUE, t2 |-> 43, mode |-> 4, fan |-> 60, swing |-> 12, follow |-> FALSE, turbo |-> TRUE,
       eco |-> TRUE, purifier |-> FALSE, aux |-> 1, sleep |-> FALSE, fahr |-> FALSE, hum |-> 55, freeze |-> TRUE,
       indoor |-> 95, outdoor |-> 110, filter |-> FALSE, display |-> TRUE, inTenths |-> 3, outTenths |-> 7]
Full(k) == CASE k = "state" -> StateBody(St, 30)
             [] k = "caps" -> <<181, 4, 20, 2, 1, 1, 37, 2, 7, 34, 60, 34, 60, 34, 60, 1, 16, 2, 1, 7, 127, 127, 2, 1, 2, 0, 0>>
             [] k = "props" -> <<177, 3, 9, 0, 0, 1, 25, 227, 0, 0, 2, 1, 1, 66, 0, 0, 1, 2, 9>>
             [] k = "ack" -> <<176, 2, 67, 0, 0, 1, 3, 26, 0, 0, 1, 0, 9>>
             [] k = "energy" -> <<193, 33, 1, 68, 0, 0, 18, 52, 0, 0, 0, 0, 0, 0, 0, 86, 0, 7, 137, 0>>
             [] k = "humidity" -> <<193, 33, 1, 69, 55, 0, 0, 0>>
Kinds == {"state", "caps", "props", "ack", "energy", "humidity"}
(* fill = 255 overwrites count/size-like bytes with 0xFF to stress counts larger than the data *)
Body == LET b == Take(Full(kind), n) IN
        IF fill = 0 THEN b ELSE [j \in 1..Len(b) |-> IF j = 2 THEN fill ELSE b[j]]
Init == kind \in Kinds /\ n \in 1..30 /\ n <= Len(Full(kind)) /\ fill \in {0, 1, 7, 255}
Next == UNCHANGED <<kind, n, fill>>
Evaluates(p) ==
  CASE p[1] = 192 -> StateView(p).t2 >= 0 /\ IndoorRaw(p) >= 0 /\ OutdoorRaw(p) >= 0 /\ IndoorTenths(p) >= 0
    [] p[1] = 181 -> DOMAIN ParseCaps(p) \subseteq STRING /\ AdditionalFlag(p) \in BOOLEAN
    [] p[1] \in {176, 177} -> Len(PropsOf(p)) >= 0
    [] p[1] = 193 -> IF GroupOf(p) = 4 THEN Energy(p).power10 >= 0 /\ EnergyValid(p) \in BOOLEAN
                     ELSE IF GroupOf(p) = 5 THEN HumidityOf(p) # 0 ELSE TRUE
    [] OTHER -> TRUE
DecodersTotal == Decodable(Body) => Evaluates(Body)
ShortIsUndecodable == /\ (kind = "state" /\ n < 16) => ~Decodable(Body)
                      /\ (kind = "energy" /\ n < 19) => ~Decodable(Body)
                      /\ (kind = "humidity" /\ n < 5) => ~Decodable(Body)
                      /\ (kind \in {"caps", "props", "ack"} /\ n < 2) => ~Decodable(Body)
=======================================================================
