---------------------------- MODULE LanSession ----------------------------
(* The LAN transport as one state machine: LAN + _LanProtocol(V3) + device + network.            *)
(* Structured like msmart/lan.py: the client's program counter values are its awaits; ONE action *)
(* = an environment event plus the client code that runs until the next await.  Each action      *)
(* publishes, in evs', the observable events it causes (alphabet of SessionMon.tla); the monitor *)
(* m' = MonSteps(m, evs') is part of the state and TLC checks m.bad = {}.                        *)
(* Keys, tokens, nonces are abstract: a handshake with the good token makes the device derive a  *)
(* fresh key id; a reply is [m (class), k (key id), gen (genuine)].                               *)
EXTENDS SessionMon

CONSTANTS MaxCalls, MaxConn, MaxFly, MaxKeys,
          Life,          \* BOOLEAN: max_connection_lifetime configured
          Halves,        \* BOOLEAN: the clock may also advance by half the key lifetime (6 h): two such steps since the handshake expire the key
          HSClasses,     \* reply classes the adversary may use for handshake requests
          DataClasses    \* ... and for data requests

VARIABLES
  creds,    \* "none" | "good"            LAN._token/_key (never "bad": C06)
  pver,     \* 2 | 3                      LAN._protocol_version
  p,        \* NoProto or [c, v, dead, pid, key, kexp, q]   LAN._protocol
  cexp,     \* connection lifetime elapsed
  pc,       \* "Idle" | "Connecting" | "AuthWait" | "AuthSleep" | "ReadWait"
  op,       \* top-level call: "none" | "send" | "auth"
  use,      \* credentials the running authentication presents
  left,     \* retries left in the current loop
  calls,
  nconn, dkey, nkeys, fly,    \* environment: connections, device key per connection, in-flight messages
  evs,      \* observable events of the last step
  m         \* property monitor

vars == <<creds, pver, p, cexp, pc, op, use, left, calls, nconn, dkey, nkeys, fly, evs, m>>

NoProto == [c |-> 0]
HasProto == p.c # 0
Alive == HasProto /\ ~p.dead /\ ~(Life /\ cexp)
Authed == HasProto /\ p.v = 3 /\ p.key # 0 /\ ~p.kexp
NewProto(c) == [c |-> c, v |-> pver, dead |-> FALSE, pid |-> 0, key |-> 0, kexp |-> FALSE, khalf |-> FALSE, q |-> <<>>, got |-> 0]   \* got: responses read before the transmission of the running send

Init ==
  /\ creds = "none" /\ pver = 2 /\ p = NoProto /\ cexp = FALSE
  /\ pc = "Idle" /\ op = "none" /\ use = "none" /\ left = 0 /\ calls = 0
  /\ nconn = 0 /\ dkey = [c \in 1..MaxConn |-> 0] /\ nkeys = 0 /\ fly = <<>>
  /\ evs = <<>> /\ m = MonInit

(* ---------------- events ---------------- *)
EvClose == IF HasProto THEN <<[e |-> "close", c |-> p.c]>> ELSE <<>>
EvRet(r, n, st) == <<[e |-> "ret", op |-> op, r |-> r, n |-> n, stored |-> st]>>
EvTxHS(c, ctr, tok, k, cls) == <<[e |-> "tx", c |-> c, t |-> "HS", ctr |-> ctr, tok |-> tok, k |-> k, wf |-> TRUE, reply |-> cls]>>
EvTxData(c, ctr, k, cls) == <<[e |-> "tx", c |-> c, t |-> "DATA", ctr |-> ctr, tok |-> "na", k |-> k, wf |-> TRUE, reply |-> cls]>>

(* ---------------- device reactions ---------------- *)
HSMsgs(cls, c, k) ==
  CASE cls = "valid" -> <<[c |-> c, m |-> "HSR", k |-> k, gen |-> TRUE]>>
    [] cls = "forged" -> <<[c |-> c, m |-> "HSR", k |-> k, gen |-> FALSE]>>
    [] cls = "error" -> <<[c |-> c, m |-> "ERR", k |-> 0, gen |-> FALSE]>>
    [] cls = "garbage" -> <<[c |-> c, m |-> "OTHER", k |-> 0, gen |-> FALSE]>>
    [] cls = "enc" -> <<[c |-> c, m |-> "ENC", k |-> k, gen |-> TRUE]>>
    [] OTHER -> <<>>
DataKind == IF Ver = 3 THEN "ENC" ELSE "PKT"
DataMsgs(cls, c, k) ==
  CASE cls = "valid" -> <<[c |-> c, m |-> DataKind, k |-> k, gen |-> TRUE]>>
    [] cls = "bad" -> <<[c |-> c, m |-> DataKind, k |-> k, gen |-> FALSE]>>
    [] cls = "error" -> <<[c |-> c, m |-> "ERR", k |-> 0, gen |-> FALSE]>>
    [] cls = "garbage" -> <<[c |-> c, m |-> "OTHER", k |-> 0, gen |-> FALSE]>>
    [] cls = "hsr" -> <<[c |-> c, m |-> "HSR", k |-> 0, gen |-> FALSE]>>
    [] cls = "noise" -> <<[c |-> c, m |-> "NOISE", k |-> 0, gen |-> FALSE]>>          \* V3: bytes without a start marker (line noise): the receiver waits on
    [] cls \in {"valid+unsolicited", "dup"} -> <<[c |-> c, m |-> DataKind, k |-> k, gen |-> TRUE], [c |-> c, m |-> DataKind, k |-> k, gen |-> TRUE]>>
    [] OTHER -> <<>>

(* what LAN._read makes of one queued message (send context): "ok" or "proto" *)
ReadOne(x) ==
  CASE x.m = "PKT" -> IF x.gen THEN "ok" ELSE "proto"
    [] x.m = "ENC" -> IF p.key # 0 /\ x.k = p.key /\ x.gen THEN "ok" ELSE "proto"
    [] OTHER -> "proto"
RECURSIVE Drain(_)
Drain(q) == IF q = <<>> THEN "ok" ELSE IF ReadOne(Head(q)) = "ok" THEN Drain(Tail(q)) ELSE "proto"
RECURSIVE OkPrefix(_)
OkPrefix(q) == IF q = <<>> \/ ReadOne(Head(q)) # "ok" THEN 0 ELSE 1 + OkPrefix(Tail(q))

(* ---------------- composite client blocks ----------------------------------------------
   A block describes the client code from some point up to its next await (or return).  It is a
   predicate over the primed variables  creds, p, pc, op, use, left, dkey, nkeys, fly, evs ;
   the calling action fixes  pver, cexp, calls, nconn  and the wrapper Next fixes m.
   pre = events already emitted in this step; o = the top-level operation; pp = protocol record. *)

FinishF(pre, o, r, n, pp, newCreds, newFly) ==
  /\ pc' = "Idle" /\ op' = "none" /\ left' = 0 /\ creds' = newCreds /\ use' = use
  /\ p' = IF pp.c # 0 THEN [pp EXCEPT !.got = 0] ELSE pp
  /\ evs' = pre \o <<[e |-> "ret", op |-> o, r |-> r, n |-> n, stored |-> newCreds]>>
  /\ fly' = newFly /\ UNCHANGED <<dkey, nkeys>>
Finish(pre, o, r, n, pp, newCreds) == FinishF(pre, o, r, n, pp, newCreds, fly)

(* _flush(); write(handshake request); await read() *)
SendHS(pre, o, pp, u, retriesLeft) ==
  IF pp.dead THEN Finish(pre, o, "auth", 0, [pp EXCEPT !.q = <<>>], creds)   \* write on closing transport: ProtocolError -> AuthenticationError
  ELSE
    /\ Len(fly) + 1 <= MaxFly
    /\ (u = "good" => nkeys < MaxKeys)
    /\ \E cls \in (IF u = "good" THEN HSClasses ELSE HSClasses \cap {"error", "none"}) :
         LET k == IF u = "good" THEN nkeys + 1 ELSE 0 IN
         /\ nkeys' = IF u = "good" THEN nkeys + 1 ELSE nkeys
         /\ dkey' = IF u = "good" THEN [dkey EXCEPT ![pp.c] = k] ELSE dkey
         /\ fly' = fly \o HSMsgs(cls, pp.c, k)
         /\ evs' = pre \o EvTxHS(pp.c, pp.pid, u, k, cls)
    /\ p' = [pp EXCEPT !.pid = (pp.pid + 1) % CtrMod, !.q = <<>>]
    /\ pc' = "AuthWait" /\ op' = o /\ use' = u /\ left' = retriesLeft /\ creds' = creds

(* write(data packet); await read() *)
SendData(pre, o, pp, retriesLeft) ==
  IF pp.dead THEN Finish(pre, o, "proto", 0, pp, creds)                        \* WriteOnClosingTransportNoDisconnect
  ELSE
    /\ Len(fly) + 2 <= MaxFly
    /\ LET decryptable == Ver = 2 \/ (pp.key # 0 /\ pp.key = dkey[pp.c]) IN
       \E cls \in (IF decryptable THEN DataClasses ELSE {"none"}) :
         /\ fly' = fly \o DataMsgs(cls, pp.c, pp.key)
         /\ evs' = pre \o EvTxData(pp.c, IF pp.v = 3 THEN pp.pid ELSE -1, pp.key, cls)
    /\ p' = IF pp.v = 3 THEN [pp EXCEPT !.pid = (pp.pid + 1) % CtrMod] ELSE pp
    /\ pc' = "ReadWait" /\ op' = o /\ use' = use /\ left' = retriesLeft /\ creds' = creds
    /\ UNCHANGED <<dkey, nkeys>>

(* LAN.send once connected and authenticated: read what is queued, then transmit *)
DrainThenSend(pre, o, pp) ==
  IF Drain(pp.q) # "ok"
  THEN Finish(pre, o, "proto", 0, [pp EXCEPT !.q = SubSeq(pp.q, OkPrefix(pp.q) + 2, Len(pp.q))], creds)   \* DrainErrorNoDisconnect
  ELSE SendData(pre, o, [pp EXCEPT !.q = <<>>, !.got = Len(pp.q)], Retries)

StartAuth(pre, o, pp, u) ==
  IF u = "none" THEN Finish(pre, o, "auth", 0, pp, creds)    \* "Token and key must be supplied."
  ELSE SendHS(pre, o, pp, u, IF o = "auth" THEN Retries ELSE HSRetries)     \* send() authenticates with the default budget

(* ---------------- user calls ---------------- *)
CallSend ==
  /\ pc = "Idle" /\ calls < MaxCalls /\ (Ver = 3 => pver = 3)
  /\ calls' = calls + 1 /\ UNCHANGED <<pver, cexp, nconn>>
  /\ LET pre == <<[e |-> "call", op |-> "send", cr |-> "cached"]>> IN
     IF ~Alive
     THEN /\ p' = NoProto /\ pc' = "Connecting" /\ op' = "send" /\ evs' = pre \o EvClose \o <<[e |-> "connreq"]>>
          /\ UNCHANGED <<creds, use, left, dkey, nkeys, fly>>
     ELSE IF p.v = 3 /\ ~Authed THEN StartAuth(pre, "send", p, creds)
          ELSE DrainThenSend(pre, "send", p)

CallAuth(a) ==
  /\ pc = "Idle" /\ calls < MaxCalls /\ Ver = 3
  /\ calls' = calls + 1 /\ pver' = 3 /\ UNCHANGED <<cexp, nconn>>
  /\ LET pre == <<[e |-> "call", op |-> "auth", cr |-> a]>> IN
     IF ~Alive \/ p.v # 3
     THEN /\ p' = NoProto /\ pc' = "Connecting" /\ op' = "auth" /\ use' = a /\ evs' = pre \o EvClose \o <<[e |-> "connreq"]>>
          /\ UNCHANGED <<creds, left, dkey, nkeys, fly>>
     ELSE StartAuth(pre, "auth", p, a)

(* ---------------- connection results ---------------- *)
ConnOK ==
  /\ pc = "Connecting" /\ nconn < MaxConn
  /\ nconn' = nconn + 1 /\ cexp' = FALSE /\ UNCHANGED <<pver, calls>>
  /\ LET np == NewProto(nconn + 1)
         pre == <<[e |-> "connok", c |-> nconn + 1]>> IN
     IF op = "auth" THEN StartAuth(pre, "auth", np, use)
     ELSE IF np.v = 3 THEN StartAuth(pre, "send", np, creds)
     ELSE DrainThenSend(pre, "send", np)

ConnFail(kind) ==
  /\ pc = "Connecting"
  /\ UNCHANGED <<pver, cexp, calls, nconn>>
  /\ \E out \in (IF kind = "refuse" THEN {"proto", "timeout"} ELSE {"timeout"}) :      \* the OS reports a failed connect as some OSError - among them ETIMEDOUT, which the code reports as a timeout like its own connect timer
       Finish(<<[e |-> IF kind = "refuse" THEN "connrefuse" ELSE "connhang"]>>, op, out, 0, p, creds)

(* ---------------- network / clock ---------------- *)
Quiet == UNCHANGED <<creds, pver, cexp, pc, op, use, left, calls, nconn, dkey, nkeys>>

RemoveAt(s, i) == [j \in 1..(Len(s) - 1) |-> IF j < i THEN s[j] ELSE s[j + 1]]
(* what the waiting reader task does when its queue becomes non-empty (pp.q holds the new message(s)) *)
WakeRead(pre, pp, nf) ==
  IF ReadOne(Head(pp.q)) # "ok"
  THEN FinishF(pre \o <<[e |-> "close", c |-> pp.c]>>, op, "proto", 0, NoProto, creds, nf)     \* _disconnect(); raise
  ELSE IF Drain(Tail(pp.q)) # "ok"
       THEN FinishF(pre, op, "proto", 0,
                    [pp EXCEPT !.q = SubSeq(Tail(pp.q), OkPrefix(Tail(pp.q)) + 2, Len(Tail(pp.q)))], creds, nf)   \* drain-after error, no disconnect
       ELSE FinishF(pre, op, "frames", pp.got + Len(pp.q), [pp EXCEPT !.q = <<>>], creds, nf)

WakeAuth(pre, pp, nf) ==
  LET x == Head(pp.q) IN
  IF x.m = "HSR" /\ x.gen /\ use = "good"
  THEN /\ p' = [pp EXCEPT !.key = x.k, !.kexp = FALSE, !.khalf = FALSE, !.q = Tail(pp.q)]
       /\ creds' = use /\ pc' = "AuthSleep" /\ evs' = pre /\ fly' = nf
       /\ UNCHANGED <<op, use, left, dkey, nkeys>>
  ELSE FinishF(pre, op, "auth", 0, [pp EXCEPT !.q = Tail(pp.q)], creds, nf)                      \* AuthFailureKeepsConnection

(* one in-flight message arrives; a reader waiting on that connection resumes in the same step *)
Deliver(i) ==
  /\ i \in 1..Len(fly)
  /\ UNCHANGED <<pver, cexp, calls, nconn>>
  /\ LET x == fly[i]
         live == HasProto /\ x.c = p.c /\ ~p.dead
         (* "genuine" is what an observer can verify: a handshake reply proves knowledge of the key the CLIENT PRESENTED last - a stale reply to an earlier
            authenticate(good) that arrives after authenticate(bad) was called proves nothing under the credentials now in use (a send presents the stored ones again) *)
         pre == <<[e |-> "deliver", c |-> x.c, m |-> x.m, k |-> x.k, gen |-> x.gen /\ ~(x.m = "HSR" /\ use = "bad" /\ op # "send"), live |-> live, i |-> i]>>
         pp == IF live THEN [p EXCEPT !.q = Append(p.q, x)] ELSE p IN
     IF x.m = "NOISE" THEN      \* nothing is queued, nobody is woken: the bytes are skipped when the next start marker arrives (V3Stream!Extract)
          /\ fly' = RemoveAt(fly, i) /\ p' = p /\ evs' = pre
          /\ UNCHANGED <<creds, pc, op, use, left, dkey, nkeys>>
     ELSE IF live /\ pc = "ReadWait" THEN WakeRead(pre, pp, RemoveAt(fly, i))
     ELSE IF live /\ pc = "AuthWait" THEN WakeAuth(pre, pp, RemoveAt(fly, i))
     ELSE /\ fly' = RemoveAt(fly, i) /\ p' = pp /\ evs' = pre
          /\ UNCHANGED <<creds, pc, op, use, left, dkey, nkeys>>

Lose(i) ==
  /\ i \in 1..Len(fly)
  /\ fly' = RemoveAt(fly, i) /\ evs' = <<[e |-> "lost", c |-> fly[i].c, m |-> fly[i].m, i |-> i]>>
  /\ UNCHANGED p /\ Quiet

PeerClose ==
  /\ HasProto /\ ~p.dead
  /\ p' = [p EXCEPT !.dead = TRUE] /\ evs' = <<[e |-> "peerclose", c |-> p.c]>>
  /\ UNCHANGED fly /\ Quiet

JumpAuth ==
  /\ pc = "Idle" /\ HasProto /\ p.v = 3 /\ p.key # 0 /\ ~p.kexp
  /\ p' = [p EXCEPT !.kexp = TRUE] /\ evs' = <<[e |-> "jumpauth"]>>
  /\ UNCHANGED fly /\ Quiet

(* half the key lifetime passes: the lifetime is measured from the handshake, not from the last traffic *)
JumpHalf ==
  /\ Halves /\ pc = "Idle" /\ HasProto /\ p.v = 3 /\ p.key # 0 /\ ~p.kexp
  /\ p' = IF p.khalf THEN [p EXCEPT !.kexp = TRUE] ELSE [p EXCEPT !.khalf = TRUE]
  /\ evs' = <<[e |-> "jumphalf"]>>
  /\ UNCHANGED fly /\ Quiet

(* the user sets max_connection_lifetime again (to the same value) while a connection exists: the lifetime of THAT connection still runs from its establishment *)
SetLife ==
  /\ Halves /\ pc = "Idle" /\ Life /\ HasProto
  /\ evs' = <<[e |-> "setlife"]>>
  /\ UNCHANGED <<creds, pver, p, pc, op, use, left, calls, nconn, dkey, nkeys, fly, cexp>>

JumpLife ==
  /\ pc = "Idle" /\ Life /\ HasProto /\ ~cexp
  /\ cexp' = TRUE /\ evs' = <<[e |-> "jumplife"]>>
  /\ UNCHANGED <<creds, pver, p, pc, op, use, left, calls, nconn, dkey, nkeys, fly>>

(* ---------------- client wake-ups ---------------- *)
TimerRead ==
  /\ pc = "ReadWait" /\ HasProto /\ p.q = <<>>
  /\ UNCHANGED <<pver, cexp, calls, nconn>>
  /\ LET pre == <<[e |-> "timer"]>> IN
     IF left > 1 THEN SendData(pre, op, p, left - 1)
     ELSE Finish(pre \o EvClose, op, "timeout", 0, NoProto, creds)

CancelRead ==
  /\ pc = "ReadWait" /\ HasProto
  /\ UNCHANGED <<pver, cexp, calls, nconn>>
  /\ Finish(<<[e |-> "cancel"]>> \o EvClose, op, "timeout", 0, NoProto, creds)        \* "Read cancelled."

TimerAuth ==
  /\ pc = "AuthWait" /\ HasProto /\ p.q = <<>>
  /\ UNCHANGED <<pver, cexp, calls, nconn>>
  /\ LET pre == <<[e |-> "timer"]>> IN
     IF left > 1 THEN SendHS(pre, op, p, use, left - 1)
     ELSE Finish(pre, op, "timeout", 0, p, creds)                                      \* no disconnect after an authentication timeout

CancelOther ==      \* CancelOutsideReadPropagates
  /\ pc \in {"AuthWait", "AuthSleep", "Connecting"}
  /\ UNCHANGED <<pver, cexp, calls, nconn>>
  /\ Finish(<<[e |-> "cancel"]>>, op, "cancelled", 0, p, creds)

TimerSleep ==
  /\ pc = "AuthSleep"
  /\ UNCHANGED <<pver, cexp, calls, nconn>>
  /\ LET pre == <<[e |-> "timer"]>> IN
     IF op = "auth" THEN Finish(pre, op, "authok", 0, p, creds)
     ELSE DrainThenSend(pre, op, p)

Step ==
  \/ CallSend \/ CallAuth("good") \/ CallAuth("bad")
  \/ ConnOK \/ ConnFail("refuse") \/ ConnFail("hang")
  \/ \E i \in 1..MaxFly : Deliver(i)
  \/ \E i \in 1..MaxFly : Lose(i)
  \/ PeerClose \/ JumpAuth \/ JumpHalf \/ SetLife \/ JumpLife
  \/ TimerRead \/ CancelRead \/ TimerAuth \/ CancelOther \/ TimerSleep

Next == Step /\ m' = MonSteps(m, evs')
Spec == Init /\ [][Next]_vars

(* liveness: if the environment keeps resolving what is pending (a connect attempt succeeds or fails, a message in flight is delivered or lost, a
   pending timer fires), every call returns - it never waits forever (C09's "an exchange ends", at the design level).  The user's own actions (new
   calls, cancellation, clock jumps) and the peer closing the connection are not required to happen. *)
Progress == \/ ConnOK \/ ConnFail("refuse") \/ ConnFail("hang")
            \/ \E i \in 1..MaxFly : Deliver(i)
            \/ \E i \in 1..MaxFly : Lose(i)
            \/ TimerRead \/ TimerAuth \/ TimerSleep
FairSpec == Spec /\ WF_vars(Progress /\ m' = MonSteps(m, evs'))
EveryCallReturns == (pc # "Idle") ~> (pc = "Idle")
NoViolation == m.bad = {}
TypeOK == /\ pc \in {"Idle", "Connecting", "AuthWait", "AuthSleep", "ReadWait"}
          /\ creds \in {"none", "good"} /\ Len(fly) <= MaxFly
(* C06 at the design level: the client holds a key only if a genuine reply under the presented key was accepted *)
KeyImpliesIssued == (HasProto /\ p.v = 3 /\ p.key # 0) => p.key <= nkeys
=======================================================================
