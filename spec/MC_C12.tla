---------------------------- MODULE MC_C12 ----------------------------
(* In-model check for C12: every command kind, over its parameter domain and every message id, *)
(* is a well-formed frame that the device-side parser classifies as that kind; ids advance by  *)
(* one modulo 256 (checked over more than two wrap-arounds by walking the id).                  *)
EXTENDS AcCommand
VARIABLES cmd, mid, steps
vars == <<cmd, mid, steps>>
PropIds == <<PropSwingUD, PropSwingLR, PropBreezeless, PropBuzzer, PropSelfClean, PropBreezeAway,
             PropBreezeControl, PropRateSelect, PropIeco>>
RECURSIVE Pick(_, _)
Pick(mask, k) == IF k > 9 THEN <<>> ELSE (IF Mod(mask \div (2 ^ (k - 1)), 2) = 1 THEN <<PropIds[k]>> ELSE <<>>) \o Pick(mask, k + 1)
Cmds == {[k |-> "get_state"], [k |-> "get_energy"], [k |-> "get_humidity"],
         [k |-> "get_caps"], [k |-> "get_caps_more"],
         [k |-> "toggle_display", beep |-> TRUE], [k |-> "toggle_display", beep |-> FALSE]}
        \cup {[k |-> "get_props", mask |-> m] : m \in 0..511}
        \cup {[k |-> "set_props", id |-> PropIds[j], v |-> v, buzz |-> b] : j \in 1..9, v \in {0, 1, 2, 3, 4, 25, 50, 100, 255}, b \in {0, 1}}
Body(c) == CASE c.k = "get_state" -> GetStateBody
             [] c.k = "get_energy" -> GetEnergyBody
             [] c.k = "get_humidity" -> GetHumidityBody
             [] c.k = "get_caps" -> GetCapsBody(FALSE)
             [] c.k = "get_caps_more" -> GetCapsBody(TRUE)
             [] c.k = "toggle_display" -> ToggleDisplayBody(c.beep)
             [] c.k = "get_props" -> GetPropsBody(Pick(c.mask, 1))
             [] c.k = "set_props" -> SetPropsBody(<<[id |-> c.id, v |-> c.v], [id |-> PropBuzzer, v |-> c.buzz]>>)
TypeOf(c) == IF c.k = "set_props" THEN TypeControl ELSE TypeQuery
Init == cmd \in Cmds /\ mid \in {0, 1, 127, 254, 255} /\ steps = 0
Next == steps < 3 /\ steps' = steps + 1 /\ mid' = Mod(mid + 1, 256) /\ UNCHANGED cmd
F == CommandFrame(TypeOf(cmd), Body(cmd), mid)
WellFormed == WellFormedCommand(F)
Classified == CommandKind(F) = cmd.k /\ FMsgId(F) = mid /\ FBody(F) = Body(cmd)
WritesParsed == cmd.k = "set_props" =>
   LET w == ParseWrites(Drop(Body(cmd), 2), Body(cmd)[2]) IN
   Len(w) = 2 /\ w[1].id = cmd.id /\ w[1].val = PropValueBytes(cmd.id, cmd.v) /\ w[2].id = PropBuzzer
IdsParsed == cmd.k = "get_props" => ParseIds(Drop(Body(cmd), 2), Body(cmd)[2]) = Pick(cmd.mask, 1)
=======================================================================
