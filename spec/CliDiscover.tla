---------------------------- MODULE CliDiscover ----------------------------
(* `msmart-ng discover [HOST] [--count N]` (cli._discover over Discover.discover / discover_single): what the command puts on     *)
(* the wire and what it prints, as a function of its options and of the datagrams that arrive.  Spec growth beyond the listed   *)
(* properties; reuses the reply layout of DiscLayout (the identity a well-formed reply encodes).                                 *)
(*   - N probes (default 3) to each of the ports 6445 and 20086 of the target: HOST when given, the broadcast address otherwise  *)
(*   - the first datagram of an address decides for that address (Discover!FirstDatagramWins)                                    *)
(*   - without HOST every deciding well-formed replier is printed once; with HOST at most one of them                           *)
(*   - the exit status is 0, devices found or not                                                                                *)
EXTENDS DiscLayout, TLC
RECURSIVE Deciding(_, _, _)
Deciding(arr, k, ips) == IF k > Len(arr) THEN <<>>
                         ELSE IF arr[k].ip \in ips THEN Deciding(arr, k + 1, ips)
                         ELSE <<k>> \o Deciding(arr, k + 1, ips \cup {arr[k].ip})
Shown(x, ip) == [id |-> x.id, port |-> x.port, sn |-> x.sn, name |-> x.name, type |-> x.type, ip |-> ip]      \* what Device.to_dict() shows of an identity
Expected(arr) == LET d == Deciding(arr, 1, {}) IN
                 { Shown(Info(arr[d[j]].data, arr[d[j]].o), arr[d[j]].ip) : j \in {x \in 1..Len(d) : WellFormed(arr[d[x]].data, arr[d[x]].o)} }
Target(opt) == IF opt.host = "" THEN "255.255.255.255" ELSE opt.host
CountTo(pr, port) == Cardinality({k \in 1..Len(pr) : pr[k].port = port})
ProbesClause(opt, pr) ==
  IF \E k \in 1..Len(pr) : pr[k].host # Target(opt) THEN "a probe went to another address than the target"
  ELSE IF \E k \in 1..Len(pr) : pr[k].port \notin {6445, 20086} THEN "a probe went to another port than 6445 / 20086"
  ELSE IF CountTo(pr, 6445) # opt.count \/ CountTo(pr, 20086) # opt.count THEN "the number of probes per port is not --count"
  ELSE IF \E k \in 1..Len(pr) : ProbeClause(pr[k].data, pr[k].o) # "ok" THEN "a probe is not the datagram real devices answer"
  ELSE "ok"
PrintedClause(opt, arr, printed) ==
  LET want == Expected(arr) IN
  IF opt.host = "" THEN (IF printed = want THEN "ok" ELSE IF \E d \in want : d \notin printed THEN "a well-formed replier is not printed (or printed with another identity)" ELSE "something was printed that no deciding well-formed reply encodes")
  ELSE IF want = {} THEN (IF printed = {} THEN "ok" ELSE "a device was printed although nobody answered with a well-formed reply")
  ELSE IF Cardinality(printed) # 1 THEN "a single-host discovery that was answered did not print exactly one device"
  ELSE IF printed \subseteq want THEN "ok" ELSE "the device printed is none of the well-formed repliers"
=======================================================================
