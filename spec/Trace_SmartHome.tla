---------------------------- MODULE Trace_SmartHome ----------------------------
(* code -> spec: one SmartHomeCloud client against the model server.  Events:                                   *)
(*   call(op, force, sn, dtype)     login(force) / get_protocol_lua(dtype, sn) / get_plugin(dtype, sn)            *)
(*   req(path, alias, hdr, content, body, o, out, lid, tok, fname, url)   one API attempt as the server saw it    *)
(*   get(url, out, text, o, content)                                      one file download attempt               *)
(*   ret(r, name, data)             the call returned (ok) or raised (cloud_error / other:<type>)                 *)
EXTENDS MC_SmartHome, Json, IOUtils, TLC
Traces == JsonDeserialize(IOEnv.TRACE_FILE)
VARIABLES tid, l, verdict, lidV, tokV, snV, dtypeV, nameV, urlV, dataV
tv == <<lidV, tokV, snV, dtypeV, nameV, urlV, dataV>>
Cn == Traces[tid].cn
St == [account |-> Traces[tid].account, password |-> Traces[tid].password, loginId |-> lidV, token |-> tokV, sn |-> snV, dtype |-> dtypeV]
TInit == /\ tid \in 1..Len(Traces) /\ l = 1 /\ verdict = "ok" /\ lidV = <<>> /\ tokV = <<>> /\ snV = <<>> /\ dtypeV = 0
         /\ nameV = <<>> /\ urlV = <<>> /\ dataV = <<>> /\ SInit
Keep == UNCHANGED tv
Stay == UNCHANGED svars
OnCall(e) ==
  IF pc # "idle" THEN verdict' = "harness: call while another call is running" /\ Stay /\ Keep
  ELSE IF e.op = "login" THEN CallLogin(e.force) /\ verdict' = "ok" /\ Keep
  ELSE CallGet(e.op) /\ verdict' = "ok" /\ snV' = e.sn /\ dtypeV' = e.dtype /\ nameV' = <<>> /\ urlV' = <<>> /\ dataV' = <<>> /\ UNCHANGED <<lidV, tokV>>
OnReq(e) ==
  IF ~IsApi THEN verdict' = "an API request was sent although none is due (attempt budget exceeded, request after an error or during a download)" /\ Stay /\ Keep
  ELSE LET c == RequestClause(pc, e, St, Cn) IN
       IF c # "ok" THEN verdict' = c /\ Stay /\ Keep
       ELSE /\ Attempt(e.out) /\ verdict' = "ok"
            /\ lidV' = IF e.out = "ok" /\ pc = "lid" THEN e.lid ELSE lidV
            /\ tokV' = IF e.out = "ok" /\ pc = "login" THEN e.tok ELSE tokV
            /\ nameV' = IF e.out = "ok" /\ pc \in {"lua", "plug"} THEN e.fname ELSE nameV
            /\ urlV' = IF e.out = "ok" /\ pc \in {"lua", "plug"} THEN e.url ELSE urlV
            /\ UNCHANGED <<snV, dtypeV, dataV>>
OnGet(e) ==
  IF pc \notin {"luafile", "plugfile"} THEN verdict' = "a download was attempted although none is due (second attempt, or before the API request succeeded)" /\ Stay /\ Keep
  ELSE IF e.url # urlV THEN verdict' = "the download does not go to the URL the server named" /\ Stay /\ Keep
  ELSE LET c == IF pc = "luafile" /\ e.out = "ok" THEN LuaClause(e, St) ELSE "ok" IN
       IF c # "ok" THEN verdict' = c /\ Stay /\ Keep
       ELSE /\ FileAttempt(e.out) /\ verdict' = "ok"
            /\ dataV' = IF e.out # "ok" THEN dataV ELSE IF pc = "luafile" THEN LuaData(e) ELSE e.content
            /\ UNCHANGED <<lidV, tokV, snV, dtypeV, nameV, urlV>>
Want == CASE last = "ok" -> "ok" [] last = "cloud_error" -> "cloud_error" [] last = "http_escapes" -> "other:HTTPStatusError" [] OTHER -> "?"
OnRet(e) ==
  /\ Stay /\ Keep
  /\ verdict' = IF pc # "idle" THEN "the call ended although the flow requires another request (gave up early / skipped a step): " \o pc
                ELSE IF e.r # Want THEN "outcome of the call differs: expected " \o Want \o ", got " \o e.r
                ELSE IF lastop \in {"lua", "plug"} /\ last = "ok" /\ e.name # nameV THEN "file name returned is not the one the server named"
                ELSE IF lastop \in {"lua", "plug"} /\ last = "ok" /\ e.data # dataV THEN "file contents returned are not the (decrypted) contents served"
                ELSE "ok"
TNext == /\ l <= Len(Traces[tid].events) /\ verdict = "ok"
         /\ LET e == Traces[tid].events[l] IN
            CASE e.ev = "call" -> OnCall(e) [] e.ev = "req" -> OnReq(e) [] e.ev = "get" -> OnGet(e) [] e.ev = "ret" -> OnRet(e)
         /\ l' = l + 1 /\ UNCHANGED tid
Done == l = Len(Traces[tid].events) + 1 \/ verdict # "ok"
Judge == Done => PrintT(<<"DONE", tid, IF verdict = "ok" THEN "ok" ELSE verdict \o " @event " \o ToString(l - 1)>>)
=======================================================================
