---------------------------- MODULE MC_ApaRefine_SmartHome ----------------------------
EXTENDS MC_SmartHome
A == INSTANCE Apa_SmartHomeFlow
StepRefines == [][A!SNext]_svars
InitRefines == A!SInit
=======================================================================
