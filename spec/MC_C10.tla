---------------------------- MODULE MC_C10 ----------------------------
(* In-model theorem for C10: the vendor-layout decoder is a left inverse of the library's    *)
(* packing on the settable domain (hence distinct states never share a body), and the body    *)
(* has the vendor shape with every unrelated feature neutral.                                 *)
EXTENDS AcCommand
VARIABLE s
Base == [beep |-> FALSE, power |-> TRUE, t2 |-> 48, mode |-> 2, fan |-> 102, swing |-> 0,
         follow |-> FALSE, turbo |-> FALSE, eco |-> FALSE, purifier |-> FALSE, aux |-> 0,
         sleep |-> FALSE, fahr |-> FALSE, hum |-> 40, freeze |-> FALSE]
SliceTemp == {[Base EXCEPT !.t2 = t, !.mode = m, !.fahr = f, !.turbo = f] : t \in 26..87, m \in 1..6, f \in BOOLEAN}
SliceFan == {[Base EXCEPT !.fan = x, !.mode = m, !.power = (m = 1)] : x \in 0..127, m \in {1, 5}}
SliceHum == {[Base EXCEPT !.hum = h, !.mode = m, !.t2 = 26 + Mod(h, 62)] : h \in 0..127, m \in {3, 6}}
SliceFlags == {[Base EXCEPT !.beep = a, !.power = b, !.follow = c, !.turbo = d, !.eco = e, !.purifier = f,
                            !.sleep = g, !.fahr = h, !.freeze = k, !.aux = x, !.swing = w] :
                 a \in BOOLEAN, b \in BOOLEAN, c \in BOOLEAN, d \in BOOLEAN, e \in BOOLEAN, f \in BOOLEAN,
                 g \in BOOLEAN, h \in BOOLEAN, k \in BOOLEAN, x \in 0..2, w \in {0, 3, 12, 15}}
Init == s \in SliceTemp \cup SliceFan \cup SliceHum \cup SliceFlags
Next == UNCHANGED s
RoundTrip == VendorDecode40(SetStateBody(s)) = Requested(s)
Shape == Vendor40Shape(SetStateBody(s)) /\ VendorNeutral(SetStateBody(s))
DeviceAccepts == LET f == CommandFrame(TypeControl, SetStateBody(s), Mod(s.fan + s.hum, 256))
                 IN WellFormedCommand(f) /\ CommandKind(f) = "set_state" /\ FBody(f) = SetStateBody(s)
=======================================================================
