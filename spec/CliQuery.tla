---------------------------- MODULE CliQuery ----------------------------
(* `msmart-ng query [--capabilities] [--token T --key K --id N] HOST` (cli._query over cli._connect,                 *)
(* AirConditioner.refresh / get_capabilities and LAN.send): the command as a small state machine with one step per    *)
(* exchange outcome.  Spec growth beyond the listed properties - the same Step function is                             *)
(*  (1) explored by TLC for every option set and every pattern of answered / unanswered transmissions (MC_CliQuery),  *)
(*  (2) folded over the answer pattern of a recorded run of the real command (Trace_CliQuery), which must then have    *)
(*      put exactly the model's requests on the wire, ended with the model's exit status and printed what the model    *)
(*      prints - the printed state being the vendor view (AcResponse!StateView) of what the unit reported.             *)
(* The query command reads: it never transmits a control (type 0x02) frame.                                            *)
(*                                                                                                                     *)
(* Named behaviour of the code that an idealised model would not have (observation O1 in DESIGN.md):                   *)
(*   OnlineOnlyByRefresh - `online` is assigned by refresh() alone; get_capabilities() leaves it as it was, so a       *)
(*   manual (non --auto) `query --capabilities` finds the freshly constructed object offline whatever the unit         *)
(*   answered, prints nothing and exits 1 (O1); and with --auto, after the refresh of Discover.connect succeeded, an    *)
(*   unanswered capability query still ends with exit 0 and prints the defaults as the unit's capabilities (O2).       *)
EXTENDS AcCaps
CONSTANT Retries                              \* transmissions per request (3 by default in Device._send_command)
Kinds == {"state", "caps0", "caps1"}
(* --capabilities; --token/--key given; the unit announces a second capability page; --auto (discovery + Discover.connect; credentials are ignored then) *)
Opts == {o \in [cap : BOOLEAN, creds : BOOLEAN, more : BOOLEAN, auto : BOOLEAN] : ~(o.auto /\ o.creds)}
Waits == Kinds \cup {"pre"}                                   \* pre: the refresh() Discover.connect performs on the discovered unit
ReqKind(pc) == IF pc = "pre" THEN "state" ELSE pc

Begin(s) == [s EXCEPT !.pc = IF s.opt.cap THEN "caps0" ELSE "state", !.left = Retries]
Done(s, code, what) == [s EXCEPT !.pc = "done", !.exitc = code, !.printed = what, !.left = 0]
S0(opt) == LET z == [opt |-> opt, pc |-> "auth", reqs |-> <<>>, left |-> 0, online |-> FALSE, exitc |-> -1, printed |-> "none", pages |-> 0]
           IN IF opt.auto THEN [z EXCEPT !.pc = "disc"] ELSE IF opt.creds THEN z ELSE Begin(z)
(* OnlineOnlyByRefresh: the capability branch consults a flag that only the state branch ever sets *)
CapsDone(s) == IF s.online THEN Done(s, 0, "caps") ELSE Done(s, 1, "none")
Answered(s) == CASE s.pc = "state" -> Done([s EXCEPT !.online = TRUE], 0, "state")
                 [] s.pc = "caps0" -> IF s.opt.more THEN [s EXCEPT !.pages = 1, !.pc = "caps1", !.left = Retries] ELSE CapsDone([s EXCEPT !.pages = 1])
                 [] s.pc = "caps1" -> CapsDone([s EXCEPT !.pages = 2])
                 [] s.pc = "pre" -> Begin([s EXCEPT !.online = TRUE])
GaveUp(s) == CASE s.pc = "state" -> Done([s EXCEPT !.online = FALSE], 1, "none")
               [] s.pc = "caps0" -> CapsDone(s)                        \* "Failed to query capabilities" is logged; what follows depends on `online` alone (O2)
               [] s.pc = "caps1" -> CapsDone(s)                        \* a lost second page is a warning only
               [] s.pc = "pre" -> Begin([s EXCEPT !.online = FALSE])   \* the discovered unit is handed over all the same
(* one step: the handshake outcome, or one transmission of the current request and whether the unit answered it *)
Step(s, ans) ==
  IF s.pc = "auth" THEN (IF ans THEN Begin(s) ELSE Done(s, 1, "none"))         \* AuthenticationError -> exit 1 before any request
  ELSE IF s.pc = "disc" THEN (IF ans THEN [s EXCEPT !.pc = "pre", !.left = Retries] ELSE Done(s, 1, "none"))      \* "Device not found."
  ELSE IF s.pc \in Waits THEN
       LET t == [s EXCEPT !.reqs = Append(@, ReqKind(s.pc))] IN
       IF ans THEN Answered(t) ELSE IF s.left = 1 THEN GaveUp(t) ELSE [t EXCEPT !.left = @ - 1]
  ELSE s
RECURSIVE Run(_, _)
Run(s, answers) == IF answers = <<>> \/ s.pc = "done" THEN s ELSE Run(Step(s, Head(answers)), Tail(answers))
Count(q, k) == Cardinality({j \in 1..Len(q) : q[j] = k})
=======================================================================
