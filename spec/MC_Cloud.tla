---------------------------- MODULE MC_Cloud ----------------------------
EXTENDS Cloud
E1(u) == [udpId |-> u]
MCLists == {<<>>} \cup {<<E1(a)>> : a \in 1..2} \cup {<<E1(a), E1(b)>> : a, b \in 1..3} \cup {<<E1(a), E1(b), E1(c)>> : a, b, c \in 1..3}
           \cup {<<E1(2), E1(3), E1(2), E1(1)>>, <<E1(1), E1(2), E1(3), E1(1)>>, <<E1(3), E1(2), E1(3), E1(2)>>}
AllOutcomes == {"ok", "timeout", "http", "api"}
SomeOutcomes == {"ok", "timeout", "api"}
TwoLists == {<<E1(2), E1(1)>>, <<E1(2)>>}
=======================================================================
