---------------------------- MODULE MC_LanSession ----------------------------
EXTENDS LanSession
HSAll == {"valid", "forged", "error", "garbage", "enc", "none"}
HSSome == {"valid", "forged", "none"}
DataAll == {"valid", "bad", "error", "garbage", "hsr", "none", "valid+unsolicited", "dup"}
DataNoise == DataAll \cup {"noise"}
DataNoiseSome == {"valid", "none", "noise", "bad"}
DataSome == {"valid", "bad", "none", "valid+unsolicited"}
HSValid == {"valid"}
DataValid == {"valid", "none"}
V2All == {"valid", "bad", "none", "valid+unsolicited", "dup"}
=======================================================================
