---------------------------- MODULE Gen_LanSession ----------------------------
(* spec -> code: LanSession run with a history variable.  hist records, per step, the observable   *)
(* events the model predicts (the first one is the environment/user action, a tx event carries the *)
(* reply class the device chose).  Every complete behaviour (all calls made, client idle) is        *)
(* printed as one JSON scenario; the harness replays it into the real LAN object with the          *)
(* controlled scheduler, and the recorded execution is validated against Trace_LanSession.          *)
EXTENDS MC_LanSession, Json
VARIABLE hist
GInit == Init /\ hist = <<>>
GNext == Next /\ hist' = Append(hist, evs')
Complete == pc = "Idle" /\ calls = MaxCalls
(* CONSTRAINT: print complete behaviours and do not extend them *)
GEmit == IF Complete THEN PrintT(<<"SCN", ToJson(hist)>>) /\ FALSE ELSE TRUE
(* V3 one-exchange behaviours: the first call is a clean authentication (so that send is callable), then everything is free *)
Canon == <<"call", "connok", "deliver", "timer">>
CleanAuthFirst ==
  \A k \in 1..Len(hist) : k <= 4 =>
      /\ hist[k][1].e = Canon[k]
      /\ (k = 1 => hist[k][1].op = "auth" /\ hist[k][1].cr = "good")
      /\ \A j \in 1..Len(hist[k]) : hist[k][j].e = "tx" => hist[k][j].reply = "valid"
(* C08 alphabet: no explicit authentication calls with bad credentials, no clock jumps *)
GNextC08 == /\ \/ CallSend \/ CallAuth("good")
               \/ ConnOK \/ ConnFail("refuse") \/ ConnFail("hang")
               \/ \E i \in 1..MaxFly : Deliver(i)
               \/ PeerClose
               \/ TimerRead \/ CancelRead \/ TimerAuth \/ CancelOther \/ TimerSleep
            /\ m' = MonSteps(m, evs') /\ hist' = Append(hist, evs')
=======================================================================
