---------------------------- MODULE MC_C11 ----------------------------
(* In-model checks for C11.                                                                   *)
(*  T: the documented temperature rule satisfies the three clauses for every raw byte, every  *)
(*     tenths digit 0..9, both units.                                                         *)
(*  S: the vendor-layout reader StateView inverts the device-side packing StateBody for every  *)
(*     setpoint x mode, every fan byte, every flag combination and every length 16..26.        *)
EXTENDS AcResponse
VARIABLES kind, raw, tenths, fahr, st, n
vars == <<kind, raw, tenths, fahr, st, n>>
Base == [power |-> TRUE, t2 |-> 48, mode |-> 2, fan |-> 102, swing |-> 0, follow |-> FALSE, turbo |-> FALSE,
         eco |-> FALSE, purifier |-> FALSE, aux |-> 0, sleep |-> FALSE, fahr |-> FALSE, hum |-> 40, freeze |-> FALSE,
         indoor |-> 95, outdoor |-> 255, filter |-> FALSE, display |-> TRUE, inTenths |-> 0, outTenths |-> 0]
SliceTemp == {[Base EXCEPT !.t2 = t, !.mode = m] : t \in 26..87, m \in 1..6}
SliceFan == {[Base EXCEPT !.fan = x] : x \in 0..255}
SliceHum == {[Base EXCEPT !.hum = h] : h \in 0..127}
SliceFlags == {[Base EXCEPT !.power = b, !.follow = c, !.turbo = d, !.eco = e, !.purifier = f,
                            !.sleep = g, !.fahr = h, !.freeze = k, !.aux = x, !.swing = w, !.filter = y, !.display = z] :
                 b \in BOOLEAN, c \in BOOLEAN, d \in BOOLEAN, e \in BOOLEAN, f \in BOOLEAN,
                 g \in BOOLEAN, h \in BOOLEAN, k \in BOOLEAN, x \in 0..2, w \in {0, 3, 12, 15}, y \in BOOLEAN, z \in BOOLEAN}
Init == \/ /\ kind = "T" /\ raw \in 0..255 /\ tenths \in 0..9 /\ fahr \in BOOLEAN /\ st = Base /\ n = 24
        \/ /\ kind = "S" /\ raw = 0 /\ tenths = 0 /\ fahr = FALSE
           /\ st \in SliceTemp \cup SliceFan \cup SliceHum \cup SliceFlags /\ n \in {16, 19, 20, 21, 22, 24, 26}
Next == UNCHANGED vars
TempClauses == kind = "T" =>
  LET t == ParseTemp10(raw, tenths, fahr) IN
  /\ TempUnknownIff(raw, t) /\ TempNearCoarse(raw, t) /\ TempTenthsExact(raw, tenths, fahr, t)
Expected(s, len) == [ power |-> s.power, t2 |-> s.t2, mode |-> s.mode, fan |-> s.fan, swing |-> s.swing, turbo |-> s.turbo,
                      follow |-> s.follow, aux |-> s.aux, eco |-> s.eco, purifier |-> s.purifier, sleep |-> s.sleep,
                      fahr |-> s.fahr, filter |-> s.filter, display |-> s.display,
                      hum |-> IF len >= 20 THEN Mod(s.hum, 128) ELSE None,
                      freeze |-> IF len >= 22 THEN B(s.freeze) ELSE None ]
LayoutInverse == kind = "S" => StateView(StateBody(st, n)) = Expected(st, n)
=======================================================================
