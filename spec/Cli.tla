---------------------------- MODULE Cli ----------------------------
(* `msmart-ng control <host> setting=value ...` (C20): the documented meaning of every setting=value pair.     *)
(* Command-line tokens are byte sequences; this module parses them (identifier / integer / decimal), looks the  *)
(* setting up in the documented catalogue (CliCatalogue.tla) and converts the value by the setting's kind:      *)
(*   enum      member name in any letter case, or a member's integer value                                       *)
(*   enumraw   as enum, plus any raw integer (fan speed)                                                         *)
(*   bool      True / False in any letter case, 1, 0                                                             *)
(*   int       integer or decimal (truncated)          float   integer or decimal (target temperature, halves)  *)
(*   display   bool; applied by a display TOGGLE, only when it differs from what the device reported             *)
(*   prop*     carried by the property protocol        local   option of the client object, nothing on the wire *)
(* Control(args) = reject (non-zero exit, nothing sent) if any pair is invalid, else                             *)
(*                 device' = the state the device reported, overridden by the pairs.                             *)
EXTENDS AcResponse, CliCatalogue, FiniteSets

Eq == 61   Dot == 46   Minus == 45
UpperC(c) == IF c >= 97 /\ c <= 122 THEN c - 32 ELSE c
LowerC(c) == IF c >= 65 /\ c <= 90 THEN c + 32 ELSE c
UpperS(s) == [k \in 1..Len(s) |-> UpperC(s[k])]
Capitalize(s) == [k \in 1..Len(s) |-> IF k = 1 THEN UpperC(s[k]) ELSE LowerC(s[k])]
IsDigit(c) == c >= 48 /\ c <= 57
AllDigits(s) == Len(s) > 0 /\ \A k \in 1..Len(s) : IsDigit(s[k])
RECURSIVE DecFrom(_, _, _)
DecFrom(s, k, acc) == IF k > Len(s) THEN acc ELSE DecFrom(s, k + 1, acc * 10 + (s[k] - 48))
Dec(s) == DecFrom(s, 1, 0)
RECURSIVE Idx(_, _, _)
Idx(s, c, k) == IF k > Len(s) THEN 0 ELSE IF s[k] = c THEN k ELSE Idx(s, c, k + 1)
Count(s, c) == Cardinality({k \in 1..Len(s) : s[k] = c})

(* decimal literal: digits [ "." digits ]   (no sign, no exponent: the documented spellings) *)
IsNum(s) == LET d == Idx(s, Dot, 1) IN
            IF d = 0 THEN AllDigits(s) /\ Len(s) <= 6
            ELSE AllDigits(Take(s, d - 1)) /\ AllDigits(Drop(s, d)) /\ d <= 7 /\ Len(s) - d <= 3
IntPart(s) == LET d == Idx(s, Dot, 1) IN IF d = 0 THEN Dec(s) ELSE Dec(Take(s, d - 1))
Frac(s) == LET d == Idx(s, Dot, 1) IN IF d = 0 THEN <<>> ELSE Drop(s, d)
FracZero(s) == \A k \in 1..Len(Frac(s)) : Frac(s)[k] = 48
Halves(s) == 2 * IntPart(s) + (IF Frac(s) # <<>> /\ Frac(s)[1] >= 53 THEN 1 ELSE 0)       \* x.0 / x.5 (the catalogue's decimals)
HalfExact(s) == Frac(s) = <<>> \/ FracZero(s) \/ (Frac(s)[1] = 53 /\ \A k \in 2..Len(Frac(s)) : Frac(s)[k] = 48)

Find(name) == IF \E j \in 1..Len(Settings) : Settings[j].n = name THEN CHOOSE j \in 1..Len(Settings) : Settings[j].n = name ELSE 0
Member(tbl, nameU) == IF \E j \in 1..Len(tbl) : tbl[j].m = nameU THEN CHOOSE j \in 1..Len(tbl) : tbl[j].m = nameU ELSE 0
HasValue(tbl, v) == \E j \in 1..Len(tbl) : tbl[j].v = v
TrueS == <<84, 114, 117, 101>>   FalseS == <<70, 97, 108, 115, 101>>

Bad == [ok |-> FALSE, v |-> 0]
Good(v) == [ok |-> TRUE, v |-> v]
Conv(st, tok) ==
  CASE st.k \in {"enum", "enumraw", "propenum"} ->
         IF IsNum(tok) THEN (IF ~FracZero(tok) THEN Bad
                             ELSE IF HasValue(st.tbl, IntPart(tok)) THEN Good(IntPart(tok))
                             ELSE IF st.k = "enumraw" THEN Good(IntPart(tok)) ELSE Bad)
         ELSE IF Member(st.tbl, UpperS(tok)) # 0 THEN Good(st.tbl[Member(st.tbl, UpperS(tok))].v) ELSE Bad
    [] st.k \in {"bool", "propbool", "display", "local"} ->
         IF Capitalize(tok) = TrueS \/ tok = <<49>> THEN Good(1) ELSE IF Capitalize(tok) = FalseS \/ tok = <<48>> THEN Good(0) ELSE Bad
    [] st.k = "int" -> IF IsNum(tok) THEN Good(IntPart(tok)) ELSE Bad
    [] st.k = "float" -> IF IsNum(tok) /\ HalfExact(tok) THEN Good(Halves(tok)) ELSE Bad

(* one command-line argument -> [ok, j (setting index), v] *)
Arg(a) == IF Count(a, Eq) # 1 THEN [ok |-> FALSE, j |-> 0, v |-> 0]
          ELSE LET e == Idx(a, Eq, 1) name == Take(a, e - 1) tok == Drop(a, e) j == Find(name) IN
               IF j = 0 THEN [ok |-> FALSE, j |-> 0, v |-> 0]
               ELSE [ok |-> Conv(Settings[j], tok).ok, j |-> j, v |-> Conv(Settings[j], tok).v]
AllValid(args) == \A k \in 1..Len(args) : Arg(args[k]).ok

(* the state the device must end up in: what it reported, overridden in command-line order *)
Override(s, j, v) ==
  LET f == Settings[j].f b == v # 0 IN
  CASE f = "mode" -> [s EXCEPT !.mode = v] [] f = "fan" -> [s EXCEPT !.fan = v] [] f = "swing" -> [s EXCEPT !.swing = v] [] f = "aux" -> [s EXCEPT !.aux = v]
    [] f = "t2" -> [s EXCEPT !.t2 = v] [] f = "hum" -> [s EXCEPT !.hum = v] [] f = "power" -> [s EXCEPT !.power = b] [] f = "eco" -> [s EXCEPT !.eco = b]
    [] f = "turbo" -> [s EXCEPT !.turbo = b] [] f = "sleep" -> [s EXCEPT !.sleep = b] [] f = "freeze" -> [s EXCEPT !.freeze = b]
    [] f = "follow" -> [s EXCEPT !.follow = b] [] f = "purifier" -> [s EXCEPT !.purifier = b] [] f = "fahr" -> [s EXCEPT !.fahr = b]
    [] f = "display" -> [s EXCEPT !.display = b]
    [] OTHER -> s
RECURSIVE Expected(_, _, _)
Expected(s, args, k) == IF k > Len(args) THEN s ELSE Expected(Override(s, Arg(args[k]).j, Arg(args[k]).v), args, k + 1)
Given(args, f) == \E k \in 1..Len(args) : Settings[Arg(args[k]).j].f = f
LastVal(args, f) == Arg(args[CHOOSE k \in 1..Len(args) : Settings[Arg(args[k]).j].f = f /\ \A i \in (k + 1)..Len(args) : Settings[Arg(args[i]).j].f # f]).v
OnlyDisplay(args) == \A k \in 1..Len(args) : Settings[Arg(args[k]).j].k = "display"
(* property-protocol writes the command line asks for: id -> raw value (at most one breeze setting per command line is in the catalogue's scope) *)
PropId(f) == CASE f = "lr" -> PropSwingLR [] f = "ud" -> PropSwingUD [] f = "rate" -> PropRateSelect [] f = "away" -> PropBreezeAway
               [] f = "mild" -> PropBreezeControl [] f = "less" -> PropBreezeless [] f = "ieco" -> PropIeco
PropRaw(f, v) == CASE f = "away" -> IF v # 0 THEN 2 ELSE 1 [] f = "mild" -> IF v # 0 THEN 3 ELSE 1 [] OTHER -> v
(* ... when the client has learned (--capabilities) that the unit has the combined breeze control, every breeze setting goes to that one register *)
PropIdC(f, ctl) == IF ctl /\ f \in {"away", "mild", "less"} THEN PropBreezeControl ELSE PropId(f)
PropRawC(f, v, ctl) == IF ctl /\ f = "less" THEN (IF v # 0 THEN 4 ELSE 1) ELSE PropRaw(f, v)
PropFields == {"lr", "ud", "rate", "away", "mild", "less", "ieco"}
WantedProps(args) == {f \in PropFields : Given(args, f)}
=======================================================================
