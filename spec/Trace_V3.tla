---------------------------- MODULE Trace_V3 ----------------------------
(* code -> spec for the V3 encrypted packet codec (C05, part of C09).  Vector kinds:               *)
(*  "encreq" : packet produced by the library for (payload, counter, key)      -> EncPacketClause  *)
(*  "decresp": response built by the independent implementation (validated here), library result  *)
(*  "mutant" : authentic response (validated), altered copy q, result of the library's read path   *)
(*             (_process_packet then V2 decode of what it returns); o2 = V2 oracle of that payload  *)
EXTENDS LanV3Packet, Json, IOUtils
V2 == INSTANCE LanV2Packet
Vectors == JsonDeserialize(IOEnv.TRACE_FILE)
VARIABLE i
Init == i \in 1..Len(Vectors)
Next == UNCHANGED i
Match(want, res) ==
  IF want.k = "harness" THEN "harness: " \o want.why
  ELSE IF want.k = "frame" THEN
       (IF res.k # "frame" THEN "authentic packet not decoded: raised " \o res.exc
        ELSE IF res.f # want.f THEN "decoded payload differs from the payload sent" ELSE "ok")
  ELSE IF res.k = "frame" THEN "unacceptable packet (" \o want.why \o ") was decoded"
  ELSE IF res.exc # "ProtocolError" THEN "unacceptable packet (" \o want.why \o ") raised " \o res.exc \o " instead of a protocol error"
  ELSE "ok"
(* the read path: V3 decode, then the V2 packet inside *)
ReadPath(q, o, o2) ==
  LET r == V3Decode(q, TRUE, o) IN
  IF r.k \in {"err", "harness"} THEN r
  ELSE V2!V2Decode(IF r.k = "frame" THEN r.f ELSE r.data, o2)
Verdict(v) ==
  CASE v.kind = "encreq" ->
         (IF v.res.k # "frame" THEN "encode raised " \o v.res.exc
          ELSE EncPacketClause(v.res.f, v.payload, v.ctr, TypeEncRequest, v.o))
    [] v.kind = "decresp" ->
         LET c == EncPacketClause(v.p, v.payload, v.ctr, TypeEncResponse, v.o) IN
         IF c # "ok" THEN "harness: reference response invalid: " \o c
         ELSE Match(V3Decode(v.p, TRUE, v.o), v.res)
    [] v.kind = "mutant" ->
         LET c == EncPacketClause(v.orig, v.payload, v.ctr, TypeEncResponse, v.oo) IN
         IF c # "ok" THEN "harness: original response invalid: " \o c
         ELSE IF v.q = v.orig THEN "harness: not a mutation"
         ELSE LET w1 == V3Decode(v.q, TRUE, v.o) IN
              IF w1.k = "frame" THEN "harness: altered packet is acceptable to the reference"
              ELSE IF w1.k = "handshake" THEN
                   (* type nibble altered to "handshake response": unauthenticated at this layer by design; the read path must
                      still reject it when the V2 layer looks at its data *)
                   LET w2 == V2!V2Decode(w1.data, v.o2) IN
                   IF w2.k = "frame" THEN "harness: altered packet is acceptable to the reference" ELSE Match(w2, v.res2)
              ELSE Match(w1, v.res)
    [] v.kind = "raw" -> Match(V3Decode(v.q, v.haskey, v.o), v.res)
    [] v.kind = "hsreq" -> HSRequestClause(v.pkt, v.token, v.ctr)
Judge == LET r == Verdict(Vectors[i]) IN IF r = "ok" THEN TRUE ELSE PrintT(<<"REJECT", i, r>>)
=======================================================================
