---------------------------- MODULE Trace_LanSession ----------------------------
(* code -> spec: an execution of the real LAN object, recorded by the controlled scheduler as one   *)
(* group of observable events per environment action, must be a behaviour of LanSession: for every  *)
(* group some LanSession step has to publish exactly these events.  The property monitor is folded  *)
(* along (m), so every C06-C09 clause is also evaluated in every state of the matched behaviour.    *)
EXTENDS MC_LanSession, Json, IOUtils
Traces == JsonDeserialize(IOEnv.TRACE_FILE)
VARIABLES tid, l
TInit == tid \in 1..Len(Traces) /\ l = 1 /\ Init
TNext == /\ l <= Len(Traces[tid].steps) /\ m.bad = {}
         /\ Step /\ evs' = Traces[tid].steps[l]
         /\ m' = MonSteps(m, evs') /\ l' = l + 1 /\ UNCHANGED tid
Done == l = Len(Traces[tid].steps) + 1 \/ m.bad # {}
Judge == /\ PrintT(<<"AT", tid, l>>)
         /\ Done => PrintT(<<"DONE", tid, IF m.bad = {} THEN "ok" ELSE (LET x == CHOOSE y \in m.bad : TRUE IN x[1] \o ": " \o x[2]) \o " @step " \o ToString(l - 1)>>)
=======================================================================
