---------------------------- MODULE MC_C15 ----------------------------
(* In-model check for C15 on all lists of <= 3 records over a reduced alphabet (known ids with   *)
(* representative values, unknown id, known id without reader, size 0, odd sizes, undersized and  *)
(* full temperature records): byte-level walk = per-record interpretation merged in order, the    *)
(* result is invariant under every split into a first and an additional response, and the        *)
(* additional flag is read back.                                                                  *)
EXTENDS AcCaps
VARIABLES l, more
Recs == {[id |-> i, data |-> d] : i \in {532, 530, 528, 999, 75}, d \in {<<>>, <<0>>, <<1>>, <<9>>, <<1, 7>>}}
        \cup {[id |-> 549, data |-> d] : d \in {<<>>, <<34, 60, 32>>, <<34, 60, 32, 58, 30>>, <<34, 60, 32, 58, 30, 56>>,
                                                <<34, 60, 32, 58, 30, 56, 0>>, <<32, 62, 34, 60, 34, 60, 1, 9, 9, 9>>}}
Lists == {<<>>} \cup {<<a>> : a \in Recs} \cup {<<a, b>> : a \in Recs, b \in Recs}
Init == /\ more \in BOOLEAN
        /\ \/ l \in Lists
           \/ \E a \in Recs, b \in Recs, c \in {r \in Recs : r.id \in {532, 549, 999}} : l = <<a, b, c>>
Next == UNCHANGED <<l, more>>
WalkOK == RecordsOf(CapsBody(l, more)) = l
ParseIsMergeOfSingles == ParseCaps(CapsBody(l, more)) = MergeAll(InterpAll(l))
FlagOK == AdditionalFlag(CapsBody(l, more)) = more
SplitInvariant == \A k \in 0..Len(l) :
   Merge(ParseCaps(CapsBody(Take(l, k), TRUE)), ParseCaps(CapsBody(Drop(l, k), FALSE))) = ParseCaps(CapsBody(l, FALSE))
SinglesIndependent == \A k \in 1..Len(l) : Interp(l[k]) = ParseCaps(CapsBody(<<l[k]>>, FALSE))
=======================================================================
