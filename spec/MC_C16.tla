---------------------------- MODULE MC_C16 ----------------------------
(* Bounded instance of AcDevice for TLC: all histories of setter / apply / refresh / get_capabilities /  *)
(* start_self_clean calls over reduced value sets, one capability profile per run.                       *)
EXTENDS AcDevice
MCAngles == {0, 25}
MCRates == {100, 50, 20}
Modern == {PCTL, PLESS, PIECO, PRATE, PLR, PUD, PCLEAN}
LegacyBoth == {PAWAY, PLESS}
LegacyAway == {PAWAY, PRATE}
LegacyLess == {PLESS, PIECO, PLR}
NoProps == {}
CtlWithLegacy == {PCTL, PAWAY, PLESS, PRATE}
Spec == DInit /\ [][DNext]_dvars
Depth == TLCGet("level") <= MaxDepth
=======================================================================
