---------------------------- MODULE Trace_C16 ----------------------------
(* code -> spec: a history of public calls on a real AirConditioner against the simulated appliance.       *)
(* Every event names the call and logs what the device received during it (0xB0 / 0xB1 frames), the public  *)
(* attributes afterwards and the device's registers.  The AcDevice action of that call is taken and its      *)
(* predictions are compared with the log; the first difference is the verdict.                               *)
EXTENDS MC_C16, Json, IOUtils
Traces == JsonDeserialize(IOEnv.TRACE_FILE)
VARIABLES tid, l, verdict

Act(e) == CASE e.a = "away" -> SetBreezeAway(e.v # 0) [] e.a = "mild" -> SetBreezeMild(e.v # 0) [] e.a = "less" -> SetBreezeless(e.v # 0)
            [] e.a = "ieco" -> SetIeco(e.v # 0) [] e.a = "beep" -> SetBeep(e.v # 0)
            [] e.a = "rate" -> SetRate(e.v) [] e.a = "lr" -> SetLR(e.v) [] e.a = "ud" -> SetUD(e.v)
            [] e.a = "apply" -> Apply [] e.a = "refresh" -> Refresh [] e.a = "caps" -> GetCaps [] e.a = "selfclean" -> StartSelfClean [] e.a = "cleandone" -> CleanDone [] e.a = "caps1" -> GetCapsPage1

(* bytes of a property value on the wire, from the raw register value of AcDevice!Enc (vendor layout: iECO = frame 0, number 1, switch, 10 zeros) *)
RawBytes(id, raw) == IF id = PIECO THEN <<0, 1, raw>> \o Zeros(10) ELSE <<raw>>
ToSet(s) == {s[k] : k \in 1..Len(s)}
(* the 0xB0 frame(s) the device received vs. the write the model predicts *)
B0Clause(e, o) ==
  IF ~o.sent THEN (IF Len(e.b0) = 0 THEN "ok" ELSE "a property write was sent although no property had changed")
  ELSE IF Len(e.b0) = 0 THEN "changed properties were not written by this apply"
  ELSE IF Len(e.b0) > 1 THEN "changed properties were written more than once"
  ELSE LET f == e.b0[1] IN
       IF ~WellFormedCommand(f) \/ FType(f) # TypeControl THEN "property write is not a well-formed control frame"
       ELSE LET b == FBody(f)
                ws == ParseWrites(Drop(b, 2), b[2])
                ids == {ws[k].id : k \in 1..Len(ws)}
            IN IF b[1] # 176 \/ Len(ws) # b[2] THEN "property write body malformed"
               ELSE IF Len(ws) # Cardinality(ids) THEN "a property id occurs twice in one write"
               ELSE IF ids # DOMAIN o.w \cup {PBUZZ} THEN "property ids written differ from the ids changed since the last apply (plus buzzer)"
               ELSE IF \E k \in 1..Len(ws) : ws[k].id # PBUZZ /\ ws[k].val # RawBytes(ws[k].id, o.w[ws[k].id])
                    THEN "value encoding differs from the vendor encoding"
               ELSE IF \E k \in 1..Len(ws) : ws[k].id = PBUZZ /\ ws[k].val # <<o.buzz>> THEN "buzzer value differs from the beep setting"
               ELSE "ok"
B1Clause(e, o) ==
  IF ~o.sent THEN (IF Len(e.b1) = 0 THEN "ok" ELSE "a property query was sent although no property is known to be supported")
  ELSE IF Len(e.b1) # 1 THEN "refresh did not send exactly one property query"
  ELSE LET f == e.b1[1] IN
       IF ~WellFormedCommand(f) \/ FType(f) # TypeQuery THEN "property query is not a well-formed query frame"
       ELSE LET b == FBody(f) ids == ParseIds(Drop(b, 2), b[2]) IN
            IF Len(ids) # b[2] \/ Len(b) # 2 + 2 * b[2] THEN "property query body malformed"
            ELSE IF ToSet(ids) # o.ids \/ Len(ids) # Cardinality(o.ids) THEN "queried ids differ from the advertised ids"
            ELSE "ok"
AttrClause(e, a) ==
  IF e.nbreeze > 1 THEN "more than one breeze mode reported active"
  ELSE IF e.attrs.breeze # a.breeze THEN "breeze mode differs (" \o e.a \o ")"
  ELSE IF e.attrs.ieco # a.ieco THEN "ieco differs (" \o e.a \o ")"
  ELSE IF e.attrs.rate # a.rate THEN "rate select differs (" \o e.a \o ")"
  ELSE IF e.attrs.lr # a.lr THEN "horizontal swing angle differs (" \o e.a \o ")"
  ELSE IF e.attrs.ud # a.ud THEN "vertical swing angle differs (" \o e.a \o ")"
  ELSE IF e.attrs.clean # a.clean THEN "self clean differs (" \o e.a \o ")"
  ELSE "ok"
SupClause(e, s) ==
  IF e.a \notin {"caps", "caps1"} THEN "ok"
  ELSE IF e.sup.away # (PAWAY \in s \/ PCTL \in s) \/ e.sup.mild # (PCTL \in s) \/ e.sup.less # (PLESS \in s \/ PCTL \in s)
          \/ e.sup.ieco # (PIECO \in s) \/ e.sup.lr # (PLR \in s) \/ e.sup.ud # (PUD \in s) \/ e.sup.clean # (PCLEAN \in s)
       THEN "supports_* flags differ from the advertised capabilities" ELSE "ok"
RegClause(e, r) ==
  IF \E k \in 1..Len(e.regs) : e.regs[k][1] \notin DOMAIN r \/ r[e.regs[k][1]] # e.regs[k][2] THEN "harness: simulated device registers differ from the model device"
  ELSE IF Len(e.regs) # Cardinality(DOMAIN r) THEN "harness: simulated device has other registers than the profile" ELSE "ok"
First(cs) == IF \A k \in 1..Len(cs) : cs[k] = "ok" THEN "ok" ELSE cs[CHOOSE k \in 1..Len(cs) : cs[k] # "ok" /\ \A j \in 1..(k - 1) : cs[j] = "ok"]

TInit == tid \in 1..Len(Traces) /\ l = 1 /\ verdict = "ok" /\ DInit
TNext == /\ l <= Len(Traces[tid].events) /\ verdict = "ok"
         /\ LET e == Traces[tid].events[l] IN
            /\ Act(e)
            /\ verdict' = First(<<B0Clause(e, out'.b0), B1Clause(e, out'.b1), RegClause(e, reg'), AttrClause(e, attr'), SupClause(e, sup'),
                                  IF rb' THEN "ok" ELSE "a written property did not read back equal on the next refresh">>)
         /\ l' = l + 1 /\ UNCHANGED tid
Done == l = Len(Traces[tid].events) + 1 \/ verdict # "ok"
Judge == Done => PrintT(<<"DONE", tid, IF verdict = "ok" THEN "ok" ELSE verdict \o " @event " \o ToString(l - 1)>>)
=======================================================================
