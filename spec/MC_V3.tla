---------------------------- MODULE MC_V3 ----------------------------
(* In-model checks of the V3 encrypted packet layer with a model cipher and tag (real primitives  *)
(* uninterpreted).  RT (C05): every payload length 0..300 (all 16 pad residues, pad 0 included)    *)
(* and counters at the edges: EncPacketClause holds for the encoder's packet and V3Decode returns  *)
(* exactly the payload.  TM: every single-bit flip of header, ciphertext and tag of authentic      *)
(* responses is an error for the read path.                                                        *)
EXTENDS LanV3Packet
CONSTANT Full
VARIABLES mode, n, ctr, pos, bit
vars == <<mode, n, ctr, pos, bit>>
ModelEnc(s) == [k \in 1..Len(s) |-> Mod(s[k] + 77, 256)]
ModelDec(s) == [k \in 1..Len(s) |-> Mod(s[k] + 179, 256)]
ModelSha(x) == <<Crc8(x), Mod(Sum(x), 256), Mod(Len(x), 256), Mod(Len(x) \div 256, 256)>> \o Zeros(28)
PayloadOf(k) == [j \in 1..k |-> Mod(j * 11 + k, 256)]
Encode(payload, c, typ) ==
  LET h == EncHeader(Len(payload), typ)
      pt == BE(c, 2) \o payload \o Rep(165, Pad(Len(payload)))
  IN h \o ModelEnc(pt) \o ModelSha(h \o pt)
OracleFor(q) ==
  LET ct == Slice(q, 7, Len(q) - 32)  pt == ModelDec(ct) IN
  [cbc_ct |-> ct, cbc_pt |-> pt, sha_in |-> Take(q, 6) \o pt, sha_out |-> ModelSha(Take(q, 6) \o pt)]
Init == \/ /\ mode = "RT" /\ pos = 0 /\ bit = 0
           /\ IF Full THEN n \in 0..300 /\ ctr \in {0, 1, 255, 256, 4095, 4096, 65535}
              ELSE n \in (0..40) \cup (290..300) /\ ctr \in {0, 4095, 65535}
        \/ /\ mode = "TM" /\ n \in (IF Full THEN {0, 13, 14, 15, 30} ELSE {14}) /\ ctr = 7
           /\ pos \in 1..(6 + n + 2 + Pad(n) + 32) /\ bit \in 0..7
Next == UNCHANGED vars
P == Encode(PayloadOf(n), ctr, IF mode = "RT" THEN TypeEncRequest ELSE TypeEncResponse)
R == Encode(PayloadOf(n), ctr, TypeEncResponse)
RoundTrip == mode = "RT" =>
   /\ EncPacketClause(P, PayloadOf(n), ctr, TypeEncRequest, OracleFor(P)) = "ok"
   /\ V3Decode(R, TRUE, OracleFor(R)) = [k |-> "frame", f |-> PayloadOf(n)]
   /\ Mod(Len(P) - 38, 16) = 0 /\ Len(P) = BEVal(Slice(P, 3, 4)) + 8
Flip(b, k) == IF Bit(b, k) = 1 THEN b - 2 ^ k ELSE b + 2 ^ k
Q == [R EXCEPT ![pos] = Flip(R[pos], bit)]
(* a flipped type nibble may turn the packet into an (unauthenticated) handshake response: the read *)
(* path then hands its data to the V2 decoder, which rejects anything not starting with 5A 5A        *)
Tamper == mode = "TM" =>
   LET r == V3Decode(Q, TRUE, OracleFor(Q)) IN
   r.k = "err" \/ (r.k = "handshake" /\ Take(r.data, 2) # <<90, 90>>)
=======================================================================
