---------------------------- MODULE Apa_CloudFlow ----------------------------
(* Apalache instance of the NetHome Plus flow (Part 2 of Cloud.tla) for an UNBOUNDED number of calls: the call counter is dropped and the  *)
(* token list is abstracted to the index of its first matching entry (0 = none), chosen per getToken call.  TLC checks that every step  *)
(* of Cloud!CNext is a step of this CNext under that abstraction (MC_ApaRefine_Cloud), so the invariants proved inductively here hold   *)
(* in Cloud.tla for any number of calls and any token list.                                                                            *)
EXTENDS Integers
Retries == 3
Outcomes == {"ok", "timeout", "http", "api"}
MaxIdx == 4
VARIABLES
  \* @type: Str;
  pc,
  \* @type: Str;
  op,
  \* @type: Bool;
  haveLid,
  \* @type: Bool;
  haveSess,
  \* @type: Int;
  left,
  \* @type: Int;
  att,
  \* @type: Str;
  last,
  \* @type: Int;
  got,
  \* @type: Int;
  midx,
  \* @type: Str;
  lastop
avars == <<pc, op, haveLid, haveSess, left, att, last, got, midx, lastop>>
CInit == /\ pc = "idle" /\ op = "none" /\ haveLid = FALSE /\ haveSess = FALSE /\ left = 0 /\ att = 0 /\ last = "none" /\ got = 0 /\ midx = 0 /\ lastop = "none"
CallLogin ==
  /\ pc = "idle" /\ got' = 0 /\ UNCHANGED <<haveLid, haveSess, midx>>
  /\ \/ /\ haveSess /\ last' = "ok" /\ lastop' = "login" /\ op' = "none" /\ UNCHANGED <<pc, left, att>>
     \/ /\ ~haveSess /\ op' = "login" /\ last' = "none" /\ UNCHANGED lastop /\ pc' = (IF haveLid THEN "login" ELSE "lid") /\ left' = Retries /\ att' = 0
CallTok(m) == /\ pc = "idle" /\ got' = 0 /\ op' = "tok" /\ last' = "none" /\ midx' = m /\ pc' = "tok" /\ left' = Retries /\ att' = 0
              /\ UNCHANGED <<haveLid, haveSess, lastop>>
Fail == /\ pc' = "idle" /\ op' = "none" /\ last' = "cloud_error" /\ lastop' = op /\ left' = 0 /\ UNCHANGED <<haveLid, haveSess, got, midx>>
Attempt(out) ==
  /\ pc # "idle" /\ out \in Outcomes
  /\ \/ /\ out = "timeout" /\ left > 1 /\ att' = att + 1 /\ left' = left - 1 /\ UNCHANGED <<pc, op, haveLid, haveSess, last, got, midx, lastop>>
     \/ /\ out = "timeout" /\ left <= 1 /\ att' = att + 1 /\ Fail
     \/ /\ out \in {"http", "api"} /\ att' = att + 1 /\ Fail
     \/ /\ out = "ok" /\ pc = "lid" /\ haveLid' = TRUE /\ pc' = "login" /\ left' = Retries /\ att' = 0 /\ UNCHANGED <<op, haveSess, last, got, midx, lastop>>
     \/ /\ out = "ok" /\ pc = "login" /\ att' = att + 1 /\ haveSess' = TRUE /\ pc' = "idle" /\ op' = "none" /\ last' = "ok" /\ lastop' = "login" /\ left' = 0
        /\ UNCHANGED <<haveLid, got, midx>>
     \/ /\ out = "ok" /\ pc = "tok" /\ att' = att + 1 /\ got' = midx /\ pc' = "idle" /\ op' = "none" /\ left' = 0 /\ lastop' = "tok"
        /\ last' = (IF midx = 0 THEN "cloud_error" ELSE "ok") /\ UNCHANGED <<haveLid, haveSess, midx>>
CNext == CallLogin \/ (\E m \in 0..MaxIdx : CallTok(m)) \/ \E out \in Outcomes : Attempt(out)
Budget == att <= Retries
AbsentIsError == (pc = "idle" /\ lastop = "tok" /\ last = "ok") => got # 0
OnlyMatching == got # 0 => got = midx
IndInv ==
  /\ haveLid \in BOOLEAN /\ haveSess \in BOOLEAN
  /\ pc \in {"idle", "lid", "login", "tok"} /\ op \in {"none", "login", "tok"}
  /\ last \in {"none", "ok", "cloud_error"} /\ lastop \in {"none", "login", "tok"}
  /\ left \in 0..Retries /\ att \in 0..Retries /\ got \in 0..MaxIdx /\ midx \in 0..MaxIdx
  /\ (pc # "idle" => left >= 1 /\ att + left = Retries /\ got = 0 /\ last = "none")
  /\ (pc = "login" => haveLid) /\ (haveSess => haveLid)
  /\ (pc = "idle" <=> op = "none")
  /\ (pc \in {"lid", "login"} => op = "login") /\ (pc = "tok" => op = "tok")
  /\ (got # 0 => got = midx)
  /\ ((pc = "idle" /\ lastop = "tok" /\ last = "ok") => got # 0)
Safety == Budget /\ AbsentIsError /\ OnlyMatching
=======================================================================
