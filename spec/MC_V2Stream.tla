---------------------------- MODULE MC_V2Stream ----------------------------
(* every stream of 1..MaxPackets junk-free packets (lengths 6..9, fill bytes that imitate the marker), EVERY segmentation *)
EXTENDS V2Stream
CONSTANT MaxPackets
Pkt(fill) == <<90, 90, 1, 17>> \o LE(6 + Len(fill), 2) \o fill
FillSet == {<<>>, <<90>>, <<0, 90>>, <<90, 90, 6>>, <<90, 90, 1>>}
Part == {[g |-> <<>>, p |-> Pkt(f)] : f \in FillSet}
MCInit == /\ \E k \in 1..MaxPackets : parts \in [1..k -> Part]
          /\ stream = Concat(parts) /\ pos = 0 /\ buffer = <<>> /\ queue = <<>>
AllDeliveredAtEnd == pos = Len(stream) => Len(queue) = Len(parts) /\ buffer = <<>>
=======================================================================
