---------------------------- MODULE Trace_C01 ----------------------------
(* code -> spec, whole stack: client A applies a state to the simulated appliance over real V2/V3 framing, a   *)
(* fresh client B refreshes; the appliance's byte stream is cut into arbitrary TCP segments and padded with      *)
(* unsolicited / duplicated frames.  TLC judges every step with the vendor layouts (AcCommand / AcResponse):     *)
(* what the device received = what the user requested, what B reports = what the device holds = the request.    *)
EXTENDS AcResponse, Json, IOUtils
Vectors == JsonDeserialize(IOEnv.TRACE_FILE)
VARIABLE i
Init == i \in 1..Len(Vectors)
Next == UNCHANGED i

Settable(a) == [ power |-> a.power, t2 |-> a.t2, mode |-> a.mode, fan |-> a.fan, swing |-> a.swing, follow |-> a.follow, turbo |-> a.turbo,
                 eco |-> a.eco, purifier |-> a.purifier, aux |-> a.aux, sleep |-> a.sleep, fahr |-> a.fahr, hum |-> a.hum,
                 freeze |-> a.freeze, display |-> a.display ]
WantView(w) == [ power |-> w.power, t2 |-> w.t2, mode |-> w.mode, fan |-> w.fan, swing |-> w.swing, follow |-> w.follow, turbo |-> w.turbo,
                 eco |-> w.eco, purifier |-> w.purifier, aux |-> w.aux, sleep |-> w.sleep, fahr |-> w.fahr, hum |-> w.hum,
                 freeze |-> B(w.freeze), display |-> w.display ]
FrameView(f) == LET p == Take(FPayload(f), Len(FPayload(f)) - 1) v == StateView(p) IN
                [ power |-> v.power, t2 |-> v.t2, mode |-> v.mode, fan |-> v.fan, swing |-> v.swing, follow |-> v.follow, turbo |-> v.turbo,
                  eco |-> v.eco, purifier |-> v.purifier, aux |-> v.aux, sleep |-> v.sleep, fahr |-> v.fahr, hum |-> v.hum,
                  freeze |-> v.freeze, display |-> v.display ]
IsStateFrame(f) == Len(f) >= 13 + StateMinLen /\ f[11] = 192
FirstDiff(x, y) == CHOOSE k \in DOMAIN x : x[k] # y[k]
(* the last state frame of a sequence of frames (0 if none) *)
LastState(fs) == IF \E k \in 1..Len(fs) : IsStateFrame(fs[k]) THEN CHOOSE k \in 1..Len(fs) : IsStateFrame(fs[k]) /\ \A j \in (k + 1)..Len(fs) : ~IsStateFrame(fs[j]) ELSE 0

Verdict(v) ==
  LET w == v.want IN
  IF ~SettableDomain(w) THEN "harness: requested state outside the property's domain"
  ELSE IF v.raised # "" THEN "an operation raised " \o v.raised
  ELSE IF Len(v.apply_rx) = 0 THEN "apply: no state command reached the device"
  ELSE IF \E k \in 1..Len(v.apply_rx) : v.apply_rx[k] # v.apply_rx[1] THEN "apply: different state commands reached the device"
  ELSE LET f == v.apply_rx[1] IN
       IF ~WellFormedCommand(f) \/ FType(f) # TypeControl THEN "apply: command frame not well-formed"
       ELSE LET b == FBody(f) IN
            IF Len(b) # 24 \/ ~Vendor40Shape(b) \/ ~VendorNeutral(b) THEN "apply: 0x40 body shape"
            ELSE IF VendorDecode40(b) # Requested(w) THEN "apply: the device received a state other than the requested one"
            ELSE IF Settable(v.dev_after) # WantView(w) THEN "the device did not end up in the applied state: " \o FirstDiff(Settable(v.dev_after), WantView(w))
            ELSE IF Settable(v.attrs_a) # WantView(w) THEN "client A does not report the applied state after apply: " \o FirstDiff(Settable(v.attrs_a), WantView(w))
            ELSE IF ~v.online THEN "refresh: fresh client reports the device offline"
            ELSE LET k == LastState(v.tx) IN
                 IF k = 0 THEN "harness: the device sent no state frame"
                 ELSE IF FrameView(v.tx[k]) # WantView(w) THEN "harness: the device's state report differs from its state"
                 ELSE IF Settable(v.attrs_b) # FrameView(v.tx[k]) THEN "refresh: fresh client reports something else than the device's last state report: " \o FirstDiff(Settable(v.attrs_b), FrameView(v.tx[k]))
                 ELSE IF Settable(v.attrs_b) # WantView(w) THEN "refresh: fresh client does not report the applied state"
                 ELSE "ok"
Judge == LET r == Verdict(Vectors[i]) IN IF r = "ok" THEN TRUE ELSE PrintT(<<"REJECT", i, r>>)
=======================================================================
