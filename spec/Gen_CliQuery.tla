---------------------------- MODULE Gen_CliQuery ----------------------------
(* spec -> code: every complete behaviour of the query command (options + answer pattern) as one scenario *)
EXTENDS MC_CliQuery, Json
GEmit == IF s.pc = "done" THEN PrintT(<<"SCN", ToJson([cap |-> s.opt.cap, creds |-> s.opt.creds, more |-> s.opt.more, auto |-> s.opt.auto, answers |-> hist])>>) ELSE TRUE
=======================================================================
