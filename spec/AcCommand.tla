---------------------------- MODULE AcCommand ----------------------------
(* Bodies of every command the library can emit, and the vendor's view of them. *)
(* Index convention: body[k+1] here is bodyBytes[k] of the vendor Lua /          *)
(* payload[k] of the Python code.                                                *)
EXTENDS AcFrame

(* ------------------------------------------------------------------------ *)
(* Query commands                                                             *)
(* ------------------------------------------------------------------------ *)
GetStateBody == <<65, 129, 0, 255, 3, 255, 0, 2>> \o Zeros(12) \o <<3>>          \* 0x41 0x81 ...
GetEnergyBody == <<65, 33, 1, 68>> \o Zeros(16)                                  \* 0x41 0x21 0x01 0x44
GetHumidityBody == <<65, 33, 1, 69>> \o Zeros(16)
GetCapsBody(additional) == IF additional THEN <<181, 1, 1, 1>> ELSE <<181, 1, 0>>
ToggleDisplayBody(beep) == <<65, 2 + 64 * B(beep), 0, 255, 2, 0, 2>> \o Zeros(14)

(* property ids *)
PropSwingUD == 9      PropSwingLR == 10     PropHumidity == 21   PropBreezeless == 24
PropBuzzer == 26      PropSelfClean == 57   PropBreezeAway == 66 PropBreezeControl == 67
PropRateSelect == 72  PropFreshAir == 75    PropIeco == 227      PropAnion == 542
SupportedProps == {PropSwingUD, PropSwingLR, PropBreezeless, PropBuzzer, PropSelfClean,
                   PropBreezeAway, PropBreezeControl, PropRateSelect, PropIeco}

GetPropsBody(ids) ==            \* ids : sequence of property ids
  LET RECURSIVE Ids(_)
      Ids(k) == IF k > Len(ids) THEN <<>> ELSE LE(ids[k], 2) \o Ids(k + 1)
  IN <<177, Len(ids)>> \o Ids(1)

(* vendor value encoding of a property write: v is a byte (booleans as 0/1) *)
PropValueBytes(id, v) ==
  IF id = PropBreezeAway THEN <<IF v # 0 THEN 2 ELSE 1>>
  ELSE IF id = PropIeco THEN <<0, 1, v>> \o Zeros(10)
  ELSE <<v>>

SetPropsBody(props) ==          \* props : sequence of [id, v]
  LET RECURSIVE Ps(_)
      Ps(k) == IF k > Len(props) THEN <<>>
               ELSE LET val == PropValueBytes(props[k].id, props[k].v)
                    IN LE(props[k].id, 2) \o <<Len(val)>> \o val \o Ps(k + 1)
  IN <<176, Len(props)>> \o Ps(1)

(* ------------------------------------------------------------------------ *)
(* Control command 0x40: the library's packing                                *)
(*  s = [beep, power, t2 (setpoint in half degrees), mode, fan, swing, follow, *)
(*       turbo, eco, purifier, aux (0 off / 1 aux heat / 2 aux only), sleep,   *)
(*       fahr, hum, freeze]                                                    *)
(* ------------------------------------------------------------------------ *)
SetStateBody(s) ==
  LET ti == s.t2 \div 2
      half == Mod(s.t2, 2)
      prim == ti >= 17 /\ ti <= 30
  IN << 64,
        2 + 64 * B(s.beep) + B(s.power),
        (IF prim THEN ti - 16 ELSE 0) + 16 * half + 32 * s.mode,
        s.fan,
        127, 127, 0,
        48 + s.swing,
        128 * B(s.follow) + 32 * B(s.turbo),
        128 * B(s.eco) + 32 * B(s.purifier) + 8 * B(s.aux = 1),
        B(s.sleep) + 2 * B(s.turbo) + 4 * B(s.fahr),
        0, 0, 0, 0, 0, 0, 0,
        IF prim THEN 0 ELSE Mod(ti - 12, 32),
        Mod(s.hum, 128),
        0,
        128 * B(s.freeze),
        8 * B(s.aux = 2),
        0 >>

(* The vendor's reference layout of the 0x40 body, transcribed from the Lua encoder  *)
(* (reference/T_0000_AC_00000Q14_2024013001.lua 3286-3445) read backwards: which bit  *)
(* of which byte carries which attribute.  Written with Field/Bit, not with the       *)
(* arithmetic of SetStateBody, so the two are independent descriptions.               *)
VendorDecode40(b) ==
  LET alt == Field(b[19], 0, 5)                 \* bodyBytes[18] & 0x1F
      prim == Field(b[3], 0, 4) + 16            \* bodyBytes[2] & 0x0F, + 0x10
      ti == IF alt # 0 THEN alt + 12 ELSE prim
      ptc == Bit(b[10], 3) = 1                  \* BYTE_PTC_ON 0x08 in bodyBytes[9]
      iptc == Bit(b[23], 3) = 1                 \* independent_ptc 0x08 in bodyBytes[22]
  IN [ beep |-> Bit(b[2], 6) = 1,               \* BYTE_BUZZER_ON 0x40
       power |-> Bit(b[2], 0) = 1,              \* BYTE_POWER_ON 0x01
       t2 |-> 2 * ti + Bit(b[3], 4),            \* smallTemperature << 4
       mode |-> Field(b[3], 5, 3),              \* modeValue & 0xE0
       fan |-> Field(b[4], 0, 7),               \* fanspeedValue (bit 7 is the timer switch)
       swing |-> Field(b[8], 0, 4),             \* swingLR 0x03 | swingUD 0x0C
       follow |-> Bit(b[9], 7) = 1,             \* by symmetry with 0xC0 byte 8 bit 7
       turbo |-> Bit(b[9], 5) = 1 \/ Bit(b[11], 1) = 1,   \* strongWind 0x20 / tubroValue 0x02
       eco |-> Bit(b[10], 7) = 1,               \* BYTE_ECO_ON 0x80
       purifier |-> Bit(b[10], 5) = 1,          \* BYTE_PURIFIER_ON 0x20
       ptc |-> ptc, iptc |-> iptc,              \* aux-heat (PTC) and independent PTC are separate vendor attributes
       sleep |-> Bit(b[11], 0) = 1,             \* sleep_status
       fahr |-> Bit(b[11], 2) = 1,              \* temperature_unit << 2
       hum |-> Field(b[20], 0, 7),              \* smartDryValue & 0x7F
       freeze |-> Bit(b[22], 7) = 1 ]           \* degree8_heat << 7

(* structural facts the vendor layout fixes besides the attributes *)
Vendor40Shape(b) ==
  /\ Len(b) = 24 /\ b[1] = 64
  /\ Bit(b[2], 1) = 1                           \* BYTE_CLIENT_MODE_MOBILE
  /\ Field(b[8], 4, 2) = 3                      \* | 0x30
  /\ (Bit(b[9], 5) = 1) = (Bit(b[11], 1) = 1)   \* both turbo bits agree

(* bits the vendor layout assigns to features that are NOT part of the settable state must be    *)
(* neutral, otherwise the device would end up in a state the user did not request:               *)
(* timers disabled (0x7F), comfort-sleep value/switch, power saving, dry-clean, forced PTC,      *)
(* prevent-cold, filter reset, comfort-sleep curve (bytes 11..17), natural wind, PMV,            *)
(* lower-louver swing, comfort power save / fresh filter reset.                                  *)
VendorNeutral(b) ==
  /\ b[5] = 127 /\ b[6] = 127                        \* open / close timer switches off
  /\ Field(b[9], 0, 5) = 0 /\ Bit(b[9], 6) = 0       \* comfortableSleepValue, power_saving, unused
  /\ Field(b[10], 0, 3) = 0 /\ Bit(b[10], 4) = 0 /\ Bit(b[10], 6) = 0   \* dry 0x04, PTC force 0x10, sleep switch 0x40
  /\ Bit(b[11], 3) = 0 /\ Field(b[11], 4, 4) = 0     \* preventCold, filter reset bits
  /\ \A k \in 12..18 : b[k] = 0                      \* comfort sleep curve / time / natural wind / pmv
  /\ Field(b[19], 5, 3) = 0                          \* pmv low bits
  /\ Bit(b[20], 7) = 0 /\ b[21] = 0                  \* lower louver swing
  /\ Field(b[22], 0, 7) = 0
  /\ Field(b[23], 0, 3) = 0 /\ Field(b[23], 4, 4) = 0
  /\ b[24] = 0

(* the user's aux-heat MODE (0 off / 1 aux heat / 2 aux only) seen as the two vendor attributes *)
Requested(s) == [ beep |-> s.beep, power |-> s.power, t2 |-> s.t2, mode |-> s.mode, fan |-> s.fan, swing |-> s.swing,
                  follow |-> s.follow, turbo |-> s.turbo, eco |-> s.eco, purifier |-> s.purifier,
                  ptc |-> s.aux = 1, iptc |-> s.aux = 2, sleep |-> s.sleep, fahr |-> s.fahr, hum |-> s.hum, freeze |-> s.freeze ]

SettableDomain(s) ==
  /\ s.t2 \in 26..87 /\ s.mode \in 1..6 /\ s.fan \in 1..102 /\ s.swing \in {0, 3, 12, 15}
  /\ s.hum \in 0..100 /\ s.aux \in 0..2

(* ------------------------------------------------------------------------ *)
(* Device-side parser of a command frame (what a conforming device sees)      *)
(* ------------------------------------------------------------------------ *)
RECURSIVE ParseIds(_, _)
ParseIds(b, n) == IF n = 0 \/ Len(b) < 2 THEN <<>>
                  ELSE <<LEVal(Take(b, 2))>> \o ParseIds(Drop(b, 2), n - 1)
RECURSIVE ParseWrites(_, _)
ParseWrites(b, n) ==
  IF n = 0 \/ Len(b) < 3 THEN <<>>
  ELSE LET sz == b[3] IN
       <<[id |-> LEVal(Take(b, 2)), val |-> Slice(b, 4, 3 + sz)]>> \o ParseWrites(Drop(b, 3 + sz), n - 1)

CommandKind(f) ==
  LET b == FBody(f) t == FType(f) IN
  CASE t = TypeQuery /\ b = GetStateBody -> "get_state"
    [] t = TypeQuery /\ b = GetEnergyBody -> "get_energy"
    [] t = TypeQuery /\ b = GetHumidityBody -> "get_humidity"
    [] t = TypeQuery /\ b = GetCapsBody(FALSE) -> "get_caps"
    [] t = TypeQuery /\ b = GetCapsBody(TRUE) -> "get_caps_more"
    [] t = TypeQuery /\ (b = ToggleDisplayBody(TRUE) \/ b = ToggleDisplayBody(FALSE)) -> "toggle_display"
    [] t = TypeQuery /\ Len(b) >= 2 /\ b[1] = 177 /\ Len(b) = 2 + 2 * b[2] -> "get_props"
    [] t = TypeControl /\ Len(b) = 24 /\ b[1] = 64 -> "set_state"
    [] t = TypeControl /\ Len(b) >= 2 /\ b[1] = 176 -> "set_props"
    [] OTHER -> "unknown"
=======================================================================
