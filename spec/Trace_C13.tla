---------------------------- MODULE Trace_C13 ----------------------------
(* code -> spec: a refresh() whose only reply is a single-byte corruption of a valid response.   *)
(* v = [orig, frame, pos (0-based), sub, fix, same (to_dict unchanged), online, supported, raised] *)
EXTENDS AcReject, Json, IOUtils
Vectors == JsonDeserialize(IOEnv.TRACE_FILE)
VARIABLE i
Init == i \in 1..Len(Vectors)
Next == UNCHANGED i
Verdict(v) ==
  IF ~ClientAccepts(v.orig) THEN "harness: original frame is not a valid response"
  ELSE IF v.frame # Corrupt(v.orig, v.pos + 1, v.sub, v.fix) THEN "harness: corruption differs from Corrupt(orig,pos,sub,fix)"
  ELSE IF v.raised # "none" THEN "refresh raised " \o v.raised
  ELSE IF v.same /\ ~v.online /\ ~v.supported THEN "ok"                    \* frame dropped, state untouched, offline, unsupported
  ELSE LET c == AcceptClass(v.orig, v.frame, v.fix) IN
       IF c = "rejected" THEN
            (IF ~v.same THEN "frame failing its checks changed the exposed state"
             ELSE IF v.online THEN "refresh that received only a frame failing its checks reports online"
             ELSE "refresh that received only a frame failing its checks reports supported")
       ELSE IF c = "exempt-by-design" THEN "ok"
       ELSE "corrupted frame used: " \o c
Judge == LET r == Verdict(Vectors[i]) IN IF r = "ok" THEN TRUE ELSE PrintT(<<"REJECT", i, r>>)
=======================================================================
