---------------------------- MODULE V3Stream ----------------------------
(* Reassembly of V3 packets from a TCP byte stream (C04).                                        *)
(* A stream is  g1 p1 g2 p2 ... gk pk gEnd  where every p is a V3 packet (marker 0x83 0x70, 2-byte *)
(* big-endian size field, total length size + 8) and every g is garbage that, together with the    *)
(* first byte of what follows, contains no start marker.  TCP may cut the stream anywhere.         *)
(* State: pos (bytes delivered so far), buffer (received, not yet framed), queue (packets handed   *)
(* to the reader, in order).  One action: Segment(n) = the next n bytes arrive.                    *)
EXTENDS Bytes

VARIABLES parts,    \* <<[g |-> bytes, p |-> bytes], ...>>  (the last part may have p = <<>>: trailing garbage)
          stream,   \* the concatenation
          pos, buffer, queue
vars == <<parts, stream, pos, buffer, queue>>

RECURSIVE Concat(_)
Concat(ps) == IF ps = <<>> THEN <<>> ELSE Head(ps).g \o Head(ps).p \o Concat(Tail(ps))
IsPacket(p) == Len(p) >= 8 /\ p[1] = 131 /\ p[2] = 112 /\ Len(p) = BEVal(Slice(p, 3, 4)) + 8
MarkerFree(g, nextByte) == Find2(g \o <<nextByte>>, 131, 112) = 0
WellFormedParts(ps) ==
  \A k \in 1..Len(ps) :
     /\ (ps[k].p = <<>> => k = Len(ps))
     /\ (ps[k].p # <<>> => IsPacket(ps[k].p))
     /\ MarkerFree(ps[k].g, IF ps[k].p # <<>> THEN 131 ELSE 0)

(* end offset (in the stream) of the k-th packet *)
RECURSIVE EndOf(_, _)
EndOf(ps, k) == IF k = 0 THEN 0 ELSE EndOf(ps, k - 1) + Len(ps[k].g) + Len(ps[k].p)
NPackets(ps) == IF ps # <<>> /\ Last(ps).p = <<>> THEN Len(ps) - 1 ELSE Len(ps)
(* the packets whose last byte lies at or before offset x: what must have been delivered by then *)
DeliveredBy(ps, x) == LET K == {k \in 1..NPackets(ps) : EndOf(ps, k) <= x}
                      IN [k \in 1..Cardinality(K) |-> ps[k].p]

(* the framer: repeatedly find the marker, skip what precedes it, take size + 8 bytes when complete *)
RECURSIVE Extract(_)
Extract(b) ==
  IF Len(b) = 0 THEN [rest |-> <<>>, pkts |-> <<>>]
  ELSE LET s == Find2(b, 131, 112) IN
       IF s = 0 THEN [rest |-> b, pkts |-> <<>>]
       ELSE LET t == Drop(b, s - 1) IN
            IF Len(t) < 6 THEN [rest |-> b, pkts |-> <<>>]
            ELSE LET total == BEVal(Slice(t, 3, 4)) + 8 IN
                 IF Len(t) < total THEN [rest |-> b, pkts |-> <<>>]
                 ELSE LET r == Extract(Drop(t, total)) IN
                      [rest |-> r.rest, pkts |-> <<Take(t, total)>> \o r.pkts]

Init == /\ WellFormedParts(parts) /\ stream = Concat(parts)
        /\ pos = 0 /\ buffer = <<>> /\ queue = <<>>

Segment(n) ==
  /\ n \in 1..(Len(stream) - pos)
  /\ LET r == Extract(buffer \o Slice(stream, pos + 1, pos + n)) IN
     /\ buffer' = r.rest
     /\ queue' = queue \o r.pkts
  /\ pos' = pos + n
  /\ UNCHANGED <<parts, stream>>

Next == \E n \in 1..(Len(stream) - pos) : Segment(n)

(* C04: each packet exactly once, complete, in order, as soon as its last byte has arrived *)
Delivered == queue = DeliveredBy(parts, pos)
(* nothing that belongs to a not yet complete packet is lost: the undelivered tail of the stream is still buffered *)
NoLoss == LET k == Len(queue) IN
          k < NPackets(parts) =>
             LET startNext == EndOf(parts, k) + Len(parts[k + 1].g) IN
             pos > startNext => (Len(buffer) >= pos - startNext
                                 /\ Slice(buffer, Len(buffer) - (pos - startNext) + 1, Len(buffer)) = Slice(stream, startNext + 1, pos))
=======================================================================
