---------------------------- MODULE Trace_V2 ----------------------------
(* code -> spec for the V2 packet codec (C02, C03, part of C09).  Vector kinds:                 *)
(*  "encode": packet produced by the library for (frame, devid)          -> V2PacketClause       *)
(*  "decode": packet built by the independent implementation, validated here, and the library's *)
(*            decode result (bytes or exception name)                    -> V2Decode             *)
(*  "mutant": authentic packet orig (validated), altered copy q, library's result on q           *)
EXTENDS LanV2Packet, Json, IOUtils
Vectors == JsonDeserialize(IOEnv.TRACE_FILE)
VARIABLE i
Init == i \in 1..Len(Vectors)
Next == UNCHANGED i
ResultMatches(want, res) ==      \* res = [k |-> "frame", f] or [k |-> "raise", exc]
  IF want.k = "harness" THEN "harness: " \o want.why
  ELSE IF want.k = "frame" THEN
       (IF res.k # "frame" THEN "authentic packet not decoded: raised " \o res.exc
        ELSE IF res.f # want.f THEN "decoded frame differs from the frame sent" ELSE "ok")
  ELSE IF res.k = "frame" THEN "unacceptable packet (" \o want.why \o ") was decoded to a frame"
  ELSE IF res.exc # "ProtocolError" THEN "unacceptable packet (" \o want.why \o ") raised " \o res.exc \o " instead of a protocol error"
  ELSE "ok"
Verdict(v) ==
  CASE v.kind = "encode" ->
         (IF v.res.k # "frame" THEN "encode raised " \o v.res.exc
          ELSE V2PacketClause(v.res.f, v.frame, v.devid, v.o))
    [] v.kind = "decode" ->
         LET c == V2PacketClause(v.p, v.frame, v.devid, v.o) IN
         IF c # "ok" THEN "harness: reference packet invalid: " \o c
         ELSE ResultMatches(V2Decode(v.p, v.o), v.res)
    [] v.kind = "mutant" ->
         LET c == V2PacketClause(v.orig, v.frame, v.devid, v.oo) IN
         IF c # "ok" THEN "harness: original packet invalid: " \o c
         ELSE IF v.q = v.orig THEN "harness: not a mutation"
         ELSE LET want == V2Decode(v.q, v.o) IN
              IF want.k = "frame" /\ want.f = v.frame /\ v.res.k = "frame" /\ v.res.f = v.frame THEN "ok"   \* alteration beyond the length field: same frame
              ELSE IF want.k = "frame" THEN "harness: altered packet is acceptable to the reference"
              ELSE ResultMatches(want, v.res)
    [] v.kind = "raw" -> ResultMatches(V2Decode(v.q, v.o), v.res)
Judge == LET r == Verdict(Vectors[i]) IN IF r = "ok" THEN TRUE ELSE PrintT(<<"REJECT", i, r>>)
=======================================================================
