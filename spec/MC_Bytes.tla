---- MODULE MC_Bytes ----
(* in-model self-checks of the byte vocabulary *)
EXTENDS Bytes
VARIABLE n
Init == n \in 0..40
Next == UNCHANGED n
S(k) == [j \in 1..k |-> Mod(j * 37 + k, 256)]
PadOK == LET s == S(n) p == Pkcs7Pad(s) IN
         /\ Mod(Len(p), 16) = 0 /\ Len(p) > Len(s) /\ Len(p) - Len(s) <= 16
         /\ Pkcs7Valid(p) /\ Pkcs7Unpad(p) = s
EndianOK == /\ LEVal(LE(n * 1000 + 7, 4)) = n * 1000 + 7 /\ BEVal(BE(n * 1000 + 7, 4)) = n * 1000 + 7
            /\ LE(258, 2) = <<2, 1>> /\ BE(258, 2) = <<1, 2>>
CrcOK == /\ Crc8TableOK
         /\ Crc8(<<>>) = 0
         /\ Crc8(<<49,50,51,52,53,54,55,56,57>>) = 161   \* CRC-8/MAXIM check value 0xA1 of "123456789"
ChecksumOK == LET s == S(n) IN Mod(Sum(s) + Checksum(s), 256) = 0
====
