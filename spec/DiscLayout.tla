---------------------------- MODULE DiscLayout ----------------------------
(* UDP discovery (C17, C18).                                                                        *)
(*  Part 1 - layouts.  A reply is a V2 packet (0x5A5A envelope, device id at bytes 20..25, body     *)
(*  AES-ECB encrypted, MD5 signature) or the same wrapped for V3 (8-byte 0x8370 prefix, 16-byte     *)
(*  suffix).  Decrypted body: IP reversed (4), port LE (2), 2 bytes, serial number (32), name       *)
(*  length (1), name "net_<type hex>_<suffix>".  AES is uninterpreted: o.ct / o.pt is a reference    *)
(*  evaluation whose input the spec re-derives from the reply bytes.                                  *)
(*  48-bit ids do not fit TLC integers: ids are 6-byte little-endian sequences throughout.           *)
(*  Part 2 - the run as a state machine: replies arrive in any order and multiplicity; the first     *)
(*  datagram of an address decides (FirstDatagramWins); one parse task per address; the result is    *)
(*  one device per address whose deciding reply was well-formed.                                     *)
EXTENDS Bytes, FiniteSets

Us == 95        \* "_"
IsHex(c) == (c >= 48 /\ c <= 57) \/ (c >= 65 /\ c <= 70) \/ (c >= 97 /\ c <= 102)
HexDigit(c) == IF c <= 57 THEN c - 48 ELSE IF c <= 70 THEN c - 55 ELSE c - 87
RECURSIVE HexValFrom(_, _, _)
HexValFrom(s, k, acc) == IF k > Len(s) THEN acc ELSE HexValFrom(s, k + 1, acc * 16 + HexDigit(s[k]))
HexVal(s) == HexValFrom(s, 1, 0)
RECURSIVE IndexFrom(_, _, _)
IndexFrom(s, c, k) == IF k > Len(s) THEN 0 ELSE IF s[k] = c THEN k ELSE IndexFrom(s, c, k + 1)
(* second "_"-separated token of a name (empty if there is no separator) *)
Token2(name) == LET a == IndexFrom(name, Us, 1) IN
                IF a = 0 THEN <<>>
                ELSE LET b == IndexFrom(name, Us, a + 1) IN Slice(name, a + 1, IF b = 0 THEN Len(name) ELSE b - 1)
HasSep(name) == IndexFrom(name, Us, 1) # 0
IsAscii(s) == \A k \in 1..Len(s) : s[k] < 128

Version(r) == IF Len(r) >= 2 /\ Take(r, 2) = <<90, 90>> THEN 2 ELSE IF Len(r) >= 2 /\ Take(r, 2) = <<131, 112>> THEN 3 ELSE 0
Inner(r) == IF Version(r) = 3 THEN Slice(r, 9, Len(r) - 16) ELSE r
CipherText(r) == Slice(Inner(r), 41, Len(Inner(r)) - 16)

(* is the (reference-decrypted, still padded) body o.pt of reply r that of a well-formed Midea reply? *)
WellFormed(r, o) ==
  /\ Version(r) \in {2, 3}
  /\ Len(Inner(r)) >= 40 + 16 + 16
  /\ o.ct = CipherText(r) /\ Len(o.ct) > 0 /\ Mod(Len(o.ct), 16) = 0
  /\ Len(o.pt) = Len(o.ct) /\ Pkcs7Valid(o.pt)
  /\ LET b == Pkcs7Unpad(o.pt) IN
     /\ Len(b) >= 41 /\ Len(b) >= 41 + b[41]
     /\ IsAscii(Slice(b, 9, 40)) /\ IsAscii(Slice(b, 42, 41 + b[41]))
     /\ HasSep(Slice(b, 42, 41 + b[41]))
     /\ LET t == Token2(Slice(b, 42, 41 + b[41])) IN Len(t) \in 1..2 /\ \A k \in 1..Len(t) : IsHex(t[k])

(* identity a well-formed reply encodes *)
Info(r, o) ==
  LET b == Pkcs7Unpad(o.pt)
      name == Slice(b, 42, 41 + b[41])
      typ == HexVal(Token2(name))
  IN [ id |-> Slice(Inner(r), 21, 26), port |-> LEVal(Slice(b, 5, 6)), sn |-> Slice(b, 9, 40), name |-> name,
       type |-> typ, version |-> Version(r), cls |-> IF typ = 172 THEN "AirConditioner" ELSE "Device" ]
ReportedIp(o) == LET b == Pkcs7Unpad(o.pt) IN <<b[4], b[3], b[2], b[1]>>

(* the probe real devices answer: V2 envelope, message type 0x0092, zero header, 16-byte body, valid signature *)
ProbeClause(p, o) ==
  IF Len(p) # 72 THEN "probe length"
  ELSE IF Take(p, 4) # <<90, 90, 1, 17>> THEN "probe start / message type"
  ELSE IF LEVal(Slice(p, 5, 6)) # Len(p) THEN "probe length field"
  ELSE IF Slice(p, 7, 8) # <<146, 0>> THEN "probe is not a discovery request (0x0092)"
  ELSE IF Slice(p, 9, 40) # Zeros(32) THEN "probe header not zero"
  ELSE IF o.md5_in # Take(p, 56) THEN "harness: signature oracle input is not the first 56 bytes"
  ELSE IF Slice(p, 57, 72) # o.md5_out THEN "probe signature is not MD5(packet + sign key)"
  ELSE "ok"

=======================================================================
