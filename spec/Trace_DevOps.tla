---------------------------- MODULE Trace_DevOps ----------------------------
(* code -> spec: one public operation of a real AirConditioner per vector, against a unit that answers or ignores each transmission as scripted. *)
(* v = [op, pr, answers (per transmission the unit received), kinds (what it received, in order), online, raised]                              *)
EXTENDS DevOps, Json, IOUtils, TLC
Vectors == JsonDeserialize(IOEnv.TRACE_FILE)
VARIABLE i
Init == i \in 1..Len(Vectors)
Next == UNCHANGED i
Verdict(v) ==
  LET f == Run(S0(v.op, v.pr), v.answers) IN
  IF v.raised # "none" THEN "the operation raised " \o v.raised
  ELSE IF ~f.done THEN "the operation returned although the model still has a request to make (after " \o ToString(Len(v.answers)) \o " transmissions)"
  ELSE IF v.kinds # f.seen THEN "requests on the wire differ from the model's"
  ELSE IF v.online # f.online THEN "online flag differs from the model's"
  ELSE "ok"
Judge == LET r == Verdict(Vectors[i]) IN IF r = "ok" THEN TRUE ELSE PrintT(<<"REJECT", i, r>>)
=======================================================================
