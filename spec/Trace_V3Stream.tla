---------------------------- MODULE Trace_V3Stream ----------------------------
(* code -> spec: a stream cut into segments and stepped through the real _LanProtocolV3.data_received. *)
(* trace = [parts, events: <<[n (segment length), out (packets newly queued by this segment)]...>>]      *)
(* Each event must be explained by V3Stream!Segment(n) with exactly the logged output; Delivered and     *)
(* NoLoss are evaluated in every state.                                                                  *)
EXTENDS V3Stream, Json, IOUtils
Traces == JsonDeserialize(IOEnv.TRACE_FILE)
VARIABLES tid, l, bad
tvars == <<vars, tid, l, bad>>
T == Traces[tid]
TInit == /\ tid \in 1..Len(Traces) /\ l = 1 /\ bad = "ok"
         /\ parts = Traces[tid].parts /\ stream = Concat(Traces[tid].parts)
         /\ pos = 0 /\ buffer = <<>> /\ queue = <<>>
Ev == T.events[l]
TSegment ==
  /\ bad = "ok" /\ l <= Len(T.events)
  /\ Segment(Ev.n)
  /\ bad' = (IF ~WellFormedParts(parts) THEN "harness: stream description is not well-formed"
             ELSE IF queue' # queue \o Ev.out THEN "packets queued by this segment differ from the specification"
             ELSE IF queue' # DeliveredBy(parts, pos') THEN "delivered packets are not exactly those complete by now"
             ELSE "ok")
  /\ l' = l + 1 /\ UNCHANGED tid
TNext == TSegment
Done == l = Len(T.events) + 1 \/ bad # "ok"
Judge == /\ (Done => PrintT(<<"DONE", tid, IF bad # "ok" THEN bad ELSE IF pos # Len(stream) THEN "harness: stream not fully delivered" ELSE "ok">>))
         /\ (bad = "ok" => NoLoss)
=======================================================================
