---------------------------- MODULE Trace_CliQuery ----------------------------
(* code -> spec: one `msmart-ng query` run per vector on the simulated network.                                          *)
(* v = [cap, creds, more, auto, answers, kinds, sets, exit, exc, printed, body, attrs, caps, p0, p1]                                    *)
(*  answers : handshake outcome (with credentials) then, per request frame the unit received, whether it answered         *)
(*  kinds   : what the unit received, in order ("state", "caps0", "caps1", anything else by its hex)                      *)
EXTENDS CliQuery, Json, IOUtils
Vectors == JsonDeserialize(IOEnv.TRACE_FILE)
VARIABLE i
Init == i \in 1..Len(Vectors)
Next == UNCHANGED i
Flags(a) == [ power |-> a.power, t2 |-> a.t2, mode |-> a.mode, fan |-> a.fan, swing |-> a.swing, turbo |-> a.turbo,
              follow |-> a.follow, aux |-> a.aux, eco |-> a.eco, purifier |-> a.purifier, sleep |-> a.sleep,
              fahr |-> a.fahr, filter |-> a.filter, display |-> a.display, hum |-> a.hum, freeze |-> a.freeze ]
PF(d) == [custom_fan |-> d.custom_fan, eco |-> d.eco, turbo |-> d.turbo, freeze |-> d.freeze, display |-> d.display, filter |-> d.filter]
PrintedFlags(a) == PF(a)
PS(d) == [op_modes |-> d.op_modes, swing_modes |-> d.swing_modes, fan_speeds |-> d.fan_speeds]
PrintedSets(a) == [op_modes |-> SeqSet(a.op_modes), swing_modes |-> SeqSet(a.swing_modes), fan_speeds |-> SeqSet(a.fan_speeds)]
(* before any capability record has been learned the object assumes everything (documented: "Support all known modes initially") *)
AssumedFlags == [custom_fan |-> TRUE, eco |-> TRUE, turbo |-> TRUE, freeze |-> TRUE, display |-> TRUE, filter |-> TRUE]
AssumedSets == [op_modes |-> {1, 2, 3, 4, 5, 6}, swing_modes |-> {0, 3, 12, 15}, fan_speeds |-> {20, 40, 60, 80, 100, 102}]
AssumedTemps == [min_t2 |-> 32, max_t2 |-> 60]
FirstDiff(x, y) == CHOOSE f \in DOMAIN x : x[f] # y[f]
Verdict(v) ==
  LET opt == [cap |-> v.cap, creds |-> v.creds, more |-> v.more, auto |-> v.auto]
      f == Run(S0(opt), v.answers)
      capset == IF f.pages = 0 THEN Empty ELSE IF f.pages = 1 THEN ParseCaps(v.p0) ELSE Merge(ParseCaps(v.p0), ParseCaps(v.p1))
      wf == IF f.pages = 0 THEN AssumedFlags ELSE PF(DeriveFlags(capset))
      ws == IF f.pages = 0 THEN AssumedSets ELSE PS(DeriveSets(capset))
      wt == IF f.pages = 0 THEN AssumedTemps ELSE DeriveTemps(capset) IN
  IF v.sets # 0 THEN "the query command transmitted a control frame"
  ELSE IF f.pc # "done" THEN "the command ended although the model still expects an exchange (after " \o ToString(Len(v.answers)) \o " outcomes)"
  ELSE IF v.kinds # f.reqs THEN "requests on the wire differ from the model's"
  ELSE IF v.exit # f.exitc THEN "exit status " \o ToString(v.exit) \o " where the model ends with " \o ToString(f.exitc) \o " " \o v.exc
  ELSE IF v.printed # f.printed THEN "printed " \o v.printed \o " where the model prints " \o f.printed
  ELSE IF f.printed = "state" /\ Flags(v.attrs) # StateView(v.body) THEN "printed state differs from the reported one: " \o FirstDiff(Flags(v.attrs), StateView(v.body))
  ELSE IF f.printed = "caps" /\ PrintedFlags(v.caps) # wf THEN "printed supports_* differ from the documented function of the records the unit reported: " \o FirstDiff(PrintedFlags(v.caps), wf)
  ELSE IF f.printed = "caps" /\ PrintedSets(v.caps) # ws THEN "printed supported modes / speeds differ from the documented function of the records the unit reported"
  ELSE IF f.printed = "caps" /\ TempsOf(v.caps) # wt THEN "printed setpoint limits differ from the documented function of the records the unit reported"
  ELSE "ok"
Judge == LET r == Verdict(Vectors[i]) IN IF r = "ok" THEN TRUE ELSE PrintT(<<"REJECT", i, r>>)
=======================================================================
