---------------------------- MODULE DevOps ----------------------------
(* The public operations of AirConditioner as sequences of exchanges: which requests an operation comprises for a given capability    *)
(* profile, how often each is transmitted when it goes unanswered, which failures end the operation and which do not, and what the    *)
(* `online` flag says afterwards.  One step per transmission and whether the unit answered it.  Spec growth beyond the listed           *)
(* properties (it makes "an operation asks every one of its questions" checkable, which no listed property states).                    *)
(*   refresh           state [energy] [humidity] [properties]  - every query is made whatever the earlier ones met; online = any answer *)
(*   get_capabilities  page 0, then page 1 when page 0 arrived and announces more                                                      *)
(*   apply             state write, then the property write when property settings are pending                                         *)
(*   toggle_display    the toggle request, then a refresh                                                                               *)
(*   start_self_clean  one property write                                                                                               *)
(* Named behaviour of the code: OnlineOnlyByRefresh - no operation but refresh (also the one inside toggle_display) assigns `online`.   *)
EXTENDS Naturals, Integers, Sequences, FiniteSets
CONSTANT Retries
Ops == {"refresh", "caps", "apply", "toggle", "clean"}
Profiles == [energy : BOOLEAN, humidity : BOOLEAN, props : BOOLEAN, more : BOOLEAN, pend : BOOLEAN]
If(b, q) == IF b THEN q ELSE <<>>
RefreshReqs(pr) == <<"state">> \o If(pr.energy, <<"energy">>) \o If(pr.humidity, <<"humidity">>) \o If(pr.props, <<"props">>)
Requests(op, pr) == CASE op = "refresh" -> RefreshReqs(pr)
                      [] op = "caps" -> <<"caps0">>                       \* page 1 is appended when page 0 arrives
                      [] op = "apply" -> <<"set_state">> \o If(pr.pend, <<"set_props">>)
                      [] op = "toggle" -> <<"toggle">> \o RefreshReqs(pr)
                      [] op = "clean" -> <<"set_props">>
S0(op, pr) == [op |-> op, pr |-> pr, todo |-> Requests(op, pr), left |-> Retries, seen |-> <<>>, online |-> FALSE, answered |-> 0, inrefresh |-> op = "refresh", done |-> FALSE]
Finish(s) == IF s.todo = <<>> THEN [s EXCEPT !.done = TRUE, !.online = IF s.op \in {"refresh", "toggle"} THEN s.answered > 0 ELSE @] ELSE s
(* one transmission of the request at the head of the list, and whether the unit answered it *)
Step(s, ans) ==
  IF s.done \/ s.todo = <<>> THEN s
  ELSE LET r == Head(s.todo)
           t == [s EXCEPT !.seen = Append(@, r)] IN
       IF ans THEN
            LET rest == IF r = "caps0" /\ s.pr.more THEN <<"caps1">> ELSE Tail(s.todo)
                cnt == IF r \in {"state", "energy", "humidity", "props"} THEN s.answered + 1 ELSE s.answered IN     \* (the toggle's own answer is not the refresh's)
            Finish([t EXCEPT !.todo = rest, !.left = Retries, !.answered = cnt])
       ELSE IF s.left > 1 THEN [t EXCEPT !.left = @ - 1]
       ELSE IF r = "caps0" THEN Finish([t EXCEPT !.todo = <<>>, !.left = Retries])           \* "Failed to query capabilities": nothing further
       ELSE Finish([t EXCEPT !.todo = Tail(s.todo), !.left = Retries])                         \* the operation goes on with its next request
RECURSIVE Run(_, _)
Run(s, answers) == IF answers = <<>> \/ s.done THEN s ELSE Run(Step(s, Head(answers)), Tail(answers))
Count(q, k) == Cardinality({j \in 1..Len(q) : q[j] = k})
=======================================================================
