---------------------------- MODULE Apa_SmartHomeFlow ----------------------------
(* Apalache instance of the SmartHome flow (Part 2 of SmartHome.tla, copied action by action; the copy is checked against the  *)
(* original by TLC: MC_ApaRefine_SmartHome: every step of SmartHome!SNext is a step of this SNext).  Unbounded in the number of calls: MaxCalls is dropped.                                  *)
EXTENDS Integers
Retries == 3
Outcomes == {"ok", "timeout", "http", "api"}
VARIABLES
  \* @type: Str;
  pc,
  \* @type: Str;
  op,
  \* @type: Bool;
  haveLid,
  \* @type: Bool;
  haveSess,
  \* @type: Int;
  left,
  \* @type: Int;
  att,
  \* @type: Str;
  last,
  \* @type: Str;
  lastop
svars == <<pc, op, haveLid, haveSess, left, att, last, lastop>>
SInit == /\ pc = "idle" /\ op = "none" /\ haveLid = FALSE /\ haveSess = FALSE /\ left = 0 /\ att = 0 /\ last = "none" /\ lastop = "none"
Start(kind) == /\ pc' = kind /\ left' = Retries /\ att' = 0
CallLogin(force) ==
  /\ pc = "idle" /\ UNCHANGED <<haveLid, haveSess>>
  /\ IF haveSess /\ ~force THEN /\ last' = "ok" /\ lastop' = "login" /\ op' = "none" /\ UNCHANGED <<pc, left, att>>
     ELSE /\ op' = "login" /\ last' = "none" /\ UNCHANGED lastop /\ Start(IF haveLid THEN "login" ELSE "lid")
CallGet(kind) == /\ pc = "idle" /\ op' = kind /\ last' = "none" /\ Start(kind) /\ UNCHANGED <<haveLid, haveSess, lastop>>
EndCore(r) == /\ pc' = "idle" /\ op' = "none" /\ last' = r /\ lastop' = op /\ left' = 0
End(r) == EndCore(r) /\ UNCHANGED <<haveLid, haveSess>>
IsApi == pc \in {"lid", "login", "lua", "plug"}
Attempt(out) ==
  /\ IsApi /\ out \in Outcomes
  /\ \/ /\ out = "timeout" /\ left > 1 /\ att' = att + 1 /\ left' = left - 1 /\ UNCHANGED <<pc, op, haveLid, haveSess, last, lastop>>
     \/ /\ out = "timeout" /\ left <= 1 /\ att' = att + 1 /\ End("cloud_error")
     \/ /\ out \in {"http", "api"} /\ att' = att + 1 /\ End("cloud_error")
     \/ /\ out = "ok" /\ pc = "lid" /\ haveLid' = TRUE /\ pc' = "login" /\ left' = Retries /\ att' = 0 /\ UNCHANGED <<op, haveSess, last, lastop>>
     \/ /\ out = "ok" /\ pc = "login" /\ att' = att + 1 /\ haveSess' = TRUE /\ EndCore("ok") /\ UNCHANGED <<haveLid>>
     \/ /\ out = "ok" /\ pc = "lua" /\ pc' = "luafile" /\ left' = 1 /\ att' = 0 /\ UNCHANGED <<op, haveLid, haveSess, last, lastop>>
     \/ /\ out = "ok" /\ pc = "plug" /\ pc' = "plugfile" /\ left' = 1 /\ att' = 0 /\ UNCHANGED <<op, haveLid, haveSess, last, lastop>>
FileAttempt(out) ==
  /\ pc \in {"luafile", "plugfile"} /\ out \in Outcomes \ {"api"} /\ att' = att + 1
  /\ \/ out = "ok" /\ End("ok")
     \/ out = "timeout" /\ End("cloud_error")
     \/ out = "http" /\ End("http_escapes")
SNext == (\E f \in BOOLEAN : CallLogin(f)) \/ CallGet("lua") \/ CallGet("plug") \/ (\E out \in Outcomes : Attempt(out) \/ FileAttempt(out))
Budget == att <= Retries /\ (pc \in {"luafile", "plugfile"} => att = 0)
SessNeedsLid == haveSess => haveLid
(* inductive strengthening: the attempt counter and the remaining budget always add up *)
IndInv ==
  /\ haveLid \in BOOLEAN /\ haveSess \in BOOLEAN
  /\ pc \in {"idle", "lid", "login", "lua", "luafile", "plug", "plugfile"}
  /\ op \in {"none", "login", "lua", "plug"}
  /\ last \in {"none", "ok", "cloud_error", "http_escapes"} /\ lastop \in {"none", "login", "lua", "plug"}
  /\ left \in 0..Retries /\ att \in 0..Retries
  /\ (pc \in {"lid", "login", "lua", "plug"} => left >= 1 /\ att + left = Retries)
  /\ (pc \in {"luafile", "plugfile"} => att = 0 /\ left = 1)
  /\ (pc = "login" => haveLid)
  /\ (haveSess => haveLid)
  /\ (pc = "idle" <=> op = "none")
  /\ (pc \in {"lid", "login"} => op = "login") /\ (pc \in {"lua", "luafile"} => op = "lua") /\ (pc \in {"plug", "plugfile"} => op = "plug")
Safety == Budget /\ SessNeedsLid
=======================================================================
