---------------------------- MODULE Trace_Ctr ----------------------------
(* code -> spec, long sessions: the counters of ALL packets the device received on one connection   *)
(* (handshake requests included), the key ids that decrypt the data packets, and the number of      *)
(* exchanges that returned frames.  Judged with the same CtrOK as the session monitor.              *)
EXTENDS SessionMon, Json, IOUtils
Vectors == JsonDeserialize(IOEnv.TRACE_FILE)
VARIABLE i
Init == i \in 1..Len(Vectors)
Next == UNCHANGED i
Verdict(v) ==
  LET c == v.ctrs IN
  IF Len(c) = 0 THEN "harness: empty session"
  ELSE IF c[1] # 0 THEN "C07: first packet on a connection does not start the counter at 0"
  ELSE IF \E j \in 2..Len(c) : ~CtrOK(c[j - 1], c[j]) THEN "C07: packet counter is not previous + 1 @packet " \o ToString(CHOOSE j \in 2..Len(c) : ~CtrOK(c[j - 1], c[j]))
  ELSE IF v.types[1] # "HS" \/ \E j \in 2..Len(v.types) : v.types[j] # "DATA" THEN "C07: a long session on one authenticated connection is one handshake followed by data packets only"
  ELSE IF \E j \in 1..Len(v.keys) : v.keys[j] # v.keyid THEN "C07: data packet is not under the key of the latest handshake on this connection"
  ELSE IF v.sends # v.frames THEN "C07: a session of this many packets could not be sustained (exchange failed with a promptly responding device) @send " \o ToString(v.frames + 1)
  ELSE "ok"
Judge == LET r == Verdict(Vectors[i]) IN IF r = "ok" THEN TRUE ELSE PrintT(<<"REJECT", i, r>>)
=======================================================================
