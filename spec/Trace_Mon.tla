---------------------------- MODULE Trace_Mon ----------------------------
(* code -> spec: the observable events of a real LAN/Device session (recorded by the controlled    *)
(* scheduler or a free-running virtual-time run) are folded through the property monitor, one       *)
(* event per step; every C06/C07/C08/C09 clause is evaluated at every step.                          *)
EXTENDS SessionMon, Json, IOUtils
Traces == JsonDeserialize(IOEnv.TRACE_FILE)
VARIABLES tid, l, m
TInit == tid \in 1..Len(Traces) /\ l = 1 /\ m = MonInit
TNext == /\ l <= Len(Traces[tid].events) /\ m.bad = {}
         /\ m' = MonStep(m, Traces[tid].events[l]) /\ l' = l + 1 /\ UNCHANGED tid
Done == l = Len(Traces[tid].events) + 1 \/ m.bad # {}
Judge == Done => PrintT(<<"DONE", tid, IF m.bad = {} THEN "ok" ELSE (CHOOSE x \in m.bad : TRUE) \o " @event " \o ToString(l - 1)>>)
=======================================================================
