---------------------------- MODULE Trace_Mon ----------------------------
(* code -> spec: the observable events of a real LAN/Device session (recorded by the controlled    *)
(* scheduler or a free-running virtual-time run) are folded through the property monitor, one       *)
(* event per step; every C06/C07/C08/C09 clause is evaluated at every step.                          *)
EXTENDS SessionMon, Json, IOUtils
Traces == JsonDeserialize(IOEnv.TRACE_FILE)
CONSTANT Focus        \* property whose clauses are judged ("ALL": every clause); clauses of other properties are reported as notes
VARIABLES tid, l, m
Mine == {x \in m.bad : Focus = "ALL" \/ x[1] \in {Focus, "harness"}}
(* A delivered V3 message carries reference-evaluated observations (obs: packet type nibble, payload length, SHA-256 proof   *)
(* under the key the client presented).  Whether it is a GENUINE handshake reply is decided here, not by the harness:            *)
(* type 1, exactly 64 bytes, proof valid.                                                                                         *)
Ev(e) == IF e.e = "deliver" /\ Ver = 3 /\ e.m = "HSR" THEN [e EXCEPT !.gen = e.obs.ty = 1 /\ e.obs.ln = 64 /\ e.obs.proof] ELSE e
TInit == tid \in 1..Len(Traces) /\ l = 1 /\ m = MonInit
TNext == /\ l <= Len(Traces[tid].events) /\ Mine = {}
         /\ m' = MonStep(m, Ev(Traces[tid].events[l])) /\ l' = l + 1 /\ UNCHANGED tid
Done == l = Len(Traces[tid].events) + 1 \/ Mine # {}
Clause(x) == x[1] \o ": " \o x[2]
Judge == Done => /\ PrintT(<<"DONE", tid, IF Mine = {} THEN "ok" ELSE Clause(CHOOSE x \in Mine : TRUE) \o " @event " \o ToString(l - 1)>>)
                 /\ (m.bad \ Mine # {} => PrintT(<<"OTHER", tid, Clause(CHOOSE x \in m.bad \ Mine : TRUE)>>))
=======================================================================
