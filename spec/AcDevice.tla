---------------------------- MODULE AcDevice ----------------------------
(* The AirConditioner object and a model appliance as one state machine (C16, C01).                 *)
(* One action = one public call of the client (setter, apply, refresh, get_capabilities,            *)
(* start_self_clean) against a promptly answering device.  The client part is shaped like           *)
(* msmart/device/AC/device.py: attributes, _updated_properties (upd), _supported_properties (sup);  *)
(* the device part is a register file per property id with the vendor's value encodings:            *)
(*   0x42 breeze away 2/1, 0x18 breezeless 1/0, 0x43 breeze control 1..4 (1 off, 2 away, 3 mild,    *)
(*   4 breezeless), 0xE3 iECO switch, 0x48 rate select, 0x09 / 0x0A swing angles, 0x39 self clean,  *)
(*   0x1A buzzer (momentary, never stored).  The device keeps a single breeze mode (DESIGN F7).     *)
(* out' holds what the device received in the step (the observable the traces log).                 *)
EXTENDS AcResponse, FiniteSets

CONSTANTS Prof,           \* set of property ids the device implements and advertises
          MaxDepth        \* only used by bounded configurations

PUD == PropSwingUD   PLR == PropSwingLR   PLESS == PropBreezeless   PBUZZ == PropBuzzer   PCLEAN == PropSelfClean
PAWAY == PropBreezeAway   PCTL == PropBreezeControl   PRATE == PropRateSelect   PIECO == PropIeco
MapIds == {PAWAY, PCTL, PLESS, PIECO, PRATE, PLR, PUD}          \* ids apply() knows how to read from the attributes
AllIds == MapIds \cup {PCLEAN}

VARIABLES attr,     \* [breeze 1..4, ieco, rate, lr, ud, clean]    public property-protocol attributes
          beep,     \* AirConditioner.beep
          upd,      \* ids changed by setters since the last apply
          sup,      \* ids the client believes the device advertises (set by get_capabilities)
          reg,      \* device registers: [id \in Prof -> raw value]
          written,  \* ghost: raw values written by the latest apply / self clean (id -> value), cleared by refresh
          out,      \* observable of the last step
          rb        \* ghost: every read-back so far was equal
dvars == <<attr, beep, upd, sup, reg, written, out, rb>>

NoB0 == [sent |-> FALSE, w |-> [i \in {} |-> 0], buzz |-> 0]
NoB1 == [sent |-> FALSE, ids |-> {}]
NoOut == [b0 |-> NoB0, b1 |-> NoB1]
Empty == [i \in {} |-> 0]
InitReg == [i \in Prof |-> CASE i = PAWAY -> 1 [] i = PCTL -> 1 [] i = PRATE -> 100 [] OTHER -> 0]

DInit == /\ attr = [breeze |-> 1, ieco |-> FALSE, rate |-> 100, lr |-> 0, ud |-> 0, clean |-> FALSE]
         /\ beep = FALSE /\ upd = {} /\ sup = {} /\ reg = InitReg /\ written = Empty /\ out = NoOut /\ rb = TRUE

(* ---- vendor value encodings (abstract value = the single byte that matters) ---- *)
Enc(id, a) == CASE id = PAWAY -> IF a.breeze = 2 THEN 2 ELSE 1
                [] id = PLESS -> IF a.breeze = 4 THEN 1 ELSE 0
                [] id = PCTL -> a.breeze
                [] id = PIECO -> B(a.ieco)
                [] id = PRATE -> a.rate
                [] id = PLR -> a.lr
                [] id = PUD -> a.ud
(* what the client exposes for one id, in the same raw terms (used by the read-back comparison) *)
Proj(id, a) == CASE id = PCLEAN -> B(a.clean) [] OTHER -> Enc(id, a)

(* ---- device: one register write, single breeze mode ---- *)
Write(r, id, v) ==
  IF id \notin DOMAIN r THEN r
  ELSE LET r1 == [r EXCEPT ![id] = v]
           r2 == IF id = PAWAY /\ v = 2 /\ PLESS \in DOMAIN r THEN [r1 EXCEPT ![PLESS] = 0] ELSE r1
           r3 == IF id = PLESS /\ v = 1 /\ PAWAY \in DOMAIN r THEN [r2 EXCEPT ![PAWAY] = 1] ELSE r2
           r4 == IF id = PCTL /\ PLESS \in DOMAIN r THEN [r3 EXCEPT ![PLESS] = B(v = 4)] ELSE r3
           r5 == IF id = PCTL /\ PAWAY \in DOMAIN r THEN [r4 EXCEPT ![PAWAY] = IF v = 2 THEN 2 ELSE 1] ELSE r4
       IN r5
RECURSIVE WriteAll(_, _, _)
WriteAll(r, w, ids) == IF ids = {} THEN r
                       ELSE LET i == CHOOSE x \in ids : \A y \in ids : x <= y IN WriteAll(Write(r, i, w[i]), w, ids \ {i})

(* ---- client: take over a properties response R (id -> raw value reported) -- _update_state ---- *)
BreezeOf(v) == IF v \in 1..4 THEN v ELSE 1
Update(a, R) ==
  LET has(i) == i \in DOMAIN R
      b0 == a.breeze
      b1 == IF has(PCTL) THEN BreezeOf(R[PCTL])                       \* breeze control supersedes the legacy flags
            ELSE IF has(PLESS) /\ R[PLESS] # 0 THEN 4
            ELSE IF has(PAWAY) /\ R[PAWAY] = 2 THEN 2                  \* a breezeless flag that is off does not hide a breeze-away flag that is on
            ELSE IF has(PAWAY) \/ has(PLESS) THEN 1
            ELSE b0
  IN [ breeze |-> b1,
       ieco |-> IF has(PIECO) THEN R[PIECO] # 0 ELSE a.ieco,
       rate |-> IF has(PRATE) THEN R[PRATE] ELSE a.rate,
       lr |-> IF has(PLR) THEN R[PLR] ELSE a.lr,
       ud |-> IF has(PUD) THEN R[PUD] ELSE a.ud,
       clean |-> IF has(PCLEAN) THEN R[PCLEAN] # 0 ELSE a.clean ]

Restrict(f, S) == [i \in S |-> f[i]]

(* ---------------- user calls ---------------- *)
SetBreezeAway(b) == /\ attr' = [attr EXCEPT !.breeze = IF b THEN 2 ELSE 1]
                    /\ upd' = upd \cup {IF PCTL \in sup THEN PCTL ELSE PAWAY}
                    /\ out' = NoOut /\ UNCHANGED <<beep, sup, reg, written, rb>>
SetBreezeMild(b) == /\ attr' = [attr EXCEPT !.breeze = IF b THEN 3 ELSE 1]
                    /\ upd' = upd \cup {PCTL}
                    /\ out' = NoOut /\ UNCHANGED <<beep, sup, reg, written, rb>>
SetBreezeless(b) == /\ attr' = [attr EXCEPT !.breeze = IF b THEN 4 ELSE 1]
                    /\ upd' = upd \cup {IF PCTL \in sup THEN PCTL ELSE PLESS}
                    /\ out' = NoOut /\ UNCHANGED <<beep, sup, reg, written, rb>>
SetIeco(b) == /\ attr' = [attr EXCEPT !.ieco = b] /\ upd' = upd \cup {PIECO}
              /\ out' = NoOut /\ UNCHANGED <<beep, sup, reg, written, rb>>
SetRate(v) == /\ attr' = [attr EXCEPT !.rate = v] /\ upd' = upd \cup {PRATE}
              /\ out' = NoOut /\ UNCHANGED <<beep, sup, reg, written, rb>>
SetLR(v) == /\ attr' = [attr EXCEPT !.lr = v] /\ upd' = upd \cup {PLR}
            /\ out' = NoOut /\ UNCHANGED <<beep, sup, reg, written, rb>>
SetUD(v) == /\ attr' = [attr EXCEPT !.ud = v] /\ upd' = upd \cup {PUD}
            /\ out' = NoOut /\ UNCHANGED <<beep, sup, reg, written, rb>>
SetBeep(b) == /\ beep' = b /\ out' = NoOut /\ UNCHANGED <<attr, upd, sup, reg, written, rb>>

(* apply(): the state write (not modelled here) and then, iff something changed, ONE property write *)
Apply ==
  IF upd = {} THEN /\ out' = NoOut /\ UNCHANGED <<attr, beep, upd, sup, reg, written, rb>>        \* NoWriteWithoutChange
  ELSE LET ids == upd \cap MapIds
           w == [i \in ids |-> Enc(i, attr)]
           r2 == WriteAll(reg, w, ids)
           R == Restrict(r2, ids \cap DOMAIN r2)              \* the device reports the written registers back
       IN /\ reg' = r2 /\ attr' = Update(attr, R) /\ upd' = {}
          /\ written' = w
          /\ out' = [b0 |-> [sent |-> TRUE, w |-> w, buzz |-> B(beep)], b1 |-> NoB1]
          /\ UNCHANGED <<beep, sup, rb>>

StartSelfClean ==
  LET w == [i \in {PCLEAN} |-> 1]
      r2 == WriteAll(reg, w, {PCLEAN})
      R == Restrict(r2, {PCLEAN} \cap DOMAIN r2)
  IN /\ reg' = r2 /\ attr' = Update(attr, R) /\ written' = w
     /\ out' = [b0 |-> [sent |-> TRUE, w |-> w, buzz |-> B(beep)], b1 |-> NoB1]
     /\ UNCHANGED <<beep, upd, sup, rb>>

(* the unit finishes its self-clean cycle by itself: the register falls back to 0 and the next read reports it *)
CleanDone ==
  /\ PCLEAN \in DOMAIN reg /\ reg[PCLEAN] = 1
  /\ reg' = [reg EXCEPT ![PCLEAN] = 0]
  /\ written' = [i \in DOMAIN written \ {PCLEAN} |-> written[i]]
  /\ out' = NoOut /\ UNCHANGED <<attr, beep, upd, sup, rb>>

(* refresh(): GetState (not modelled here) and, iff the client knows supported ids, ONE property query *)
Refresh ==
  IF sup = {} THEN /\ out' = NoOut /\ written' = Empty /\ UNCHANGED <<attr, beep, upd, sup, reg, rb>>
  ELSE LET R == Restrict(reg, sup \cap DOMAIN reg)
           a2 == Update(attr, R)
       IN /\ attr' = a2 /\ out' = [b0 |-> NoB0, b1 |-> [sent |-> TRUE, ids |-> sup]]
          /\ rb' = (rb /\ \A i \in DOMAIN written \cap DOMAIN R : Proj(i, a2) = written[i])       \* ReadBackEqual
          /\ written' = Empty
          /\ UNCHANGED <<beep, upd, sup, reg>>

(* get_capabilities(): breeze control supersedes the legacy ids *)
Advertised == IF PCTL \in Prof THEN Prof \ {PAWAY, PLESS} ELSE Prof
GetCaps == /\ sup' = Advertised /\ out' = NoOut /\ UNCHANGED <<attr, beep, upd, reg, written, rb>>

(* the unit spreads its capabilities over two pages (ids below 0x40 on the first) and the request for the second page goes unanswered: what the    *)
(* first page announced still counts - taken as it stands, the breeze control that would supersede the legacy ids was on the page that never came *)
GetCapsPage1 == /\ sup' = {i \in Prof : i < 64} /\ out' = NoOut /\ UNCHANGED <<attr, beep, upd, reg, written, rb>>

Angles == {0, 1, 25, 50, 75, 100}
Rates == {100, 50, 75, 1, 20, 40, 60, 80}
DNext == \/ \E b \in BOOLEAN : SetBreezeAway(b) \/ SetBreezeMild(b) \/ SetBreezeless(b) \/ SetIeco(b) \/ SetBeep(b)
         \/ \E v \in Rates : SetRate(v)
         \/ \E v \in Angles : SetLR(v) \/ SetUD(v)
         \/ Apply \/ Refresh \/ GetCaps \/ GetCapsPage1 \/ StartSelfClean \/ CleanDone

(* ---------------- properties ---------------- *)
ReadBackEqual == rb
DeviceSingleBreeze == ~(PAWAY \in DOMAIN reg /\ PLESS \in DOMAIN reg /\ reg[PAWAY] = 2 /\ reg[PLESS] = 1)
ClientSingleBreeze == attr.breeze \in 1..4
(* the ids of a property write are exactly the Map ids touched since the previous apply, each once, plus the buzzer *)
WriteIsUpd == [][(out'.b0.sent /\ PCLEAN \notin DOMAIN out'.b0.w) => (upd # {} /\ DOMAIN out'.b0.w = upd \cap MapIds)]_dvars
NoWriteWithoutChange == [][(upd = {} /\ out'.b0.sent) => DOMAIN out'.b0.w = {PCLEAN}]_dvars
ClearedByApply == [][out'.b0.sent /\ PCLEAN \notin DOMAIN out'.b0.w => upd' = {}]_dvars
DTypeOK == /\ upd \subseteq MapIds /\ sup \subseteq AllIds /\ DOMAIN reg = Prof
=======================================================================
