---------------------------- MODULE Discover ----------------------------
(* UDP discovery as a state machine (C18); the byte layouts are in DiscLayout.tla.                  *)
(* Replies arrive in any order and multiplicity; the first datagram of an address decides            *)
(* (FirstDatagramWins); one parse task per address; the result is one device per address whose       *)
(* deciding reply was well-formed; nothing a responder sends makes the run raise.                    *)
EXTENDS DiscLayout
(* ---------------------------------------------------------------------------------------------- *)
(* Part 2: the run                                                                                *)
(* ---------------------------------------------------------------------------------------------- *)
CONSTANTS Hosts,        \* addresses that answer
          MaxCopies     \* each host sends 1..MaxCopies datagrams
VARIABLES Copies,       \* Copies[h]: how many datagrams host h sends          (chosen initially, then fixed)
          Good,         \* Good[h][k]: is the k-th copy host h sends well-formed? (chosen initially, then fixed)
          sent,         \* [h -> number of copies already delivered]   (copies of one host arrive in order, hosts interleave freely)
          seen,         \* _discovered_ips
          tasks,        \* hosts for which a parse task was created, with the verdict of the deciding datagram
          done, result
dvars == <<Copies, Good, sent, seen, tasks, done, result>>
DInit == /\ Copies \in [Hosts -> 1..MaxCopies] /\ Good \in [Hosts -> [1..MaxCopies -> BOOLEAN]]
         /\ sent = [h \in Hosts |-> 0] /\ seen = {} /\ tasks = {} /\ done = FALSE /\ result = {}
Arrive(h) == /\ ~done /\ sent[h] < Copies[h]
             /\ sent' = [sent EXCEPT ![h] = @ + 1]
             /\ seen' = seen \cup {h}
             /\ tasks' = IF h \in seen THEN tasks ELSE tasks \cup {<<h, Good[h][sent[h] + 1]>>}      \* FirstDatagramWins
             /\ UNCHANGED <<Copies, Good, done, result>>
Finish == /\ ~done /\ done' = TRUE
          /\ result' = {t[1] : t \in {x \in tasks : x[2]}}          \* gather: tasks of bad replies yield nothing, and nothing raises
          /\ UNCHANGED <<Copies, Good, sent, seen, tasks>>
DNext == (\E h \in Hosts : Arrive(h)) \/ Finish
DSpec == DInit /\ [][DNext]_dvars
Consistent(h) == \A j, k \in 1..Copies[h] : Good[h][j] = Good[h][k]
(* one device per responding address, whatever the order and multiplicity; bad responders are omitted and spoil nothing *)
OnePerGoodHost == done => \A h \in Hosts : Consistent(h) => ((h \in result) <=> (Good[h][1] /\ sent[h] > 0))
AtMostOne == Cardinality(result) <= Cardinality(Hosts)
FirstWins == done => \A t \in tasks : (t[1] \in result) = t[2]
=======================================================================
