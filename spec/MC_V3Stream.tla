---------------------------- MODULE MC_V3Stream ----------------------------
(* Exhaustive instance: every stream of the family below, EVERY segmentation (any number of cuts). *)
EXTENDS V3Stream
CONSTANT MaxPackets, Rich
Pkt(sz, fill) == <<131, 112>> \o BE(sz, 2) \o <<32, 3>> \o fill
Fills(n) == IF Rich THEN {Zeros(n), [k \in 1..n |-> IF Mod(k, 2) = 1 THEN 131 ELSE 112], [k \in 1..n |-> IF Mod(k, 2) = 1 THEN 112 ELSE 131],
                          [k \in 1..n |-> IF k = n THEN 131 ELSE 32]}
            ELSE {[k \in 1..n |-> IF Mod(k, 2) = 1 THEN 131 ELSE 112], [k \in 1..n |-> IF k = n THEN 131 ELSE 112]}
Packets == UNION {{Pkt(sz, f) : f \in Fills(sz + 2)} : sz \in (IF Rich THEN {0, 1, 3} ELSE {0, 2})}
Garbage == IF Rich THEN {<<>>, <<0>>, <<131>>, <<112, 255, 131>>} ELSE {<<>>, <<112, 131>>}
Part == {[g |-> g, p |-> p] : g \in Garbage, p \in Packets}
Tail0 == {[g |-> g, p |-> <<>>] : g \in {<<>>, <<131>>}}
Families == UNION {[1..k -> Part] : k \in 1..MaxPackets}
MCInit == /\ \E f \in Families, t \in Tail0 : parts = (IF t.g = <<>> THEN f ELSE Append(f, t))
          /\ WellFormedParts(parts) /\ stream = Concat(parts)
          /\ pos = 0 /\ buffer = <<>> /\ queue = <<>>
AllDeliveredAtEnd == pos = Len(stream) => Len(queue) = NPackets(parts)
=======================================================================
