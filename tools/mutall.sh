#!/bin/sh
# mutall.sh <pattern>  -- run the quick check of each kept mutant matching /verif/seeded/<pattern> against /repo (applied then reverted)
for m in /verif/seeded/$1; do
  id=$(basename "$m" | cut -c1-3)
  echo "$(basename "$m"): $(/verif/tools/mutest.sh "$m/patch.diff" "$id" | head -1 | cut -c1-200)"
done
