#!/bin/sh
# mutpar.sh [lanes]  -- re-run the quick check of EVERY kept seeded change, each against its own scratch worktree of /repo
# (VERIF_REPO), several properties in parallel (one lane per property, so evidence/replay/.work paths never collide).
# Writes /verif/.work/mutpar/<name>.txt ; prints a summary.  /repo itself is not touched.
LANES="${1:-4}"
OUT=/verif/.work/mutpar; mkdir -p "$OUT"; rm -f "$OUT"/*.txt
for id in C01 C02 C03 C04 C05 C06 C07 C08 C09 C10 C11 C12 C13 C14 C15 C16 C17 C18 C19 C20; do echo $id; done | xargs -P "$LANES" -I{} sh -c "
  id={}
  for m in /verif/seeded/\${id}_m*; do
    name=\$(basename \"\$m\"); W=/tmp/mw_\$name
    git -C /repo worktree add -q --detach \"\$W\" HEAD 2>/dev/null || { echo WORKTREE-FAILED > $OUT/\$name.txt; continue; }
    if (cd \"\$W\" && git apply \"\$m/patch.diff\" 2>/dev/null); then
      (cd /verif && VERIF_REPO=\"\$W\" ./check \"\$id\" --tier quick > $OUT/\$name.log 2>&1; echo \"exit=\$? \$(grep -c '^VIOLATION' $OUT/\$name.log) violations\" > $OUT/\$name.txt)
    else
      echo APPLY-FAILED > $OUT/\$name.txt
    fi
    git -C /repo worktree remove --force \"\$W\" 2>/dev/null
  done"
git -C /repo worktree prune
for f in "$OUT"/*.txt; do echo "$(basename "$f" .txt): $(cat "$f")"; done | sort > "$OUT/SUMMARY"
echo "caught: $(grep -c 'exit=1' "$OUT/SUMMARY") of $(wc -l < "$OUT/SUMMARY")"; grep -v 'exit=1' "$OUT/SUMMARY"
