import json,re,sys,collections
from harness.common import Ctx
ver=int(sys.argv[1]); 
ctx=Ctx("C07","quick",0)
trs=json.load(open("/verif/.work/walks.json"))
bad=ctx.validate_chains("Trace_Mon", trs, consts=f"CONSTANTS\nRetries = 3\nVer = {ver}\nCtrMod = 65536\n")
for k,v in collections.Counter(re.sub(r" @event \d+","",v) for v in bad.values()).most_common(12): print(v,k)
ks=[k for k,v in bad.items() if not v.startswith("C09")]
if ks:
    k=min(ks, key=lambda k: int(re.search(r"@event (\d+)",bad[k]).group(1)))
    at=int(re.search(r"@event (\d+)",bad[k]).group(1))
    print(bad[k])
    for i,e in enumerate(trs[k]["events"][:at]):
        if i>at-28: print(i+1,e)
