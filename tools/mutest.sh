#!/bin/sh
# mutest.sh <patch.diff> <Cxx> [tier]  -- apply to /repo, run the check, revert.  Prints exit code.
P="$1"; ID="$2"; TIER="${3:-quick}"
cd /repo && git apply "$P" || { echo APPLY-FAILED; exit 3; }
cd /verif && ./check "$ID" --tier "$TIER" > /tmp/mutest_$$.log 2>&1; RC=$?
git -C /repo checkout -- . 
echo "exit=$RC $(grep -c '^VIOLATION' /tmp/mutest_$$.log) violations; $(grep '^VIOLATION' /tmp/mutest_$$.log | head -2 | cut -c1-220)"
[ $RC = 2 ] && tail -5 /tmp/mutest_$$.log
rm -f /tmp/mutest_$$.log
