#!/usr/bin/env python3
"""Writes /verif/seeded/INDEX.md: one line per kept seeded change (what it changes, what it needs, which check result)."""
import json, glob, os
rows = []
for d in sorted(glob.glob("/verif/seeded/C*_m*/")):
    m = json.load(open(d + "meta.json"))
    name = os.path.basename(d.rstrip("/"))
    res = m.get("check_result", "")
    clause = res.split("#", 1)[1].strip() if "#" in res else res
    rows.append(f"| {name} | {m.get('summary', '')[:160].replace('|', '/').replace(chr(10), ' ')} | {m.get('needs', '')[:140].replace('|', '/').replace(chr(10), ' ')} | "
                f"{'caught' if m.get('caught') else 'MISSED'} (quick) | {clause[:140].replace('|', '/')} |")
open("/verif/seeded/INDEX.md", "w").write(
    "# Seeded changes kept under /verif/seeded\n\nEach directory holds patch.diff, the demonstration (demo*.py) and meta.json. "
    "`tools/mutall.sh '<pattern>'` re-runs the quick check of every kept change against /repo (apply, check, revert).\n\n"
    "| change | summary | needs | result | first reported clause |\n|---|---|---|---|---|\n" + "\n".join(rows) + "\n")
print(len(rows), "rows")
