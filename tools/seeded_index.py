#!/usr/bin/env python3
"""Writes /verif/seeded/INDEX.md: one line per kept seeded change (what it changes, what it needs, which check result)."""
import json, glob, os
rows = []
for d in sorted(glob.glob("/verif/seeded/C*_m*/")):
    m = json.load(open(d + "meta.json"))
    name = os.path.basename(d.rstrip("/"))
    res = m.get("check_result", "")
    clause = res.split("#", 1)[1].strip() if "#" in res else res
    reg = m.get("regression", {})
    if m.get("caught") and not res.startswith("exit=1"):
        clause = f"(first run: {clause[:60]}) caught after strengthening - regression {reg.get('run', '')}: {reg.get('result', '')}"
    if not m.get("caught") and m.get("note"):
        clause = m["note"]
    rows.append(f"| {name} | {m.get('summary', '')[:160].replace('|', '/').replace(chr(10), ' ')} | {m.get('needs', '')[:140].replace('|', '/').replace(chr(10), ' ')} | "
                f"{'caught' if m.get('caught') else 'not flagged (documented)'} (quick) | {clause[:260].replace('|', '/')} |")
open("/verif/seeded/INDEX.md", "w").write(
    "# Seeded changes kept under /verif/seeded\n\nEach directory holds patch.diff, the demonstration (demo*.py) and meta.json. "
    "`tools/mutall_wt.sh [lanes]` re-runs the quick check of every kept change, each against its own scratch worktree of /repo (/repo itself is not touched); the column result is the latest full regression.\n\n"
    "| change | summary | needs | result | first reported clause |\n|---|---|---|---|---|\n" + "\n".join(rows) + "\n")
print(len(rows), "rows")
