#!/venv/bin/python
"""keep_mutant.py <src dir> <pid> <name>: verify (scratch worktree), run the quick check against it in /repo, keep under /verif/seeded/."""
import json, os, subprocess, sys, shutil
from pathlib import Path
src, pid, name = Path(sys.argv[1]), sys.argv[2], sys.argv[3]
tier = sys.argv[4] if len(sys.argv) > 4 else "quick"
v = subprocess.run(["/verif/tools/verify_mutant.sh", str(src)], capture_output=True, text=True).stdout.strip().splitlines()
ok = v and v[-1] == "VERIFIED"
m = subprocess.run(["/verif/tools/mutest_wt.sh" if os.environ.get("MUTEST") == "wt" else "/verif/tools/mutest.sh", str(src / "patch.diff"), pid, tier], capture_output=True, text=True).stdout.strip()
print(name, "|", v[-2] if len(v) > 1 else v, "|", v[-1] if v else "?", "|", m[:200])
if not ok:
    sys.exit(1)
dst = Path("/verif/seeded") / name
dst.mkdir(parents=True, exist_ok=True)
shutil.copy(src / "patch.diff", dst / "patch.diff")
for d in src.glob("demo*.py"):
    shutil.copy(d, dst / d.name)
meta = json.load(open(src / "meta.json")) if (src / "meta.json").exists() else {}
meta.update({"breaks_property": pid, "verified_by": "tools/verify_mutant.sh: demo passes on clean tree, fails with patch; 65 repo tests still pass",
             "verify_output": v[-2] if len(v) > 1 else "", "check_run": f"./check {pid} --tier {tier} with patch applied to /repo, then reverted",
             "check_result": m.splitlines()[0] if m else "", "caught": m.startswith("exit=1")})
json.dump(meta, open(dst / "meta.json", "w"), indent=1)
