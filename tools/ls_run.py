import sys
from harness.tlc import run_tlc
ver=int(sys.argv[1]) if len(sys.argv)>1 else 3
calls=sys.argv[2] if len(sys.argv)>2 else "2"
cfg=f"""SPECIFICATION Spec
CONSTANTS
Retries = 2
Ver = {ver}
CtrMod = 3
MaxCalls = {calls}
MaxConn = 3
MaxFly = 2
MaxKeys = 3
Life = TRUE
HSClasses <- HSSome
DataClasses <- {'DataSome' if ver==3 else 'V2All'}
INVARIANT NoViolation
INVARIANT TypeOK
INVARIANT KeyImpliesIssued
CHECK_DEADLOCK FALSE
"""
import re
try:
    r=run_tlc("MC_LanSession",cfg,name="mc_ls",workers=16,timeout=1800,heap="8g")
    print(r.ok,r.violated,r.generated,r.distinct,r.depth,round(r.wall_s,1))
    if r.violated:
        # compact trace: evs and bad per state
        for st in r.error_states:
            ev=re.search(r"/\\ evs = (.*?)\n/\\ ",st,re.S)
            bad=re.search(r"bad \|-> (\{.*?\})",st,re.S)
            pcv=re.search(r'/\\ pc = "(\w+)"',st)
            print("STATE", pcv.group(1) if pcv else "", "bad=",bad.group(1) if bad else "", "\n    evs=", re.sub(r"\s+"," ",ev.group(1)) if ev else "")
except Exception as e:
    print(str(e)[-3000:])
