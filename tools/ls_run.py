"""Development helper: run the LanSession model check.  usage: ls_run.py ver retries calls [hs data conn fly keys hsretries]"""
import sys, re
from harness.common import Ctx
from harness import session
a = sys.argv[1:]
ver, retries, calls = int(a[0]), int(a[1]), int(a[2])
kw = {}
if len(a) > 3: kw["hs"] = a[3]
if len(a) > 4: kw["data"] = a[4]
if len(a) > 5: kw["conn"] = int(a[5])
if len(a) > 6: kw["fly"] = int(a[6])
if len(a) > 7: kw["keys"] = int(a[7])
if len(a) > 8: kw["hsretries"] = int(a[8])
ctx = Ctx("C07", "quick", 0)
try:
    r = session.mc(ctx, ver, retries, name="mc_ls", calls=calls, coverage=True, **kw)
    print(r.ok, r.generated, r.distinct, r.depth, round(r.wall_s, 1))
    print(ctx.notes)
except Exception as e:
    out = open("/verif/.work/mc_ls/tlc.out").read()
    for st in re.findall(r"^State \d+:.*?(?=^State \d+:|^\d+ states generated|\Z)", out, re.S | re.M):
        ev = re.search(r"/\\ evs = (.*?)\n/\\ ", st, re.S)
        bad = re.search(r"bad \|-> (\{.*?\})", st, re.S)
        pcv = re.search(r'/\\ pc = "(\w+)"', st)
        print("STATE", pcv.group(1) if pcv else "", "bad=", bad.group(1) if bad else "", "\n    evs=", re.sub(r"\s+", " ", ev.group(1)) if ev else "")
    print(str(e)[-1500:])
