#!/bin/sh
# mutest_wt.sh <patch.diff> <Cxx> [tier]  -- like mutest.sh but against a scratch worktree of /repo (VERIF_REPO); /repo is untouched.
P="$1"; ID="$2"; TIER="${3:-quick}"; W=/tmp/mtw_$$
git -C /repo worktree add -q --detach "$W" HEAD || { echo WORKTREE-FAILED; exit 3; }
(cd "$W" && git apply "$P") || { echo APPLY-FAILED; git -C /repo worktree remove --force "$W"; exit 3; }
cd "${VERIF_DIR:-/verif}" && VERIF_REPO="$W" ./check "$ID" --tier "$TIER" > /tmp/mutest_$$.log 2>&1; RC=$?
git -C /repo worktree remove --force "$W"
echo "exit=$RC $(grep -c '^VIOLATION' /tmp/mutest_$$.log) violations; $(grep '^VIOLATION' /tmp/mutest_$$.log | head -2 | cut -c1-220)"
[ $RC = 2 ] && tail -5 /tmp/mutest_$$.log
rm -f /tmp/mutest_$$.log
