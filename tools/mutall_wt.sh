#!/bin/sh
# mutall_wt.sh [lanes]  -- from any checkout of /verif (e.g. a `vp run` snapshot): the quick check of every kept seeded change, each against its
# own scratch worktree of /repo (VERIF_REPO), one lane per property.  Results in $PWD/.work/mp/<name>.txt and SUMMARY.  /repo is not touched.
LANES="${1:-5}"
V=$PWD; mkdir -p $V/.work/mp; rm -f $V/.work/mp/*.txt
for n in 07 08 09 06 13 16 19 01 02 03 04 05 10 11 12 14 15 17 18 20; do echo C$n; done | xargs -P "$LANES" -I{} sh -c "
  id={}
  for m in $V/seeded/\${id}_m*; do
    name=\$(basename \$m); W=/tmp/mws_\$name
    git -C /repo worktree add -q --detach \$W HEAD 2>/dev/null || { echo WORKTREE-FAILED > $V/.work/mp/\$name.txt; continue; }
    if (cd \$W && git apply \$m/patch.diff 2>/dev/null); then
      (cd $V && VERIF_REPO=\$W ./check \$id --tier quick > $V/.work/mp/\$name.log 2>&1; echo \"exit=\$? \$(grep -c ^VIOLATION $V/.work/mp/\$name.log) violations\" > $V/.work/mp/\$name.txt)
    else
      echo APPLY-FAILED > $V/.work/mp/\$name.txt
    fi
    git -C /repo worktree remove --force \$W 2>/dev/null
  done"
for f in $V/.work/mp/*.txt; do echo "$(basename $f .txt): $(cat $f)"; done | sort > $V/.work/mp/SUMMARY
echo "caught: $(grep -c exit=1 $V/.work/mp/SUMMARY) of $(wc -l < $V/.work/mp/SUMMARY)"; grep -v exit=1 $V/.work/mp/SUMMARY
