#!/bin/sh
# verify_mutant.sh <mutant dir with patch.diff demo.py meta.json>
# In a scratch worktree: demo passes clean, patch applies, 65 tests still pass, demo fails with patch.
D="$1"; W=/tmp/mutverify_$$
git -C /repo worktree add -q "$W" HEAD || exit 2
cd "$W"
cp "$D"/demo*.py . 2>/dev/null
DEMO=$(ls demo*.py | head -1)
run_demo() { case "$DEMO" in *test*) /venv/bin/python -m pytest -q -p no:cacheprovider "$DEMO" >/dev/null 2>&1;; *) timeout 300 /venv/bin/python "$DEMO" >/dev/null 2>&1;; esac; }
run_demo; C=$?
git apply "$D/patch.diff" || { echo "APPLY-FAILED"; cd /; git -C /repo worktree remove --force "$W"; exit 3; }
T=$(/venv/bin/python -m pytest -q -p no:cacheprovider --timeout=900 --continue-on-collection-errors 2>&1 | tail -1)
run_demo; M=$?
cd /; git -C /repo worktree remove --force "$W"
echo "demo_clean_exit=$C demo_mutant_exit=$M tests='$T'"
[ "$C" = 0 ] && [ "$M" != 0 ] && echo "$T" | grep -q "65 passed" && echo VERIFIED || echo NOT-VERIFIED
