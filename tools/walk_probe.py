import logging, random, sys, json, time
logging.disable(logging.CRITICAL)
from harness.common import *
from harness.sched import *
def walk(seed, ver=3, retries=3, steps=40, life=600):
    rng=random.Random(seed)
    s=Session(version=ver, retries=retries, lifetime=life, seed=seed)
    for _ in range(steps):
        en=s.enabled()
        # weights
        w=[]
        for a in en:
            if a=="cancel": w.append(0.15)
            elif a=="peerclose": w.append(0.1)
            elif a in ("jumpauth","jumplife"): w.append(0.3)
            elif a=="call_auth_bad": w.append(0.3)
            elif a=="connhang" or a=="connrefuse": w.append(0.3)
            elif isinstance(a,tuple): w.append(2.0)
            else: w.append(1.0)
        a=rng.choices(en,w)[0]
        hs=rng.choice(["valid"]*4+REPLY_CLASSES_HS)
        dt=rng.choice(["valid"]*4+(REPLY_CLASSES_DATA if ver==3 else REPLY_CLASSES_V2))
        # the reply class applies to whatever is transmitted in this step: supply both, sched picks by kind
        s.next_reply_hs, s.next_reply_data = hs, dt
        if a=="call_send": s.call_send()
        elif a=="call_auth_good": s.call_auth("good")
        elif a=="call_auth_bad": s.call_auth("bad")
        elif a=="connok": s.conn("ok")
        elif a=="connrefuse": s.conn("refuse")
        elif a=="connhang": s.conn("hang")
        elif a=="timer": s.timer()
        elif a=="cancel": s.cancel()
        elif a=="peerclose": s.peerclose()
        elif a=="jumpauth": s.jumpauth()
        elif a=="jumplife": s.jumplife()
        else: s.deliver(a[1])
    tr=list(s.trace); s.close(); return tr
if __name__=="__main__":
    t0=time.time()
    trs=[{"events":walk(k, ver=int(sys.argv[1]))} for k in range(int(sys.argv[2]))]
    print("walks",len(trs),"events",sum(len(t["events"]) for t in trs),time.time()-t0)
    json.dump(trs,open("/verif/.work/walks.json","w"))
