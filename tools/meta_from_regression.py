#!/usr/bin/env python3
"""meta_from_regression.py <SUMMARY> <label>: record in every seeded/<name>/meta.json what the full regression (tools/mutall_wt.sh) observed."""
import json, sys, re
from pathlib import Path
summary, label = Path(sys.argv[1]), sys.argv[2]
n = ok = 0
for line in summary.read_text().splitlines():
    m = re.match(r"(C\d\d_m\d+): (.*)", line)
    if not m:
        continue
    name, res = m.groups()
    p = Path("/verif/seeded") / name / "meta.json"
    if not p.exists():
        continue
    meta = json.loads(p.read_text())
    meta["regression"] = {"run": label, "result": res}
    if res.startswith("exit=1"):
        meta["caught"] = True
        ok += 1
    n += 1
    p.write_text(json.dumps(meta, indent=1))
print(f"updated {n} metas, {ok} caught")
