"""Model NetHome Plus cloud server behind httpx.MockTransport (independent verification with hashlib only)."""
from __future__ import annotations

import hashlib
import json
from urllib.parse import parse_qsl

import httpx

from .common import B

APP_KEY = "3742e9e5842d4ad59c2db887e12449f9"
KIND = {"/v1/user/login/id/get": "lid", "/v1/user/login": "login", "/v1/iot/secure/getToken": "tok"}


class ModelCloud:
    def __init__(self, account: str, password: str, *, rng, script=None, token_for=None):
        self.account, self.password = account, password
        self.accounts = None                  # optional {account: password}: several accounts served by one cloud (one per region)
        self.session_account = {}             # session id -> account it was issued to
        self.login_ids = {}                   # login id -> account
        self.rng = rng
        self.script = list(script or [])      # outcomes of the coming attempts ("ok" when exhausted)
        self.events = []
        self.login_id = None
        self.sessions = set()
        self.token_list = []                  # list served by getToken: dicts udpId/token/key (strings)
        self.token_for = token_for            # optional fn(udpid) -> list
        self.verify = True

    def client(self):
        return httpx.AsyncClient(transport=httpx.MockTransport(self.handle))

    def _fresh(self, n=16):
        return "".join(self.rng.choice("0123456789abcdef") for _ in range(n))

    def handle(self, request: httpx.Request) -> httpx.Response:
        path = request.url.path
        pairs = parse_qsl(request.content.decode("ascii"), keep_blank_values=True)
        fields = dict(pairs)
        kind = KIND.get(path, "?")
        out = self.script.pop(0) if self.script else "ok"
        # reference evaluation of what a conforming server recomputes
        order = sorted((k for k in range(len(pairs)) if pairs[k][0] != "sign"), key=lambda k: pairs[k][0])
        query = "&".join(f"{pairs[k][0]}={pairs[k][1]}" for k in order)
        sign_in = (path + query + APP_KEY).encode("ascii")
        o = {"sign_in": B(sign_in), "sign_out": B(hashlib.sha256(sign_in).digest()), "pw1_in": [], "pw1_out": [], "pw2_in": [], "pw2_out": []}
        good = fields.get("sign") == hashlib.sha256(sign_in).hexdigest()
        if self.accounts is not None and kind in ("lid", "login"):
            acct = fields.get("loginAccount", "")
            if acct in self.accounts:         # requests are verified against the account they name
                self.account, self.password = acct, self.accounts[acct]
                if kind == "login":
                    self.login_id = next((l for l, a in reversed(list(self.login_ids.items())) if a == acct), self.login_id)   # the latest one issued to it
        if kind == "login":
            h1 = hashlib.sha256(self.password.encode("ascii"))
            pw2_in = ((self.login_id or "") + h1.hexdigest() + APP_KEY).encode("ascii")
            o.update(pw1_in=B(self.password.encode("ascii")), pw1_out=B(h1.digest()), pw2_in=B(pw2_in), pw2_out=B(hashlib.sha256(pw2_in).digest()))
            good = good and fields.get("password") == hashlib.sha256(pw2_in).hexdigest() and fields.get("loginAccount") == self.account
        if kind == "lid":
            good = good and fields.get("loginAccount") == self.account
        if kind == "tok":
            good = good and fields.get("sessionId") in self.sessions
        if out == "ok" and self.verify and not good:
            out = "api"                       # a conforming server rejects what it cannot verify
        ev = {"ev": "req", "path": B(path.encode()), "fields": [{"k": B(k.encode()), "v": B(v.encode())} for k, v in pairs], "order": [k + 1 for k in order],
              "o": o, "out": out, "lid": [], "sid": []}
        self.events.append(ev)
        if out == "timeout":
            raise httpx.ReadTimeout("model cloud: no answer", request=request)
        if out == "http":
            code = self.rng.choice([400, 404, 500, 503, 301, 302, 304, 307])
            return httpx.Response(code, request=request, text="error", headers={"location": "http://captive.portal/"} if code in (301, 302, 307) else None)
        if out == "api":
            return httpx.Response(200, request=request, text=json.dumps({"errorCode": str(self.rng.choice([3101, 3102, 3106, 3004])), "msg": "model cloud api error"}))
        if kind == "lid":
            self.login_id = self._fresh(24)
            self.login_ids[self.login_id] = self.account
            ev["lid"] = B(self.login_id.encode())
            return httpx.Response(200, request=request, text=json.dumps({"errorCode": "0", "msg": "ok", "result": {"loginId": self.login_id}}))
        if kind == "login":
            sid = self._fresh(32)
            self.sessions.add(sid)
            self.session_account[sid] = self.account
            ev["sid"] = B(sid.encode())
            return httpx.Response(200, request=request, text=json.dumps({"errorCode": "0", "msg": "ok", "result": {"sessionId": sid, "userId": "4711", "nickName": "x"}}))
        if kind == "tok":
            if self.accounts is not None:
                lst = self.token_for(fields.get("udpid", ""), self.session_account.get(fields.get("sessionId", ""), ""))
            else:
                lst = self.token_for(fields.get("udpid", "")) if self.token_for else self.token_list
            return httpx.Response(200, request=request, text=json.dumps({"errorCode": "0", "msg": "ok", "result": {"tokenlist": lst}}))
        return httpx.Response(404, request=request, text="no such endpoint")
