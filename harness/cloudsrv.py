"""Model NetHome Plus cloud server behind httpx.MockTransport (independent verification with hashlib only)."""
from __future__ import annotations

import hashlib
import json
from urllib.parse import parse_qsl

import httpx

from .common import B

APP_KEY = "3742e9e5842d4ad59c2db887e12449f9"
KIND = {"/v1/user/login/id/get": "lid", "/v1/user/login": "login", "/v1/iot/secure/getToken": "tok"}


class ModelCloud:
    def __init__(self, account: str, password: str, *, rng, script=None, token_for=None):
        self.account, self.password = account, password
        self.accounts = None                  # optional {account: password}: several accounts served by one cloud (one per region)
        self.session_account = {}             # session id -> account it was issued to
        self.login_ids = {}                   # login id -> account
        self.rng = rng
        self.script = list(script or [])      # outcomes of the coming attempts ("ok" when exhausted)
        self.events = []
        self.login_id = None
        self.sessions = set()
        self.token_list = []                  # list served by getToken: dicts udpId/token/key (strings)
        self.token_for = token_for            # optional fn(udpid) -> list
        self.verify = True
        self.single_session = False           # a new login supersedes the account's earlier sessions (as the vendor cloud does)
        self.delay = 0.0                      # seconds every answer takes

    def client(self):
        if self.delay:
            async def slow(request):
                import asyncio
                await asyncio.sleep(self.delay)
                return self.handle(request)
            return httpx.AsyncClient(transport=httpx.MockTransport(slow))
        return httpx.AsyncClient(transport=httpx.MockTransport(self.handle))

    def _fresh(self, n=16):
        return "".join(self.rng.choice("0123456789abcdef") for _ in range(n))

    def handle(self, request: httpx.Request) -> httpx.Response:
        path = request.url.path
        pairs = parse_qsl(request.content.decode("ascii"), keep_blank_values=True)
        fields = dict(pairs)
        kind = KIND.get(path, "?")
        out = self.script.pop(0) if self.script else "ok"
        # reference evaluation of what a conforming server recomputes
        order = sorted((k for k in range(len(pairs)) if pairs[k][0] != "sign"), key=lambda k: pairs[k][0])
        query = "&".join(f"{pairs[k][0]}={pairs[k][1]}" for k in order)
        sign_in = (path + query + APP_KEY).encode("ascii")
        o = {"sign_in": B(sign_in), "sign_out": B(hashlib.sha256(sign_in).digest()), "pw1_in": [], "pw1_out": [], "pw2_in": [], "pw2_out": []}
        good = fields.get("sign") == hashlib.sha256(sign_in).hexdigest()
        if self.accounts is not None and kind in ("lid", "login"):
            acct = fields.get("loginAccount", "")
            if acct in self.accounts:         # requests are verified against the account they name
                self.account, self.password = acct, self.accounts[acct]
                if kind == "login":
                    self.login_id = next((l for l, a in reversed(list(self.login_ids.items())) if a == acct), self.login_id)   # the latest one issued to it
        if kind == "login":
            h1 = hashlib.sha256(self.password.encode("ascii"))
            pw2_in = ((self.login_id or "") + h1.hexdigest() + APP_KEY).encode("ascii")
            o.update(pw1_in=B(self.password.encode("ascii")), pw1_out=B(h1.digest()), pw2_in=B(pw2_in), pw2_out=B(hashlib.sha256(pw2_in).digest()))
            good = good and fields.get("password") == hashlib.sha256(pw2_in).hexdigest() and fields.get("loginAccount") == self.account
        if kind == "lid":
            good = good and fields.get("loginAccount") == self.account
        if kind == "tok":
            good = good and fields.get("sessionId") in self.sessions
        if out == "ok" and self.verify and not good:
            out = "api"                       # a conforming server rejects what it cannot verify
        ev = {"ev": "req", "path": B(path.encode()), "fields": [{"k": B(k.encode()), "v": B(v.encode())} for k, v in pairs], "order": [k + 1 for k in order],
              "o": o, "out": out, "lid": [], "sid": []}
        self.events.append(ev)
        if out == "timeout":
            raise httpx.ReadTimeout("model cloud: no answer", request=request)
        if out == "http":
            code = self.rng.choice([400, 404, 500, 503, 301, 302, 304, 307, "gzip"])
            if code == "gzip":                # a 200 whose body does not match its Content-Encoding: an HTTP-level failure as well (httpx.DecodingError)
                return httpx.Response(200, request=request, content=b"this is not gzip", headers={"content-encoding": "gzip"})
            return httpx.Response(code, request=request, text="error", headers={"location": "http://captive.portal/"} if code in (301, 302, 307) else None)
        if out == "api":
            code = self.rng.choice([3101, 3102, 3106, 3004, -1, -100, 1, 65535])
            body = {"errorCode": self.rng.choice([str(code), code]), "msg": "model cloud api error"}
            if self.rng.random() < 0.5:       # some error answers carry a (meaningless) result member all the same
                body["result"] = self.rng.choice([None, {}, {"loginId": "0" * 24, "sessionId": "f" * 32, "tokenlist": []}])
            return httpx.Response(200, request=request, text=json.dumps(body))
        if kind == "lid":
            self.login_id = self._fresh(24)
            self.login_ids[self.login_id] = self.account
            ev["lid"] = B(self.login_id.encode())
            return httpx.Response(200, request=request, text=json.dumps({"errorCode": "0", "msg": "ok", "result": {"loginId": self.login_id}}))
        if kind == "login":
            sid = self._fresh(32)
            if self.single_session:
                self.sessions = {x for x in self.sessions if self.session_account.get(x) != self.account}
            self.sessions.add(sid)
            self.session_account[sid] = self.account
            ev["sid"] = B(sid.encode())
            return httpx.Response(200, request=request, text=json.dumps({"errorCode": "0", "msg": "ok", "result": {"sessionId": sid, "userId": "4711", "nickName": "x"}}))
        if kind == "tok":
            if self.accounts is not None:
                lst = self.token_for(fields.get("udpid", ""), self.session_account.get(fields.get("sessionId", ""), ""))
            else:
                lst = self.token_for(fields.get("udpid", "")) if self.token_for else self.token_list
            return httpx.Response(200, request=request, text=json.dumps({"errorCode": "0", "msg": "ok", "result": {"tokenlist": lst}}))
        return httpx.Response(404, request=request, text="no such endpoint")


# ------------------------------------------------------------------------------------------------------------
# SmartHome (MSmartHome) cloud - spec growth (spec/SmartHome.tla); verification with hashlib / hmac / refcrypto only
# ------------------------------------------------------------------------------------------------------------
import hmac as _hmac
from urllib.parse import parse_qs

from . import refcrypto as _rc

SH_HMAC_KEY = b"PROD_VnoClJI9aikS8dyy"
SH_APP_KEY = b"ac21b9f9cbfe4ca5a88562ef25e2b768"
SH_KIND = {"/v1/user/login/id/get": "lid", "/mj/user/login": "login", "/v2/luaEncryption/luaGet": "lua", "/v1/plugin/update/overseas/get": "plug"}
_NO_O = {k: [] for k in ("hmac_key", "hmac_msg", "hmac_out", "pw1_in", "pw1_out", "pw2_in", "pw2_out", "md1_in", "md1_out", "md2_in", "md2_out",
                         "iam_in", "iam_out", "kd_in", "kd_out", "aes_key", "aes_iv", "aes_in", "aes_out")}


def _s(x):
    return B(x.encode("utf-8")) if isinstance(x, str) else []


class ModelSmartHome:
    """Answers what it is scripted to answer and records every request with reference evaluations of the primitives
    (inputs as a conforming server would compute them from ITS OWN state; the spec re-derives and compares them)."""

    def __init__(self, account: str, password: str, *, rng, cn=False):
        self.account, self.password, self.rng, self.cn = account, password, rng, cn
        self.script = []
        self.events = []
        self.login_id = ""
        self.sn = ""                  # serial number of the running call (told by the driver, as a server would know its appliances)
        self.files = {}               # url -> (kind, payload bytes)
        self.iot = b"prod_secret123@muc" if cn else b"meicloud"
        self.lk = b"ad0ee21d48a64bf49f4fb583ab76e799" if cn else b"ac21b9f9cbfe4ca5a88562ef25e2b768"

    def client(self):
        return httpx.AsyncClient(transport=httpx.MockTransport(self.handle))

    def _fresh(self, n=16):
        return "".join(self.rng.choice("0123456789abcdef") for _ in range(n))

    def _kd(self):
        d = hashlib.sha256(SH_APP_KEY).digest()
        return d, d.hex()[:16].encode(), d.hex()[16:32].encode()

    def handle(self, request: httpx.Request) -> httpx.Response:
        if request.method == "GET":
            return self.handle_get(request)
        out = self.script.pop(0) if self.script else "ok"
        alias = parse_qs(request.url.query.decode("ascii")).get("alias", [""])[0]
        kind = SH_KIND.get(alias, "?")
        content = request.content
        try:
            body = json.loads(content.decode("utf-8"))
        except Exception:  # noqa: BLE001
            body = {}
        h = request.headers
        rnd = h.get("random", "")
        msg = self.iot + content + rnd.encode("ascii", "replace")
        o = dict(_NO_O)
        o.update(hmac_key=B(SH_HMAC_KEY), hmac_msg=B(msg), hmac_out=B(_hmac.new(SH_HMAC_KEY, msg, hashlib.sha256).digest()))
        bd = {"account": [], "password": [], "iampwd": [], "sn": [], "atype": [], "model": []}
        if kind == "lid":
            bd["account"] = _s(body.get("loginAccount"))
        elif kind == "login":
            iot = body.get("iotData", {}) if isinstance(body.get("iotData"), dict) else {}
            bd.update(account=_s(iot.get("loginAccount")), password=_s(iot.get("password")), iampwd=_s(iot.get("iampwd")))
            pw = self.password.encode("ascii")
            h1 = hashlib.sha256(pw).digest()
            pw2_in = self.login_id.encode() + h1.hex().encode() + self.lk
            m1 = hashlib.md5(pw).digest()
            m2 = hashlib.md5(m1.hex().encode()).digest()
            iam_in = self.login_id.encode() + m2.hex().encode() + self.lk
            o.update(pw1_in=B(pw), pw1_out=B(h1), pw2_in=B(pw2_in), pw2_out=B(hashlib.sha256(pw2_in).digest()), md1_in=B(pw), md1_out=B(m1),
                     md2_in=B(m1.hex().encode()), md2_out=B(m2), iam_in=B(iam_in), iam_out=B(hashlib.sha256(iam_in).digest()))
        elif kind == "lua":
            bd.update(sn=_s(body.get("applianceSn")), atype=_s(body.get("applianceType")))
            d, key, iv = self._kd()
            padded = _rc.pkcs7_pad(self.sn.encode("utf-8"))
            o.update(kd_in=B(SH_APP_KEY), kd_out=B(d), aes_key=B(key), aes_iv=B(iv), aes_in=B(padded), aes_out=B(_rc.cbc_encrypt(key, padded, iv)))
        elif kind == "plug":
            al = body.get("applianceList")
            a0 = al[0] if isinstance(al, list) and al and isinstance(al[0], dict) else {}
            bd.update(atype=_s(a0.get("appType")), model=_s(a0.get("appModel")))
        ev = {"ev": "req", "path": _s(request.url.path), "alias": _s(alias),
              "hdr": {"sign": _s(h.get("sign", "")), "random": _s(rnd), "token": _s(h.get("accessToken", "")), "sver": _s(h.get("secretVersion", "")),
                      "ctype": _s(h.get("content-type", ""))},
              "content": B(content), "body": bd, "o": o, "out": out, "lid": [], "tok": [], "fname": [], "url": []}
        self.events.append(ev)
        if out == "timeout":
            raise httpx.ReadTimeout("model cloud: no answer", request=request)
        if out == "http":
            return httpx.Response(self.rng.choice([400, 403, 404, 500, 502, 503]), request=request, text="error")
        if out == "api":
            return httpx.Response(200, request=request, text=json.dumps({"code": self.rng.choice([1, "40001", 3101, "65012"]), "msg": "model cloud api error"}))

        def ok(data):
            return httpx.Response(200, request=request, text=json.dumps({"code": self.rng.choice([0, "0"]), "msg": "ok", "data": data}))
        if kind == "lid":
            self.login_id = self._fresh(24)
            ev["lid"] = _s(self.login_id)
            return ok({"loginId": self.login_id})
        if kind == "login":
            tok = self._fresh(40)
            ev["tok"] = _s(tok)
            return ok({"mdata": {"accessToken": tok, "tokenPwdInfo": {}}, "uid": "1", "nickName": "x"})
        if kind in ("lua", "plug"):
            name = ("T_0000_%s_%s.lua" if kind == "lua" else "plugin_%s_%s.zip") % (self._fresh(2).upper(), self._fresh(8))
            url = "https://files.model-cloud.test/%s/%s?sig=%s" % (kind, name, self._fresh(12))
            if kind == "lua":
                text = "-- lua %s\nfunction jsonToData(j) return '%s' end\n" % (self._fresh(6), self._fresh(self.rng.randrange(0, 40)))
                payload = text.encode("utf-8")
            else:
                payload = self.rng.randbytes(self.rng.randrange(0, 96))
            self.files[url] = (kind, payload)
            ev["fname"], ev["url"] = _s(name), _s(url)
            return ok({"fileName": name, "url": url} if kind == "lua" else {"result": [{"title": name, "url": url, "version": "1"}]})
        return httpx.Response(404, request=request, text="no such endpoint")

    def handle_get(self, request: httpx.Request) -> httpx.Response:
        out = self.script.pop(0) if self.script else "ok"
        url = str(request.url)
        kind, payload = self.files.get(url, ("?", b""))
        o = dict(_NO_O)
        ev = {"ev": "get", "url": _s(url), "out": out, "text": [], "content": [], "o": o}
        self.events.append(ev)
        if out == "timeout":
            raise httpx.ReadTimeout("model cloud: no answer", request=request)
        if out == "http":
            return httpx.Response(self.rng.choice([403, 404, 500, 503]), request=request, text="error")
        if kind == "lua":
            d, key, iv = self._kd()
            padded = _rc.pkcs7_pad(payload)
            ct = _rc.cbc_encrypt(key, padded, iv)
            ev["text"] = _s(ct.hex())
            o.update(kd_in=B(SH_APP_KEY), kd_out=B(d), aes_key=B(key), aes_iv=B(iv), aes_in=B(ct), aes_out=B(_rc.cbc_decrypt(key, ct, iv)))
            return httpx.Response(200, request=request, text=ct.hex())
        ev["content"] = B(payload)
        return httpx.Response(200, request=request, content=payload)
