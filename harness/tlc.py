"""Thin, total wrapper around TLC: run a (module, cfg) pair, parse the result.

All property verdicts in this framework are produced by TLC evaluating TLA+ from /verif/spec.
This module never interprets a property itself; it only runs TLC and parses its output.
"""
from __future__ import annotations

import json
import os
import re
import shutil
import subprocess
import time
from dataclasses import dataclass, field
from pathlib import Path

VERIF = Path(__file__).resolve().parent.parent
SPEC = VERIF / "spec"
WORK = VERIF / ".work"
JAR = "/opt/veriftools/tla/tla2tools.jar:/opt/veriftools/tla/CommunityModules-deps.jar"


class MachineryError(Exception):
    """TLC crashed / output unparsable / canary accepted: exit 2, never a property verdict."""


@dataclass
class TlcResult:
    ok: bool                 # "No error has been found" (or simulation finished without error)
    generated: int = 0
    distinct: int = 0
    depth: int = 0
    prints: list = field(default_factory=list)       # parsed PrintT tuples (as python lists) / raw strings
    violated: list = field(default_factory=list)     # names of violated invariants / properties
    error_states: list = field(default_factory=list)  # raw text of error-trace states
    coverage: dict = field(default_factory=dict)     # action -> (taken, distinct)
    raw: str = ""
    wall_s: float = 0.0
    cmd: str = ""


_PRINT_RE = re.compile(r'^<<\s*"(\w+)"')


def _parse_tla_value(s: str):
    """Parse the small subset of TLA+ values our PrintT lines use: tuples, strings, ints, booleans."""
    s = s.strip()
    pos = 0

    def ws():
        nonlocal pos
        while pos < len(s) and s[pos] in " \n\t":
            pos += 1

    def val():
        nonlocal pos
        ws()
        if s.startswith("<<", pos):
            pos += 2
            out = []
            ws()
            if s.startswith(">>", pos):
                pos += 2
                return out
            while True:
                out.append(val())
                ws()
                if s.startswith(",", pos):
                    pos += 1
                    continue
                if s.startswith(">>", pos):
                    pos += 2
                    return out
                raise ValueError(f"bad tuple at {pos}: {s[pos:pos+30]!r}")
        if s.startswith("{", pos):
            pos += 1
            out = []
            ws()
            if s.startswith("}", pos):
                pos += 1
                return out
            while True:
                out.append(val())
                ws()
                if s.startswith(",", pos):
                    pos += 1
                    continue
                if s.startswith("}", pos):
                    pos += 1
                    return out
                raise ValueError(f"bad set at {pos}")
        if s[pos] == '"':
            end = pos + 1
            buf = []
            while s[end] != '"':
                if s[end] == "\\":
                    buf.append(s[end + 1])
                    end += 2
                else:
                    buf.append(s[end])
                    end += 1
            pos = end + 1
            return "".join(buf)
        m = re.match(r"-?\d+", s[pos:])
        if m:
            pos += m.end()
            return int(m.group())
        m = re.match(r"TRUE|FALSE", s[pos:])
        if m:
            pos += m.end()
            return m.group() == "TRUE"
        m = re.match(r"[A-Za-z_][A-Za-z_0-9]*", s[pos:])
        if m:
            pos += m.end()
            return m.group()
        raise ValueError(f"cannot parse at {pos}: {s[pos:pos+30]!r}")

    v = val()
    return v


def run_tlc(module: str, cfg_text: str, *, name: str, workers: int = 1, env: dict | None = None,
            timeout: int = 600, cont: bool = False, simulate: str | None = None, depth: int | None = None,
            coverage: bool = False, heap: str = "3g", seed: int | None = None, deadlock_flag: bool = False,
            extra: list[str] | None = None, dfid: int | None = None) -> TlcResult:
    """Run TLC on /verif/spec/<module>.tla with the given cfg text (written to .work/<name>/)."""
    wd = WORK / name
    shutil.rmtree(wd / "md", ignore_errors=True)
    wd.mkdir(parents=True, exist_ok=True)
    cfg = wd / f"{module}.cfg"
    cfg.write_text(cfg_text)
    jt = wd / "jt"                                  # SANY unpacks the standard modules into java.io.tmpdir on every run: keep that out of /tmp
    shutil.rmtree(jt, ignore_errors=True)
    jt.mkdir(parents=True, exist_ok=True)
    cmd = ["java", f"-Djava.io.tmpdir={jt}", "-XX:+UseParallelGC", "-XX:ParallelGCThreads=2", "-XX:TieredStopAtLevel=4", "-Xss64m", f"-Xmx{heap}", "-cp", JAR, "tlc2.TLC",
           "-workers", str(workers), "-metadir", str(wd / "md"), "-noGenerateSpecTE",
           "-config", str(cfg)]
    if cont:
        cmd.append("-continue")
    if simulate is not None:
        cmd += ["-simulate", simulate]
    if depth is not None:
        cmd += ["-depth", str(depth)]
    if coverage:
        cmd += ["-coverage", "1"]
    if seed is not None:
        cmd += ["-seed", str(seed)]
    if deadlock_flag:
        cmd.append("-deadlock")
    if dfid is not None:
        cmd += ["-dfid", str(dfid)]
    if extra:
        cmd += extra
    cmd.append(str(SPEC / f"{module}.tla"))
    e = dict(os.environ)
    e.pop("JAVA_TOOL_OPTIONS", None)
    if env:
        e.update({k: str(v) for k, v in env.items()})
    t0 = time.time()
    try:
        p = subprocess.run(cmd, cwd=str(SPEC), env=e, capture_output=True, text=True, timeout=timeout)
    except subprocess.TimeoutExpired as ex:
        raise MachineryError(f"TLC timeout after {timeout}s: {' '.join(cmd)}") from ex
    out = p.stdout + "\n" + p.stderr
    (wd / "tlc.out").write_text(out)
    res = TlcResult(ok=False, raw=out, wall_s=time.time() - t0, cmd="tlc " + " ".join(cmd[8:]))
    m = re.findall(r"(\d+) states generated, (\d+) distinct states found", out)
    if m:
        res.generated, res.distinct = int(m[-1][0]), int(m[-1][1])
    m = re.search(r"depth of the complete state graph search is (\d+)", out)
    if m:
        res.depth = int(m.group(1))
    lines = out.splitlines()
    k = 0
    while k < len(lines):
        line = lines[k]
        if _PRINT_RE.match(line):
            # TLC pretty-prints long tuples over several lines: gather until << >> balance
            buf = line
            while buf.count("<<") > buf.count(">>") and k + 1 < len(lines):
                k += 1
                buf += " " + lines[k]
            try:
                res.prints.append(_parse_tla_value(buf))
            except Exception:
                res.prints.append(buf)
        k += 1
    for m in re.finditer(r"Invariant (\w+) is violated", out):
        res.violated.append(m.group(1))
    for m in re.finditer(r"Action property (\w+) is violated", out):
        res.violated.append(m.group(1))
    for m in re.finditer(r"Temporal properties were violated", out):
        res.violated.append("temporal")
    if "Deadlock reached" in out:
        res.violated.append("Deadlock")
    # error trace states
    res.error_states = re.findall(r"^State \d+:.*?(?=^State \d+:|^\d+ states generated|\Z)", out, re.S | re.M)
    if coverage:
        for m in re.finditer(r"^<(\w+) line (\d+), col \d+ to line \d+, col \d+ of module (\w+)>: (\d+):(\d+)", out, re.M):
            res.coverage[f"{m.group(3)}!{m.group(1)}@{m.group(2)}"] = (int(m.group(5)), int(m.group(4)))
    finished = ("Model checking completed. No error has been found." in out) or \
               (simulate is not None and "Error:" not in out and p.returncode == 0)
    res.ok = finished and not res.violated
    fatal = re.search(r"(Parsing or semantic analysis failed|TLC threw an unexpected exception|"
                      r"java\.lang\.\w*(Error|Exception)|Error: .*(was not|cannot|Attempted|evaluat|undefined|overflow))", out)
    if not res.ok and not res.violated:
        raise MachineryError(f"TLC did not complete normally ({name}); see {wd/'tlc.out'}\n" + out[-1500:])
    if fatal and not res.violated:
        raise MachineryError(f"TLC evaluation error ({name}); see {wd/'tlc.out'}\n" + out[-1500:])
    return res


def run_apalache(module: str, *, init: str, nxt: str, inv: str, length: int, name: str, timeout: int = 900) -> str:
    """Bounded symbolic check with Apalache (used for inductive invariants: init=IndInv, length=1).  Returns the command; raises MachineryError
    unless Apalache reports NoError."""
    wd = WORK / name
    shutil.rmtree(wd, ignore_errors=True)
    wd.mkdir(parents=True, exist_ok=True)
    cmd = ["apalache-mc", "check", f"--init={init}", f"--next={nxt}", f"--inv={inv}", f"--length={length}", f"--out-dir={wd}", str(SPEC / f"{module}.tla")]
    e = dict(os.environ)
    e.pop("JAVA_TOOL_OPTIONS", None)
    e["TMPDIR"] = str(wd)                          # the launcher's `mktemp -d -t SANY...` (java.io.tmpdir) then lands in .work, not /tmp
    try:
        p = subprocess.run(cmd, cwd=str(wd), env=e, capture_output=True, text=True, timeout=timeout)
    except (subprocess.TimeoutExpired, FileNotFoundError) as ex:
        raise MachineryError(f"Apalache did not finish: {' '.join(cmd)}: {ex}") from ex
    out = p.stdout + "\n" + p.stderr
    (wd / "apalache.out").write_text(out)
    if "The outcome is: NoError" not in out:
        tail = " | ".join(x for x in out.splitlines() if "E@" in x or "outcome" in x)[:400]
        raise MachineryError(f"Apalache did not establish {inv} from {init} ({module}): {tail}")
    return "apalache-mc " + " ".join(cmd[1:-1]) + f" spec/{module}.tla"


def write_json(name: str, fname: str, obj) -> Path:
    wd = WORK / name
    wd.mkdir(parents=True, exist_ok=True)
    p = wd / fname
    with open(p, "w") as f:
        json.dump(obj, f, separators=(",", ":"))
    return p


def sany(module: str) -> None:
    jt = WORK / "sany_jt"
    jt.mkdir(parents=True, exist_ok=True)
    cmd = ["java", f"-Djava.io.tmpdir={jt}", "-cp", JAR, "tla2sany.SANY", str(SPEC / f"{module}.tla")]
    p = subprocess.run(cmd, cwd=str(SPEC), capture_output=True, text=True, timeout=120)
    if p.returncode != 0 or "Semantic errors" in p.stdout or "***Parse Error***" in p.stdout or "Fatal" in p.stdout:
        raise MachineryError(f"SANY failed on {module}:\n{p.stdout[-2000:]}{p.stderr[-500:]}")
