"""Regenerate /verif/MANIFEST.json from the table below (single source of truth for claims)."""
from __future__ import annotations

import json
from pathlib import Path

VERIF = Path(__file__).resolve().parent.parent

NOTE = ("trusted: TLC 1.8/SANY/CommunityModules; harness/refcrypto.py (self-tested AES/MD5/SHA-256); the virtual-time loop and "
        "in-memory transports of harness/vloop.py; CPython asyncio. Crypto primitives are uninterpreted in the spec.")

# pid -> (technique, level text, design ref)
CHECKS = {
    "C01": ("TLA+ AcE2E.tla (clients x appliance x in-order stream per connection with unsolicited/duplicate/other frames; invariants Fresh, "
            "NeverInvented) model-checked by TLC together with the codec round trips (MC_C10); whole-stack executions of the real code "
            "(AirConditioner.apply by client A, refresh by a fresh client B, real V2/V3 framing, encryption, handshake, arbitrary TCP "
            "segmentation, extra frames) judged by TLC with the vendor layouts of AcCommand/AcResponse (Trace_C01)",
            "Model check of the exchange/stream design; thousands of end-to-end scenarios over every value of every settable field, both "
            "protocol versions, random credentials/ids, all segmentation styles and extra-frame placements, with TLC deciding that the "
            "device received, holds and reports exactly the requested state.", "5 C01"),
    "C02": ("TLA+ LanV2Packet.tla: TLC checks encode/decode round trip for every frame length 0..255 under a model cipher/MAC "
            "(MC_V2); TLC judges real _Packet.encode / LAN.send wire bytes and _Packet.decode of independently built packets with "
            "V2PacketClause/V2Decode on reference-evaluated AES/MD5 (Trace_V2)",
            "Exhaustive in-model length/padding arithmetic; byte-exact conformance of the real codec in both directions for all "
            "lengths, id boundaries and clock instants, with the spec deciding spans/padding/placement.", "5 C02"),
    "C03": ("TLA+ LanV2Packet.tla V2Decode decision procedure: TLC checks every single-bit flip / truncation of authentic packets "
            "is an error under a bit-error-detecting model MAC (MC_V2); TLC decides the required outcome for every real mutant fed "
            "to _Packet.decode / LAN.send (Trace_V2)",
            "In-model tamper enumeration; all single-bit flips, truncations, substitutions and random corruptions of authentic "
            "packets replayed into the real decoder (with the authentic packet decoded just before), outcome decided by TLC.", "5 C03"),
    "C04": ("TLA+ V3Stream.tla state machine (pos, buffer, queue; action Segment(n)): TLC explores EVERY segmentation of every "
            "stream of a structured family and checks Delivered/NoLoss (MC_V3Stream); chain traces of the real data_received are "
            "validated by TLC against V3Stream!Segment with the invariants evaluated in every state (Trace_V3Stream)",
            "Exhaustive model check over all segmentations of bounded streams; real reassembly stepped segment by segment and "
            "validated against the spec action; end-to-end virtual-time check that send returns at the last byte.", "3.3, 5 C04"),
    "C05": ("TLA+ LanV3Packet.tla: TLC checks encode/decode round trip for every payload length 0..300 (pad 0..15) and edge "
            "counters and that every single-bit flip is an error, under a model cipher/tag (MC_V3); TLC judges real "
            "_encode_encrypted_request / _process_packet / LAN.send bytes and results with EncPacketClause/V3Decode on "
            "reference-evaluated AES-CBC/SHA-256 (Trace_V3)",
            "Exhaustive in-model pad/size arithmetic; byte-exact conformance of the real V3 codec in both directions for all lengths, "
            "keys and counters, and every single-bit flip of responses decided by TLC.", "5 C05"),
    "C06": ("TLA+ LanSession.tla (client x device x network state machine, one action per await-to-await block) with the property monitor "
            "SessionMon.tla: TLC explores every interleaving with all handshake reply classes and checks the C06 clauses (MC_LanSession); "
            "TLC-simulated behaviours (Gen_LanSession) are replayed into the real LAN object by a controlled scheduler; recorded executions "
            "are validated by TLC against the model (Trace_LanSession) and the monitor (Trace_Mon), where the spec decides from "
            "reference-evaluated observations (type, length, SHA-256 proof) whether a reply is genuine",
            "Exhaustive bounded model check of the handshake logic; every single-bit flip, every length, every type nibble, other-key, "
            "error and silent replies on first / expired / live sessions through Device.authenticate and LAN.authenticate with TLC judging "
            "outcome, stored credentials, wire contents and acceptance of the following exchange.", "3.2, 5 C06"),
    "C07": ("TLA+ LanSession.tla + SessionMon.tla: TLC explores all histories of <= 2-3 calls over {send, authenticate good/bad, connect "
            "results, deliveries/losses in any order, timers, cancel, peer close, 12 h jump, lifetime jump} and checks the C07 clauses "
            "(MC_LanSession); TLC-generated behaviours (all 1-call by BFS, deeper by -simulate) are replayed into the real LAN object; "
            "these and random walks are validated by TLC against the model (Trace_LanSession) and the monitor (Trace_Mon) over what the "
            "device decoded with its own keys; > 65,536-packet sessions by Trace_Ctr",
            "Exhaustive bounded model check of session discipline; thousands of TLC-generated and random histories executed on the real "
            "code with every clause evaluated at every event; one connection carrying more than 65,536 packets.", "3.2, 5 C07"),
    "C08": ("TLA+ LanSession.tla + SessionMon.tla: TLC checks transmission bounds, stop-on-response, timeout-after-exactly-retries and "
            "recovery for budgets 1..4, V2 and V3 (MC_LanSession); ALL one-call behaviours of the C08 alphabet per budget are generated by "
            "TLC (Gen_LanSession!GNextC08) and replayed into the real code; directed single/pair fault plans through LAN.send and "
            "AirConditioner.refresh; every execution validated by TLC (Trace_Mon, Trace_LanSession)",
            "Exhaustive bounded model check per retry budget; all answer patterns per budget and all single faults / fault pairs followed "
            "by a prompt device executed on the real code, V2 and V3, LAN and device level, judged by TLC at every event.", "3.2, 5 C08"),
    "C09": ("TLA+ LanSession.tla + SessionMon.tla: outcome alphabet of the design closed under every reply class at every phase "
            "(MC_LanSession); grammar-aware byte-level adversarial peer scripts at every phase on the real code, with TLC (Trace_Mon) "
            "judging the exception type of every call and that device-level operations do not raise",
            "Model check of the outcome alphabet; thousands of grammar-aware mutated V2/V3 peer messages at handshake-wait, read-wait and "
            "queued phases through LAN.send, LAN.authenticate, Device.authenticate and AirConditioner.refresh (V3 packets crafted under the real session key, "
            "so that everything behind the tag check is reached), plus a frame-level adversary (well-formed frames of the wrong kind / type, broken frames) "
            "against five device-level operations; outcomes judged by TLC.", "3.2, 5 C09"),
    "C10": ("TLA+ AcCommand.tla: TLC proves VendorDecode40 o SetStateBody = id on exhaustive per-field slices (MC_C10); "
            "TLC judges every 0x40 frame produced by the real apply() against the vendor layout (Trace_C10)",
            "Bounded-exhaustive model check of the layout plus TLC-judged frames from the real code for every field value, "
            "all setpoint x mode, all same-byte flag combinations and seeded random states.", "5 C10"),
    "C11": ("TLA+ AcResponse.tla: TLC checks the three temperature clauses for all 256x10x2 inputs and that StateView inverts the "
            "device packing (MC_C11); TLC judges the attributes of a fresh AirConditioner after refresh() for every raw body (Trace_C11)",
            "Exhaustive in-model check of the temperature rule and the 0xC0 layout; real refresh() results judged by TLC for all raw "
            "temperature bytes x tenths, all setpoint code pairs, all values of each flag byte, all lengths, both check styles.", "5 C11"),
    "C12": ("TLA+ AcFrame/AcCommand: TLC checks WellFormedCommand and device-side classification for every command kind x "
            "parameter domain x id (MC_C12); TLC judges every frame emitted by the real library (Trace_C12)",
            "Exhaustive in-model check over command kinds/parameters; frames from Command.tobytes() over their domains, from every "
            "public AirConditioner operation against a V2/V3 device, and a >600-command id chain are judged by TLC.", "5 C12"),
    "C13": ("TLA+ AcReject.tla: TLC enumerates every position x substitute x fix-up on sample frames of all kinds with real CRC-8/sum "
            "arithmetic (MC_C13); TLC judges before/after state of refresh() fed each corrupted frame (Trace_C13)",
            "Exhaustive in-model enumeration of single-byte corruptions; the same enumeration replayed into the real refresh() with "
            "TLC deciding acceptance class and state/online/supported effect. Known finding D6 (dual-check collision, id->0xB0/0xB1).", "5 C13"),
    "C14": ("TLA+ AcResponse/AcCaps: TLC checks that the decodability thresholds make every decoder operator total on every "
            "truncation (MC_C14); TLC judges outcome and attributes of every public operation answered with malformed/mixed frames (Trace_C14)",
            "In-model totality of the decoders under Decodable(); real operations answered with every truncation, count/size sweep, "
            "every response id, tiny/garbage frames and mixes, with TLC deciding 'no raise' and 'decodable frames still applied'.", "5 C14"),
    "C15": ("TLA+ AcCaps.tla: TLC checks byte-level walk = in-order merge of per-record interpretations, split invariance and flag "
            "read-back for all lists <= 3 (MC_C15); TLC judges real CapabilitiesResponse / get_capabilities() results (Trace_C15)",
            "Exhaustive small-list model check; real parser results for lists <= 12 compared by TLC with the merge of the records "
            "interpreted alone, and get_capabilities() attributes compared across every split point.", "5 C15"),
    "C16": ("TLA+ AcDevice.tla (client attributes/_updated_properties/_supported_properties x device registers with vendor encodings, single "
            "breeze mode): TLC checks ReadBackEqual, DeviceSingleBreeze, WriteIsUpd, NoWriteWithoutChange, ClearedByApply over all bounded "
            "histories for six capability profiles (MC_C16); TLC-generated call histories (Gen_C16) are replayed on a real AirConditioner "
            "against the simulated appliance; each recorded history (0xB0/0xB1 frames received, attributes, device registers after every "
            "call) is validated by TLC against the AcDevice action of each call (Trace_C16)",
            "Exhaustive bounded model check per capability profile; thousands of TLC-generated and directed histories of setters / apply / "
            "refresh / get_capabilities / start_self_clean executed on the real object with TLC judging ids, exactly-once, byte-exact value "
            "encoding, read-back and single breeze mode after every call.", "5 C16"),
    "C17": ("TLA+ DiscLayout.tla (reply envelope, V3 wrapper, body layout, name/type grammar, probe layout): TLC checks Info o Build = id for "
            "every appliance type byte, id/port boundary values and both versions (MC_Disc) and the run model Discover.tla; TLC derives the "
            "identity from the BYTES of every reply delivered to the real Discover.discover()/discover_single() and compares it with the "
            "returned Device objects, and judges the probe packets (Trace_Disc)",
            "In-model layout round trip; thousands of simulated replies (every type byte, id and port boundaries, reported-IP variants, V2/V3, "
            "duplicates, broadcast and single-host) with TLC deciding the expected identity, class and address from the reply bytes.", "5 C17"),
    "C18": ("TLA+ Discover.tla (arrivals in any order/multiplicity, first datagram of an address decides, one parse task per address, gather): "
            "TLC checks OnePerGoodHost/AtMostOne/FirstWins over every assignment and interleaving (MC); the finished runs of the model "
            "(Gen_Disc) are replayed on the real Discover.discover() with 18 concrete bad-reply classes; TLC decides well-formedness of each "
            "deciding datagram from its bytes and compares the expected device set with the result (Trace_Disc)",
            "Exhaustive model check of the arrival interleavings; the model's runs executed on the real code with concrete good/bad replies, "
            "TLC judging the returned device set and that nothing raises.", "5 C18"),
    "C19": ("TLA+ Cloud.tla (request layout with re-derived SHA-256 inputs; login-id -> login -> getToken flow machine with per-attempt outcomes): "
            "TLC checks Budget/OnlyMatching/AbsentIsError over all outcome sequences and token lists (MC_Cloud); the model's behaviours "
            "(Gen_Cloud) are replayed on the real NetHomePlusCloud against a model server injected through get_async_client; TLC judges every "
            "request and call outcome (Trace_Cloud); auto-connect discovery of V3 devices registered under either udpid byte order",
            "Exhaustive model check of the flow; all 2-call behaviours (quick: sample) and 3-call behaviours executed on the real client with "
            "TLC judging signature, account, password derivation, session id, attempt budget, error mapping and the returned entry; "
            "end-to-end auto-connect with LE/BE registration.", "5 C19"),
    "C20": ("TLA+ Cli.tla + CliCatalogue.tla (documented catalogue of settings, token parser, per-kind conversion, Control = reject-before-send or "
            "reported state overridden by the pairs): TLC checks conversion totality, garbage rejection and field-local overriding in-model "
            "(MC_Cli); msmart.cli.main() is run in-process with crafted argv on the simulated V2/V3 network and TLC, parsing the "
            "command-line tokens itself, judges exit status, bytes sent, frames received by the appliance and its state before/after (Trace_Cli)",
            "In-model check of the catalogue; ~1.4k (quick) / ~25k (thorough) real CLI invocations over every setting x spelling, garbage "
            "values, invalid names, all setting pairs and random multi-setting lines, judged by TLC. The same run carries the spec growth for the other "
            "three commands (CliQuery / CliDiscover / CliDownload: conformance drift only, never a verdict).", "5 C20"),
}


def build():
    ids = [json.loads(l)["id"] for l in open(VERIF / "properties.jsonl")]
    checks = []
    for pid in ids:
        if pid not in CHECKS:
            continue
        tech, text, ref = CHECKS[pid]
        checks.append({
            "property_id": pid,
            "quick_cmd": f"./check {pid} --tier quick",
            "thorough_cmd": f"./check {pid} --tier thorough",
            "evidence_file": f"/verif/evidence/{pid}.json",
            "replay_cmd_template": f"./check {pid} --replay {{path}}",
            "engine": "tlc",
            "level_claimed": {"category": "model_checking", "text": text, "design_ref": f"DESIGN.md section {ref}"},
            "level_note": NOTE,
            "technique": tech,
        })
    na = [{"property_id": i, "reason": "check not built yet"} for i in ids if i not in CHECKS]
    m = {
        "version": 1,
        "setup_cmd": "./setup.sh",
        "hooks": {
            "guard": "MSMART_VERIF",
            "enable": "no source hooks: the harness owns every observation point (transports, public API, wall clock); "
                      "checks import msmart from /repo's working tree",
            "baseline_off_cmd": "cd /repo && /venv/bin/python -m pytest -ra -q -p no:cacheprovider --timeout=900 "
                                "--continue-on-collection-errors",
            "source_commits": [],
            "add_only": True,
        },
        "engines": [{"name": "tlc", "path": "/verif/spec", "serves_properties": list(CHECKS),
                     "kind_free_text": "explicit TLA+ specification checked by TLC: in-model exhaustive check, "
                                       "TLC-generated scenarios replayed into the real code, real-code traces validated by TLC"}],
        "checks": checks,
        "not_applicable": na,
        "notes": "See DESIGN.md. exit 2 = machinery failure (never a verdict).",
    }
    with open(VERIF / "MANIFEST.json", "w") as f:
        json.dump(m, f, indent=1)
    return m


if __name__ == "__main__":
    m = build()
    print("checks:", [c["property_id"] for c in m["checks"]])
