"""Scripted AC appliance (application layer) with its own, independent codecs.

Nothing here is trusted by the oracle: every frame this module decodes or produces is logged
(bytes + abstract value) and re-derived by TLC from the TLA+ specification.
"""
from __future__ import annotations

_CRC_POLY = 0x8C


def crc8(data: bytes) -> int:
    c = 0
    for b in data:
        c ^= b
        for _ in range(8):
            c = (c >> 1) ^ _CRC_POLY if c & 1 else c >> 1
    return c


def csum(data: bytes) -> int:
    return (-sum(data)) & 0xFF


def frame(ftype: int, payload: bytes) -> bytes:
    h = bytes([0xAA, len(payload) + 10, 0xAC, 0, 0, 0, 0, 0, 0, ftype]) + bytes(payload)
    return h + bytes([csum(h[1:])])


def resp_frame(ftype: int, body: bytes, style: str = "crc") -> bytes:
    body = bytes(body)
    chk = crc8(body) if style == "crc" else csum(body)
    return frame(ftype, body + bytes([chk]))


def parse_command(f: bytes):
    """Device-side parser.  Returns dict(ok, ftype, body, mid) -- ok False when the device would drop it."""
    f = bytes(f)
    if len(f) < 14 or f[0] != 0xAA or f[1] != len(f) - 1 or f[2] != 0xAC:
        return {"ok": False, "why": "header"}
    if csum(f[1:-1]) != f[-1]:
        return {"ok": False, "why": "checksum"}
    payload = f[10:-1]
    if crc8(payload[:-1]) != payload[-1]:
        return {"ok": False, "why": "crc"}
    return {"ok": True, "ftype": f[9], "body": payload[:-2], "mid": payload[-2]}


# ---- abstract device state --------------------------------------------------------------------

DEFAULT_STATE = dict(power=False, mode=2, t2=48, fan=102, swing=0, eco=False, turbo=False, sleep=False,
                     fahr=False, freeze=False, follow=False, purifier=False, hum=40, aux=0,
                     display=True, indoor=0x5F, outdoor=0x64, in_tenths=0, out_tenths=0, filter=False)


def decode_set_state(b: bytes) -> dict:
    """Vendor layout of the 0x40 control body (device firmware's view)."""
    alt = b[18] & 0x1F
    ti = alt + 12 if alt else (b[2] & 0x0F) + 16
    return dict(
        beep=bool(b[1] & 0x40), power=bool(b[1] & 0x01),
        t2=2 * ti + ((b[2] >> 4) & 1), mode=b[2] >> 5, fan=b[3] & 0x7F, swing=b[7] & 0x0F,
        follow=bool(b[8] & 0x80), turbo=bool(b[8] & 0x20) or bool(b[10] & 0x02),
        eco=bool(b[9] & 0x80), purifier=bool(b[9] & 0x20),
        ptc=bool(b[9] & 0x08), iptc=bool(b[22] & 0x08),
        sleep=bool(b[10] & 0x01), fahr=bool(b[10] & 0x04), hum=b[19] & 0x7F, freeze=bool(b[21] & 0x80))


def encode_state(st: dict, length: int = 24) -> bytes:
    """Vendor layout of the 0xC0 status body for abstract state st (length = body bytes before the check byte)."""
    b = bytearray(max(length, 16))
    ti = st["t2"] // 2
    half = st["t2"] % 2
    b[0] = 0xC0
    b[1] = 1 if st["power"] else 0
    if 17 <= ti <= 30:
        b[2] = (ti - 16) | (half << 4) | (st["mode"] << 5)
    else:
        b[2] = (half << 4) | (st["mode"] << 5)
        b[13] |= (ti - 12) & 0x1F
    b[3] = st["fan"]
    b[4] = 0x7F
    b[5] = 0x7F
    b[7] = 0x30 | st["swing"]
    b[8] = (0x80 if st["follow"] else 0) | (0x20 if st["turbo"] and st.get("turbo_pos", "both") != "primary" else 0) | (0x40 if st["aux"] == 2 else 0)
    b[9] = (0x10 if st["eco"] else 0) | (0x20 if st["purifier"] else 0) | (0x08 if st["aux"] == 1 or (st["aux"] == 2 and st.get("aux_both")) else 0)
    b[10] = (1 if st["sleep"] else 0) | (2 if st["turbo"] and st.get("turbo_pos", "both") != "alt" else 0) | (4 if st["fahr"] else 0)
    b[11] = st.get("indoor", 0xFF)
    b[12] = st.get("outdoor", 0xFF)
    b[13] |= 0x20 if st.get("filter") else 0
    b[14] = 0x00 if st.get("display", True) else 0x70
    b[15] = (st.get("in_tenths", 0) & 0xF) | ((st.get("out_tenths", 0) & 0xF) << 4)
    if length > 19:
        b[19] = st["hum"] & 0x7F
    if length > 21:
        b[21] = 0x80 if st["freeze"] else 0
    return bytes(b[:length])


class ACModel:
    """Register file + command handler of a model air conditioner."""

    def __init__(self, state=None, *, caps_pages=None, props=None, style="crc", state_len=24,
                 energy=None, humidity=None):
        self.state = dict(DEFAULT_STATE)
        if state:
            self.state.update(state)
        self.style = style
        self.state_len = state_len
        self.caps_pages = caps_pages or [bytes([0xB5, 0x00])]     # raw 0xB5 bodies (page 1, page 2)
        self.props = dict(props or {})                             # property id -> raw value bytes
        self.energy = energy                                       # raw 0xC1 body or None
        self.humidity = humidity
        self.log = []                                              # (kind, info) per accepted command
        self.rx_frames = []
        self.beeps = 0
        self.single_breeze = True
        self.strict = False                                        # strict: only the registers in self.props exist

    def state_frame(self, ftype=3):
        return resp_frame(ftype, encode_state(self.state, self.state_len), self.style)

    # property register semantics (vendor): writing a breeze mode keeps a single mode active
    def _write_prop(self, pid: int, val: bytes):
        if pid == 0x1A:                       # buzzer: momentary, not stored
            self.beeps += 1
            return bytes([0])
        if pid == 0xE3:                       # iECO write: frame, number, switch ... -> read form [number, switch]
            if self.strict and pid not in self.props:
                return None
            self.props[pid] = bytes([val[1], val[2]]) if len(val) >= 3 else bytes([0, 0])
            if getattr(self, "ieco_full", False):
                self.props[pid] += bytes([60, 40, 40, 40, 0])       # the full record of the vendor layout: number, switch, target rate, wind speeds, valve
            return self.props[pid]
        if self.strict and pid not in self.props:
            return None                       # a register this appliance does not have: write ignored, nothing reported
        self.props[pid] = bytes(val)
        if pid == 0x43:                       # breeze control drives the legacy flags of appliances that have both
            if 0x18 in self.props:
                self.props[0x18] = b"\x01" if val[:1] == b"\x04" else b"\x00"
            if 0x42 in self.props:
                self.props[0x42] = b"\x02" if val[:1] == b"\x02" else b"\x01"
        if self.single_breeze:
            if pid == 0x42 and val[:1] == b"\x02":
                if 0x18 in self.props:
                    self.props[0x18] = b"\x00"
            if pid == 0x18 and val[:1] == b"\x01":
                if 0x42 in self.props:
                    self.props[0x42] = b"\x01"
        return self.props[pid]

    def handle(self, f: bytes) -> list[bytes]:
        self.rx_frames.append(bytes(f))
        c = parse_command(f)
        if not c["ok"]:
            self.log.append(("dropped", c["why"]))
            return []
        b, t = c["body"], c["ftype"]
        if t == 3 and b[:2] == bytes([0x41, 0x81]):
            self.log.append(("get_state", None))
            return [self.state_frame()]
        if t == 3 and b[:4] == bytes([0x41, 0x21, 0x01, 0x44]):
            self.log.append(("get_energy", None))
            return [resp_frame(3, self.energy, self.style)] if self.energy else []
        if t == 3 and b[:4] == bytes([0x41, 0x21, 0x01, 0x45]):
            self.log.append(("get_humidity", None))
            return [resp_frame(3, self.humidity, self.style)] if self.humidity else []
        if t == 3 and b[0] == 0x41 and b[1] & 0x02 and b[4] == 0x02 and b[6] == 0x02:
            self.log.append(("toggle_display", bool(b[1] & 0x40)))
            self.state["display"] = not self.state["display"]
            return [self.state_frame()]
        if t == 3 and b[0] == 0xB5:
            page = 1 if (len(b) >= 3 and b[2] == 1) else 0
            self.log.append(("get_caps", page))
            if page == 1 and getattr(self, "lose_second_page", False):
                return []                                  # the request for the additional page goes unanswered
            if page < len(self.caps_pages):
                return [resp_frame(3, self.caps_pages[page], self.style)]
            return []
        if t == 3 and b[0] == 0xB1:
            n = b[1]
            ids = [int.from_bytes(b[2 + 2 * i:4 + 2 * i], "little") for i in range(n)]
            self.log.append(("get_props", ids))
            body = bytearray([0xB1, 0])
            cnt = 0
            for pid in ids:
                if pid in self.props:
                    v = self.props[pid]
                    body += pid.to_bytes(2, "little") + bytes([0x00, len(v)]) + v
                    cnt += 1
            body[1] = cnt
            return [resp_frame(3, bytes(body) + bytes([c["mid"]]), self.style)]
        if t == 2 and b[0] == 0x40 and len(b) == 24:
            new = decode_set_state(b)
            self.log.append(("set_state", dict(new)))
            beep = new.pop("beep")
            if beep:
                self.beeps += 1
            ptc, iptc = new.pop("ptc"), new.pop("iptc")
            new["aux"] = 2 if iptc else (1 if ptc else 0)
            new["aux_both"] = bool(ptc and iptc)
            self.state.update(new)
            return [resp_frame(2, encode_state(self.state, self.state_len), self.style)]
        if t == 2 and b[0] == 0xB0:
            n = b[1]
            p = 2
            writes = []
            body = bytearray([0xB0, 0])
            cnt = 0
            for _ in range(n):
                if p + 3 > len(b):
                    break
                pid = int.from_bytes(b[p:p + 2], "little")
                sz = b[p + 2]
                val = bytes(b[p + 3:p + 3 + sz])
                p += 3 + sz
                writes.append((pid, val))
                rd = self._write_prop(pid, val)
                if rd is None:
                    continue
                body += pid.to_bytes(2, "little") + bytes([0x00, len(rd)]) + rd
                cnt += 1
            body[1] = cnt
            self.log.append(("set_props", writes))
            return [resp_frame(2, bytes(body) + bytes([c["mid"]]), self.style)]
        self.log.append(("unknown", b.hex()))
        return []
