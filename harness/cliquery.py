"""Spec growth beyond the listed properties: `msmart-ng query` (spec/CliQuery.tla).

TLC explores the command's state machine for every option set and every pattern of answered / unanswered transmissions (MC_CliQuery) and
prints every complete behaviour (Gen_CliQuery); each is replayed into the real msmart.cli.main() on the simulated network - the unit answers
or ignores each request frame as the behaviour says - and TLC judges the recorded run (Trace_CliQuery): requests on the wire, exit status,
what was printed, and the printed state against the vendor view of what the unit reported.  Conformance drift only, never a verdict.
"""
from __future__ import annotations

import ast
import json
import logging
import re

from .common import B, Ctx
from .tlc import MachineryError, run_tlc
from . import acdev, disc
from .drivers.c10 import rand_state
from .drivers.c11 import observe
from .drivers.c15 import attrs_of
from .drivers.c20 import run_cli, TOK, KEY

HOST = "10.0.0.77"
CFG = ("CONSTANTS\nRetries = 3\nINVARIANT AutoCapabilityQuery\nINVARIANT TypeOK\nINVARIANT Budget\nINVARIANT Ends\nINVARIANT Order\nINVARIANT NothingAfterRejectedAuth\n"
       "INVARIANT StateQueryTellsTheTruth\nINVARIANT Retransmits\nINVARIANT PrintsOnlyOnSuccess\nINVARIANT O1_CapabilityQueryNeverSucceeds\nCHECK_DEADLOCK FALSE\n")


class PlanModel(acdev.ACModel):
    """An appliance that answers or ignores each request as scripted (beyond the script: answers)."""

    def __init__(self, plan, **kw):
        super().__init__(**kw)
        self.plan = list(plan)
        self.kinds, self.answers, self.sets = [], [], 0

    def handle(self, f):
        replies = super().handle(f)
        c = acdev.parse_command(f)
        if not c["ok"]:
            return replies
        b = c["body"]
        if c["ftype"] == 2:
            self.sets += 1
            return replies
        if b[:2] == bytes([0x41, 0x81]):
            kind = "state"
        elif b[:1] == b"\xb5":
            kind = "caps1" if (len(b) >= 3 and b[2] == 1) else "caps0"
        else:
            kind = bytes(b[:4]).hex()
        ans = self.plan.pop(0) if self.plan else True
        self.kinds.append(kind)
        self.answers.append(bool(ans))
        return replies if ans else []


class _Capture(logging.Handler):
    def __init__(self):
        super().__init__(level=logging.INFO)
        self.printed, self.obj = "none", None

    def emit(self, record):
        if record.levelno != logging.INFO or record.msg != "%s" or not record.args:
            return
        a = record.args[0] if isinstance(record.args, tuple) else record.args
        if isinstance(a, str):
            self.printed, self.obj = "caps", a
        else:
            self.printed, self.obj = "state", a


def replay(scn, rng, k):
    st = rand_state(rng)
    st.pop("beep")
    st.update(indoor=rng.choice([0x5F, 0x40, 0x80]), outdoor=rng.choice([0x64, 0x20, 0x90]), filter=rng.random() < 0.3, display=rng.random() < 0.5)
    answers = list(scn["answers"])
    creds, auto = bool(scn["creds"]), bool(scn["auto"])
    authok = answers.pop(0) if creds else True
    found = answers.pop(0) if auto else True
    recs0 = [bytes([0x14, 0x02, 1, rng.choice([0, 1, 2, 3, 4])]), bytes([0x10, 0x02, 1, rng.choice([0, 1, 5, 7])])] + rng.sample(
        [bytes([0x12, 0x02, 1, rng.choice([0, 1])]), bytes([0x1A, 0x02, 1, rng.choice([0, 1, 2])]), bytes([0x15, 0x02, 1, rng.choice([0, 1, 2, 3])]),
         bytes([0x24, 0x02, 1, rng.choice([0, 1])]), bytes([0x17, 0x02, 1, rng.choice([0, 1])]), bytes([0x21, 0x02, 1, rng.choice([0, 1])]),
         bytes([0x25, 0x02, 7, 34, 60, 34, 60, 36, 56, rng.choice([0, 1])])], rng.randint(0, 4))
    recs1 = rng.sample([bytes([0x13, 0x02, 1, rng.choice([0, 1])]), bytes([0x14, 0x02, 1, rng.choice([0, 1, 2])]), bytes([0x25, 0x02, 6, 32, 62, 32, 62, 32, 62])], rng.randint(1, 3))
    p0 = bytes([0xB5, len(recs0)]) + b"".join(recs0) + bytes([1 if scn["more"] else 0, 0])
    p1 = bytes([0xB5, len(recs1)]) + b"".join(recs1) + bytes([0, 0])
    model = PlanModel(answers, state=st, state_len=[24, 22, 25][k % 3], caps_pages=[p0, p1] if scn["more"] else [p0])
    argv = ["query", HOST] + (["--capabilities"] if scn["cap"] else []) + (["--auto"] if auto else [])

    def udp(loop, net):
        state = {"done": False}
        reply = disc.disc_reply(2, rng.getrandbits(47), disc.disc_body(HOST, 6444, bytes(rng.choice(b"0123456789ABCDEF") for _ in range(32)), b"net_ac_%04X" % rng.getrandbits(16)), rng=rng)

        def on_udp(tr, data, addr):
            if found and not state["done"]:
                state["done"] = True
                loop.call_later(0.01, lambda: tr.inject(reply, (HOST, 6445)))
        net.on_udp = on_udp
    if auto:
        from msmart.discover import Discover
        Discover._lock = None
    if creds:
        tok = TOK if authok else bytes(reversed(TOK))
        argv += ["--token", tok.hex(), "--key", KEY.hex(), "--id", str(rng.getrandbits(40))]
    cap = _Capture()
    lg = logging.getLogger("msmart.cli")
    old, old_dis, old_h = lg.level, logging.root.manager.disable, logging.root.handlers
    logging.disable(logging.NOTSET)              # the harness silences logging globally; this run needs the INFO records of msmart.cli (and only those)
    logging.root.handlers = [logging.NullHandler()]
    lg.setLevel(logging.INFO)
    lg.addHandler(cap)
    try:
        obs = run_cli(argv, model, 3 if creds else 2, udp if auto else None)
    finally:
        lg.removeHandler(cap)
        lg.setLevel(old)
        logging.root.handlers = old_h
        logging.disable(old_dis)
    v = {"cap": bool(scn["cap"]), "creds": creds, "more": bool(scn["more"]), "auto": auto, "p0": B(p0), "p1": B(p1),
         "answers": ([bool(authok)] if creds else []) + ([bool(found)] if auto else []) + model.answers,
         "kinds": model.kinds, "sets": model.sets, "exit": obs["exit"], "exc": obs["exc"], "printed": cap.printed,
         "body": B(acdev.encode_state(model.state, model.state_len)), "attrs": {}, "caps": {}, "scn": scn}
    if cap.printed == "state":
        v["attrs"] = observe(cap.obj)
    elif cap.printed == "caps":
        d = ast.literal_eval(re.sub(r"<\w+\.\w+: (-?\d+)>", r"\1", cap.obj))
        v["caps"] = {"op_modes": sorted(int(x) for x in d["supported_modes"]), "swing_modes": sorted(int(x) for x in d["supported_swing_modes"]),
                     "fan_speeds": sorted(int(x) for x in d["supported_fan_speeds"]), "custom_fan": bool(d["supports_custom_fan_speed"]),
                     "eco": bool(d["supports_eco"]), "turbo": bool(d["supports_turbo"]), "freeze": bool(d["supports_freeze_protection"]),
                     "display": bool(d["supports_display_control"]), "filter": bool(d["supports_filter_reminder"]),
                     "min_t2": int(round(d["min_target_temperature"] * 2)), "max_t2": int(round(d["max_target_temperature"] * 2))}
    return v


class _DiscCapture(logging.Handler):
    def __init__(self):
        super().__init__(level=logging.INFO)
        self.printed, self.none_found = [], False

    def emit(self, record):
        if record.levelno == logging.ERROR and str(record.msg).startswith("No devices found"):
            self.none_found = True
        if record.levelno == logging.INFO and str(record.msg).startswith("Found device:") and record.args:
            a = record.args[0] if isinstance(record.args, tuple) else record.args
            if isinstance(a, dict):
                self.printed.append(a)


def discover_run(rng, k):
    """One `msmart-ng discover [HOST] [--count N]` run: V2 repliers (air conditioners and other appliance types), duplicates, an odd replier."""
    from .drivers.c17 import rand_identity, build
    from .drivers.c18 import bad_reply
    from msmart.discover import Discover
    single = k % 3 == 0
    count = [None, 1, 2, 4, 3][k % 5]
    n = rng.choice([0, 1, 1, 2, 3]) if not single else rng.choice([0, 1, 1])
    plan = []
    for j in range(n):
        ip = "10.7.%d.%d" % (k % 250, 10 + j)
        ident = rand_identity(rng, typ=rng.choice([0xAC, 0xAC, 0xA1, 0xE1, rng.randrange(256)]), port=6444)
        rep = build(rng, ident, ip, 2)
        for _ in range(rng.choice([1, 1, 2])):
            plan.append((0.2 + rng.random() * 2, ip, rng.choice([6445, 20086]), rep))
    if k % 4 == 1:
        oip = "10.7.%d.200" % (k % 250)
        plan.append((0.1 + rng.random(), oip, 6445, bad_reply(rng.choice(["random", "short_body", "bad_padding", "trunc", "no_separator"]), rng, oip)))
    plan.sort(key=lambda x: x[0])
    host = plan[0][1] if (single and plan) else ("10.7.9.9" if single else "")
    arrivals, udp = [], []

    def setup(loop, net):
        state = {"armed": False}

        def on_udp(tr, data, addr):
            udp.append(tr)
            if state["armed"]:
                return
            state["armed"] = True
            for q, (delay, ip, port, d) in enumerate(plan):
                def fire(ip=ip, port=port, d=d):
                    arrivals.append({"ip": ip, "port": port, "data": B(d), "o": disc.oracle(d)})
                    tr.inject(d, (ip, port))
                loop.call_later(delay + q * 1e-6, fire)
        net.on_udp = on_udp
        udp.append(net)
    Discover._lock = None
    cap = _DiscCapture()
    lg = logging.getLogger("msmart.cli")
    old, old_dis, old_h = lg.level, logging.root.manager.disable, logging.root.handlers
    logging.disable(logging.NOTSET)
    logging.root.handlers = [logging.NullHandler()]
    lg.setLevel(logging.INFO)
    lg.addHandler(cap)
    argv = ["discover"] + ([host] if single else []) + (["--count", str(count)] if count is not None else [])
    try:
        obs = run_cli(argv, acdev.ACModel(), 2, setup)
    finally:
        lg.removeHandler(cap)
        lg.setLevel(old)
        logging.root.handlers = old_h
        logging.disable(old_dis)
    net = udp[-1] if udp and not hasattr(udp[-1], "inject") else next((x for x in udp if not hasattr(x, "inject")), None)
    probes = [{"data": B(data), "o": disc.probe_oracle(data), "host": addr[0], "port": addr[1]} for data, addr in (net.udp.sent if net is not None and net.udp else [])]
    printed = [{"ip": str(d["ip"]), "port": int(d["port"]), "id": B(int(d["id"]).to_bytes(6, "little")) if 0 <= int(d["id"]) < 2 ** 48 else [],
                "sn": B((d["sn"] or "").encode()), "name": B((d["name"] or "").encode()), "type": int(d["type"])} for d in cap.printed]
    return {"host": host, "count": 3 if count is None else count, "probes": probes, "arrivals": arrivals, "printed": printed, "none_found": cap.none_found,
            "exit": obs["exit"], "exc": obs["exc"], "argv": argv}


def growth_discover(ctx: Ctx):
    vectors = [discover_run(ctx.rng, k) for k in range(ctx.pick(60, 600))]
    n = len(vectors)
    cans = []
    for v in vectors:
        if v["printed"] and len(cans) < 1:
            c = json.loads(json.dumps(v)); c["printed"][0]["port"] += 1; cans.append(c)
        if v["printed"] and v["host"] == "" and len(cans) < 2:
            c = json.loads(json.dumps(v)); c["printed"] = c["printed"][1:]; c["none_found"] = not c["printed"]; cans.append(c)
    c = json.loads(json.dumps(vectors[0])); c["probes"] = c["probes"][1:]; cans.append(c)
    c = json.loads(json.dumps(vectors[0])); c["exit"] = 1; cans.append(c)
    rej = dict(ctx.validate_vectors("Trace_CliDiscover", vectors + cans, name=f"{ctx.pid}_Trace_CliDiscover"))
    missed = [j for j in range(n, n + len(cans)) if j not in rej]
    if missed:
        ctx.defer_machinery("Trace_CliDiscover accepted a canary")
    for j, clause in rej.items():
        if j < n:
            ctx.drift.append({"what": "msmart-ng discover (beyond the listed properties): " + clause, "argv": vectors[j]["argv"]})
    ctx.traces_validated -= len(cans) - len(missed)
    ctx.extra["cli_discover_growth"] = {"runs": n, "accepted": n - len([j for j in rej if j < n]), "canaries_rejected": len(cans) - len(missed),
                                        "devices_printed": sum(len(v["printed"]) for v in vectors), "runs_without_any_replier": sum(1 for v in vectors if not v["arrivals"])}


def download_run(rng, k, workdir):
    """One `msmart-ng download HOST` run: the host answers the discovery (or not), the SmartHome cloud answers each request as scripted."""
    import os
    import msmart.cli as cli
    from msmart.cloud import SmartHomeCloud, CloudError
    from msmart.discover import Discover
    from .drivers.c17 import rand_identity, build
    from . import cloudsrv
    found = k % 6 != 0
    ip = "10.8.%d.%d" % (k % 250, 1 + k % 200)
    ident = rand_identity(rng, typ=rng.choice([0xAC, 0xAC, 0xA1, 0xDB]), port=6444)
    rep = build(rng, ident, ip, rng.choice([2, 3]))
    own = k % 2 == 0
    region = rng.choice(["US", "DE", "KR"])
    account, password = ("user%d@example.com" % k, "pw%dsecret" % k) if own else SmartHomeCloud.CLOUD_CREDENTIALS[region]
    srv = cloudsrv.ModelSmartHome(account, password, rng=rng, cn=False)
    srv.sn = ident["sn"].decode()
    srv.script = [rng.choice(["ok"] * 7 + ["timeout", "http"]) for _ in range(16)] if k % 3 else []
    if srv.script and rng.random() < 0.25:
        srv.script[rng.randrange(2)] = "api"         # (an API-level refusal is an outcome of POST requests only; the first two requests are the login's)
    events = srv.events
    none = {"name": [], "data": []}
    calls, rets, seen = [], [], {}

    class Recorded(SmartHomeCloud):
        """The library's client, told which HTTP client to use, with its three public operations logged (call / result)."""

        def __init__(self, *a, **kw):
            kw.pop("get_async_client", None)
            super().__init__(*a, get_async_client=srv.client, **kw)

        async def _logged(self, op, coro, call):
            calls.append(op)
            events.append(call)
            try:
                r = await coro
            except CloudError:
                events.append({"ev": "ret", "r": "cloud_error", **none})
                raise
            except Exception as ex:  # noqa: BLE001 - code under test
                events.append({"ev": "ret", "r": "other:" + type(ex).__name__, **none})
                raise
            if op == "login":
                events.append({"ev": "ret", "r": "ok", **none})
            else:
                name, data = r
                raw = data.encode("utf-8") if isinstance(data, str) else bytes(data)
                events.append({"ev": "ret", "r": "ok", "name": B(str(name).encode()), "data": B(raw)})
                rets.append({"op": op, "name": B(str(name).encode()), "data": B(raw)})
            return r

        async def login(self, force=False):
            return await self._logged("login", super().login(force=force), {"ev": "call", "op": "login", "force": bool(force), "sn": [], "dtype": 0})

        async def get_protocol_lua(self, device_type, sn):
            seen.update(sn=str(sn), dtype=int(device_type))
            return await self._logged("lua", super().get_protocol_lua(device_type, sn), {"ev": "call", "op": "lua", "force": False, "sn": B(str(sn).encode()), "dtype": int(device_type)})

        async def get_plugin(self, device_type, sn):
            seen.update(sn=str(sn), dtype=int(device_type))
            return await self._logged("plugin", super().get_plugin(device_type, sn), {"ev": "call", "op": "plug", "force": False, "sn": B(str(sn).encode()), "dtype": int(device_type)})

    def setup(loop, net):
        state = {"armed": False}

        def on_udp(tr, data, addr):
            if found and not state["armed"]:
                state["armed"] = True
                loop.call_later(0.3, lambda: tr.inject(rep, (ip, 6445)))
        net.on_udp = on_udp
    Discover._lock = None
    d = workdir / f"dl{k}"
    d.mkdir(parents=True, exist_ok=True)
    for f in d.iterdir():
        f.unlink()
    cwd = os.getcwd()
    orig = cli.SmartHomeCloud
    cli.SmartHomeCloud = Recorded
    os.chdir(d)
    try:
        obs = run_cli(["download", ip, "--region", region] + (["--account", account, "--password", password] if own else []), acdev.ACModel(), 2, setup)
    finally:
        os.chdir(cwd)
        cli.SmartHomeCloud = orig
    files = [{"name": B(f.name.encode()), "data": B(f.read_bytes()), "mtime": f.stat().st_mtime_ns} for f in d.iterdir()]
    files.sort(key=lambda x: x["mtime"])
    for f in d.iterdir():
        f.unlink()
    d.rmdir()
    outs = [bool(found)]
    for e in events:
        if e.get("ev") == "ret":
            outs.append(e["r"] == "ok")
    vec = {"outs": outs, "calls": ["plugin" if c == "plugin" else c for c in calls], "rets": [{"op": r["op"], "name": r["name"], "data": r["data"]} for r in rets],
           "files": [{"name": f["name"], "data": f["data"]} for f in files], "exit": obs["exit"], "exc": obs["exc"],
           "call_sn": B(seen.get("sn", "").encode()), "dev_sn": B(ident["sn"]), "call_type": seen.get("dtype", -1), "dev_type": ident["typ"], "k": k}
    chain = {"account": B(account.encode()), "password": B(password.encode()), "cn": False, "events": events}
    return vec, chain


def growth_download(ctx: Ctx):
    from .tlc import WORK
    ctx.mc("MC_CliDownload", "SPECIFICATION DSpec\nINVARIANT Ends\nINVARIANT SuccessIffBothFiles\nINVARIANT NoCloudWithoutDevice\nINVARIANT NothingFetchedWithoutLogin\n"
                               "INVARIANT PluginOnlyAfterProtocol\nINVARIANT EscapesOnlyWhenFetching\nCHECK_DEADLOCK FALSE\n", name=f"{ctx.pid}_mc_clidownload", timeout=600)
    ctx.mc("MC_CliDownload", "SPECIFICATION FairDSpec\nPROPERTY Terminates\nCHECK_DEADLOCK FALSE\n", name=f"{ctx.pid}_live_clidownload", timeout=600)
    runs = [download_run(ctx.rng, k, WORK / f"{ctx.pid}_dl") for k in range(ctx.pick(60, 600))]
    vectors = [v for v, _ in runs]
    n = len(vectors)
    cans = []
    for v in vectors:
        if len(v["files"]) == 2 and len(cans) < 1:
            c = json.loads(json.dumps(v)); c["files"][0]["data"] = c["files"][0]["data"][:-1]; cans.append(c)
        if v["exit"] == 1 and len(cans) < 2:
            c = json.loads(json.dumps(v)); c["exit"] = 0; cans.append(c)
    rej = dict(ctx.validate_vectors("Trace_CliDownload", vectors + cans, name=f"{ctx.pid}_Trace_CliDownload"))
    missed = [j for j in range(n, n + len(cans)) if j not in rej]
    if missed:
        ctx.defer_machinery("Trace_CliDownload accepted a canary")
    for j, clause in rej.items():
        if j < n:
            ctx.drift.append({"what": "msmart-ng download (beyond the listed properties): " + clause, "run": vectors[j]["k"]})
    ctx.traces_validated -= len(cans) - len(missed)
    # the cloud side of the same runs: every request the command made, judged by the SmartHome cloud specification
    chains = [c for _, c in runs if any(e.get("ev") == "call" for e in c["events"])]
    bad = ctx.validate_chains("Trace_SmartHome", chains, name=f"{ctx.pid}_dl_cloud", consts="CONSTANTS\nRetries = 3\nOutcomes <- AllOutcomes\nMaxCalls = 1000\n")
    for j, clause in sorted(bad.items()):
        ctx.drift.append({"what": "msmart-ng download, cloud requests (beyond the listed properties): " + clause})
    from collections import Counter
    ctx.extra["cli_download_growth"] = {"runs": n, "accepted": n - len([j for j in rej if j < n]), "canaries_rejected": len(cans) - len(missed),
                                        "cloud_traces_accepted": len(chains) - len(bad), "cloud_traces": len(chains),
                                        "stages_reached": dict(Counter(len(v["outs"]) for v in vectors)), "exit_status": dict(Counter(v["exit"] for v in vectors)),
                                        "named_code_behaviour": "DownloadErrorEscapes: a cloud error while fetching the protocol / plugin ends the process with a traceback"}


def growth(ctx: Ctx):
    growth_discover(ctx)
    growth_download(ctx)
    ctx.mc("MC_CliQuery", "SPECIFICATION QSpec\n" + CFG, name=f"{ctx.pid}_mc_cliquery", timeout=600)
    ctx.mc("MC_CliQuery", "SPECIFICATION FairQSpec\nCONSTANTS\nRetries = 3\nPROPERTY Terminates\nCHECK_DEADLOCK FALSE\n", name=f"{ctx.pid}_live_cliquery", timeout=600)
    r = run_tlc("Gen_CliQuery", "SPECIFICATION QSpec\nCONSTANTS\nRetries = 3\nCONSTRAINT GEmit\nCHECK_DEADLOCK FALSE\n", name=f"{ctx.pid}_gen_cliquery", workers=1, timeout=600)
    scn = [json.loads(p[1]) for p in r.prints if isinstance(p, list) and p and p[0] == "SCN"]
    if len(scn) < 20:
        raise MachineryError("Gen_CliQuery produced no scenarios")
    vectors = [replay(s, ctx.rng, k + 1000 * rep) for rep in range(ctx.pick(2, 12)) for k, s in enumerate(scn)]
    n = len(vectors)
    # canaries: the same runs with one recorded field altered must be rejected
    cans = []
    for v in vectors:
        if v["printed"] == "state" and len(cans) < 2:
            c = json.loads(json.dumps(v)); c["attrs"]["eco"] = not c["attrs"]["eco"]; cans.append(c)
        if v["exit"] == 1 and v["kinds"] and len(cans) < 4:
            c = json.loads(json.dumps(v)); c["exit"] = 0; cans.append(c)
    c = json.loads(json.dumps(vectors[0])); c["sets"] = 1; cans.append(c)
    for v in vectors:
        if v["printed"] == "caps" and v["caps"]["op_modes"]:
            c = json.loads(json.dumps(v)); c["caps"]["op_modes"] = c["caps"]["op_modes"][1:]; cans.append(c)
            c = json.loads(json.dumps(v)); c["caps"]["eco"] = not c["caps"]["eco"]; cans.append(c)
            break
    rej = dict(ctx.validate_vectors("Trace_CliQuery", vectors + cans, name=f"{ctx.pid}_Trace_CliQuery", consts="CONSTANTS\nRetries = 3\n"))
    missed = [j for j in range(n, n + len(cans)) if j not in rej]
    if missed:
        ctx.defer_machinery("Trace_CliQuery accepted a canary")
    for j, clause in rej.items():
        if j < n:
            ctx.drift.append({"what": "msmart-ng query (beyond the listed properties): " + clause, "scn": vectors[j]["scn"]})
    ctx.traces_validated -= len(cans) - len(missed)
    ctx.extra["cli_query_growth"] = {"tlc_generated_behaviours": len(scn), "replayed": n, "accepted": n - len([j for j in rej if j < n]),
                                     "canaries_rejected": len(cans) - len(missed),
                                     "named_code_behaviours": ["OnlineOnlyByRefresh: a manual `query --capabilities` never succeeds (observation O1)",
                                                               "with --auto an unanswered capability query still prints the assumed defaults and exits 0 (observation O2)"]}
