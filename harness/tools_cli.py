"""The documented settings table of `msmart-ng control`: the specification source of spec/CliCatalogue.tla (written from it by
tools/gen_cli_catalogue.py).  The C20 driver uses it only to GENERATE command lines, never to predict results."""
ENUMS = {
    "OperationalMode": [("AUTO", 1), ("COOL", 2), ("DRY", 3), ("HEAT", 4), ("FAN_ONLY", 5), ("SMART_DRY", 6)],
    "FanSpeed": [("AUTO", 102), ("MAX", 100), ("HIGH", 80), ("MEDIUM", 60), ("LOW", 40), ("SILENT", 20)],
    "SwingMode": [("OFF", 0), ("VERTICAL", 12), ("HORIZONTAL", 3), ("BOTH", 15)],
    "SwingAngle": [("OFF", 0), ("POS_1", 1), ("POS_2", 25), ("POS_3", 50), ("POS_4", 75), ("POS_5", 100)],
    "RateSelect": [("OFF", 100), ("GEAR_50", 50), ("GEAR_75", 75), ("LEVEL_1", 1), ("LEVEL_2", 20), ("LEVEL_3", 40), ("LEVEL_4", 60), ("LEVEL_5", 80)],
    "AuxHeatMode": [("OFF", 0), ("AUX_HEAT", 1), ("AUX_ONLY", 2)],
}
# name, kind, target field, enum
SETTINGS = [
    ("operational_mode", "enum", "mode", "OperationalMode"), ("fan_speed", "enumraw", "fan", "FanSpeed"), ("swing_mode", "enum", "swing", "SwingMode"),
    ("aux_mode", "enum", "aux", "AuxHeatMode"),
    ("target_temperature", "float", "t2", None), ("target_humidity", "int", "hum", None),
    ("power_state", "bool", "power", None), ("eco", "bool", "eco", None), ("turbo", "bool", "turbo", None), ("sleep", "bool", "sleep", None),
    ("freeze_protection", "bool", "freeze", None), ("follow_me", "bool", "follow", None), ("purifier", "bool", "purifier", None),
    ("fahrenheit", "bool", "fahr", None), ("beep", "bool", "beep", None),
    ("eco_mode", "bool", "eco", None), ("turbo_mode", "bool", "turbo", None), ("sleep_mode", "bool", "sleep", None), ("freeze_protection_mode", "bool", "freeze", None),
    ("display_on", "display", "display", None),
    ("horizontal_swing_angle", "propenum", "lr", "SwingAngle"), ("vertical_swing_angle", "propenum", "ud", "SwingAngle"), ("rate_select", "propenum", "rate", "RateSelect"),
    ("breeze_away", "propbool", "away", None), ("breeze_mild", "propbool", "mild", None), ("breezeless", "propbool", "less", None), ("ieco", "propbool", "ieco", None),
    ("enable_energy_usage_requests", "local", "none", None), ("use_alternate_energy_format", "local", "none", None),
]


