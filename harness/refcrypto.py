"""Reference primitives for the oracle side: pure-Python AES (ECB, CBC with zero IV), hashlib digests.

Independent of pycryptodome and of msmart.  Self-tested against FIPS-197 / SP 800-38A vectors.
"""
from __future__ import annotations

import hashlib

# ---- AES core ---------------------------------------------------------------------------


def _xtime(a):
    a <<= 1
    if a & 0x100:
        a ^= 0x11B
    return a & 0xFF


def _mul(a, b):
    r = 0
    while b:
        if b & 1:
            r ^= a
        a = _xtime(a)
        b >>= 1
    return r


def _build_sbox():
    # multiplicative inverse via exp/log tables over generator 3
    exp = [0] * 512
    log = [0] * 256
    x = 1
    for i in range(255):
        exp[i] = x
        log[x] = i
        x = _mul(x, 3)
    for i in range(255, 512):
        exp[i] = exp[i - 255]
    sbox = [0] * 256
    for a in range(256):
        inv = 0 if a == 0 else exp[255 - log[a]]
        s = inv
        for _ in range(4):
            inv = ((inv << 1) | (inv >> 7)) & 0xFF
            s ^= inv
        sbox[a] = s ^ 0x63
    inv_sbox = [0] * 256
    for a, s in enumerate(sbox):
        inv_sbox[s] = a
    return sbox, inv_sbox


_SBOX, _INV_SBOX = _build_sbox()
_M2 = [_mul(a, 2) for a in range(256)]
_M3 = [_mul(a, 3) for a in range(256)]
_M9 = [_mul(a, 9) for a in range(256)]
_M11 = [_mul(a, 11) for a in range(256)]
_M13 = [_mul(a, 13) for a in range(256)]
_M14 = [_mul(a, 14) for a in range(256)]
_RCON = [0x01, 0x02, 0x04, 0x08, 0x10, 0x20, 0x40, 0x80, 0x1B, 0x36]


def _expand_key(key: bytes):
    nk = len(key) // 4
    if nk not in (4, 6, 8):
        raise ValueError("bad AES key length")
    nr = nk + 6
    w = [list(key[4 * i:4 * i + 4]) for i in range(nk)]
    for i in range(nk, 4 * (nr + 1)):
        t = list(w[i - 1])
        if i % nk == 0:
            t = t[1:] + t[:1]
            t = [_SBOX[b] for b in t]
            t[0] ^= _RCON[i // nk - 1]
        elif nk > 6 and i % nk == 4:
            t = [_SBOX[b] for b in t]
        w.append([w[i - nk][j] ^ t[j] for j in range(4)])
    return [sum((w[4 * r + c] for c in range(4)), []) for r in range(nr + 1)], nr


_SHIFT = [0, 5, 10, 15, 4, 9, 14, 3, 8, 13, 2, 7, 12, 1, 6, 11]
_INV_SHIFT = [0, 13, 10, 7, 4, 1, 14, 11, 8, 5, 2, 15, 12, 9, 6, 3]


def _enc_block(rk, nr, blk):
    s = [b ^ k for b, k in zip(blk, rk[0])]
    for r in range(1, nr):
        s = [_SBOX[s[i]] for i in _SHIFT]
        t = []
        for c in range(4):
            a0, a1, a2, a3 = s[4 * c:4 * c + 4]
            t += [_M2[a0] ^ _M3[a1] ^ a2 ^ a3, a0 ^ _M2[a1] ^ _M3[a2] ^ a3,
                  a0 ^ a1 ^ _M2[a2] ^ _M3[a3], _M3[a0] ^ a1 ^ a2 ^ _M2[a3]]
        s = [b ^ k for b, k in zip(t, rk[r])]
    s = [_SBOX[s[i]] for i in _SHIFT]
    return bytes(b ^ k for b, k in zip(s, rk[nr]))


def _dec_block(rk, nr, blk):
    s = [b ^ k for b, k in zip(blk, rk[nr])]
    for r in range(nr - 1, 0, -1):
        s = [_INV_SBOX[s[i]] for i in _INV_SHIFT]
        s = [b ^ k for b, k in zip(s, rk[r])]
        t = []
        for c in range(4):
            a0, a1, a2, a3 = s[4 * c:4 * c + 4]
            t += [_M14[a0] ^ _M11[a1] ^ _M13[a2] ^ _M9[a3], _M9[a0] ^ _M14[a1] ^ _M11[a2] ^ _M13[a3],
                  _M13[a0] ^ _M9[a1] ^ _M14[a2] ^ _M11[a3], _M11[a0] ^ _M13[a1] ^ _M9[a2] ^ _M14[a3]]
        s = t
    s = [_INV_SBOX[s[i]] for i in _INV_SHIFT]
    return bytes(b ^ k for b, k in zip(s, rk[0]))


_KEYCACHE: dict = {}


def _ks(key: bytes):
    key = bytes(key)
    r = _KEYCACHE.get(key)
    if r is None:
        if len(_KEYCACHE) > 4096:
            _KEYCACHE.clear()
        r = _KEYCACHE[key] = _expand_key(key)
    return r


def ecb_encrypt(key: bytes, data: bytes) -> bytes:
    if len(data) % 16:
        raise ValueError("ECB input not block aligned")
    rk, nr = _ks(key)
    return b"".join(_enc_block(rk, nr, data[i:i + 16]) for i in range(0, len(data), 16))


def ecb_decrypt(key: bytes, data: bytes) -> bytes:
    if len(data) % 16:
        raise ValueError("ECB input not block aligned")
    rk, nr = _ks(key)
    return b"".join(_dec_block(rk, nr, data[i:i + 16]) for i in range(0, len(data), 16))


def cbc_encrypt(key: bytes, data: bytes, iv: bytes = bytes(16)) -> bytes:
    if len(data) % 16:
        raise ValueError("CBC input not block aligned")
    rk, nr = _ks(key)
    out = []
    prev = iv
    for i in range(0, len(data), 16):
        prev = _enc_block(rk, nr, bytes(a ^ b for a, b in zip(data[i:i + 16], prev)))
        out.append(prev)
    return b"".join(out)


def cbc_decrypt(key: bytes, data: bytes, iv: bytes = bytes(16)) -> bytes:
    if len(data) % 16:
        raise ValueError("CBC input not block aligned")
    rk, nr = _ks(key)
    out = []
    prev = iv
    for i in range(0, len(data), 16):
        blk = data[i:i + 16]
        out.append(bytes(a ^ b for a, b in zip(_dec_block(rk, nr, blk), prev)))
        prev = blk
    return b"".join(out)


def md5(b: bytes) -> bytes:
    return hashlib.md5(bytes(b)).digest()


def sha256(b: bytes) -> bytes:
    return hashlib.sha256(bytes(b)).digest()


def xor(a: bytes, b: bytes) -> bytes:
    return bytes(x ^ y for x, y in zip(a, b))


# ---- protocol constants (copied from the public protocol description, not imported from msmart) ----
SIGN_KEY = b"xhdiwjnchekd4d512chdjx5d8e4c394D2D7S"
ENC_KEY = md5(SIGN_KEY)


def pkcs7_pad(b: bytes) -> bytes:
    n = 16 - len(b) % 16
    return bytes(b) + bytes([n]) * n


def pkcs7_unpad(b: bytes) -> bytes:
    if not b or len(b) % 16 or not (1 <= b[-1] <= 16) or b[-b[-1]:] != bytes([b[-1]]) * b[-1]:
        raise ValueError("bad padding")
    return bytes(b[:-b[-1]])


def selftest():
    k = bytes(range(16))
    pt = bytes.fromhex("00112233445566778899aabbccddeeff")
    assert ecb_encrypt(k, pt).hex() == "69c4e0d86a7b0430d8cdb78070b4c55a"
    assert ecb_decrypt(k, ecb_encrypt(k, pt)) == pt
    k32 = bytes(range(32))
    assert ecb_encrypt(k32, pt).hex() == "8ea2b7ca516745bfeafc49904b496089"
    assert ecb_decrypt(k32, ecb_encrypt(k32, pt)) == pt
    # SP 800-38A F.2.5 CBC-AES256
    key = bytes.fromhex("603deb1015ca71be2b73aef0857d77811f352c073b6108d72d9810a30914dff4")
    iv = bytes.fromhex("000102030405060708090a0b0c0d0e0f")
    p = bytes.fromhex("6bc1bee22e409f96e93d7e117393172aae2d8a571e03ac9c9eb76fac45af8e51")
    c = cbc_encrypt(key, p, iv)
    assert c.hex() == "f58c4c04d6e5f1ba779eabfb5f7bfbd69cfc4e967edb808d679f777bc6702c7d"
    assert cbc_decrypt(key, c, iv) == p
    assert hashlib.md5(b"abc").hexdigest() == "900150983cd24fb0d6963f7d28e17f72"
    assert hashlib.sha256(b"abc").hexdigest() == "ba7816bf8f01cfea414140de5dae2223b00361a396177a9cb410ff61f20015ad"
    assert pkcs7_unpad(pkcs7_pad(b"abc")) == b"abc" and len(pkcs7_pad(bytes(16))) == 32
    return True


if __name__ == "__main__":
    selftest()
    print("refcrypto selftest ok")
