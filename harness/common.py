"""Shared driver plumbing: tiers/seeds, TLC vector/chain validation, evidence, findings, verdict output."""
from __future__ import annotations

import concurrent.futures as cf
import json
import os
import random
import sys
import time
from pathlib import Path

from .tlc import MachineryError, TlcResult, WORK, run_tlc, write_json

VERIF = Path(__file__).resolve().parent.parent
REPO = Path(os.environ.get("VERIF_REPO", "/repo"))
if str(REPO) not in sys.path:
    sys.path.insert(0, str(REPO))
os.environ.setdefault("MSMART_VERIF", "1")

NCPU = os.cpu_count() or 4


def B(b) -> list:
    """bytes -> JSON list of ints (TLC Seq(0..255))."""
    return list(bytes(b))


class NotReplayable(Exception):
    """The recorded case cannot be re-executed on its own (it depends on the run around it): the whole check is re-run with the recorded seed."""


class Ctx:
    """Per-run context of one property check."""

    def __init__(self, pid: str, tier: str, seed: int, replay_mode: bool = False):
        self.pid = pid
        self.tier = tier
        self.seed = seed
        self.rng = random.Random(f"{pid}:{seed}")
        self.t0 = time.time()
        self.states = 0
        self.transitions = 0
        self.traces_validated = 0
        self.evaluations = 0
        self.distinct = set()
        self.samples = []
        self.violations = []          # dicts: {what, clause, replay}
        self.known = []               # matched known findings (strings)
        self.extra = {}
        self.mc_runs = []
        self.checker_cmds = []
        self.notes = []
        self.drift = []
        self.deferred = []
        self.findings = load_findings().get(pid, [])
        # a replay run keeps the recorded cases (one of them is being replayed) and writes what it finds next to them
        self.replay_dir = VERIF / "replay" / pid / "re" if replay_mode else VERIF / "replay" / pid
        if self.replay_dir.exists():
            for f in self.replay_dir.glob("*.json"):
                f.unlink()

    @property
    def quick(self):
        return self.tier == "quick"

    def pick(self, quick, thorough):
        return quick if self.quick else thorough

    # ---- TLC in-model runs -------------------------------------------------------------
    def mc(self, module: str, cfg: str, *, name: str | None = None, **kw) -> TlcResult:
        name = name or f"{self.pid}_{module}"
        kw.setdefault("workers", NCPU)
        r = run_tlc(module, cfg, name=name, **kw)
        self.states += r.distinct
        self.transitions += r.generated
        self.mc_runs.append({"module": module, "distinct": r.distinct, "generated": r.generated,
                             "depth": r.depth, "ok": r.ok, "violated": r.violated, "wall_s": round(r.wall_s, 2)})
        self.checker_cmds.append(r.cmd)
        if not r.ok:
            # the design-level model itself violates its invariant: a spec/machinery problem, never silently ignored
            raise MachineryError(f"in-model check failed: {module} violated {r.violated}\n" + r.raw[-3000:])
        return r

    # ---- code -> spec: stateless vectors -------------------------------------------------
    def validate_vectors(self, module: str, vectors: list, *, name: str | None = None, shards: int | None = None,
                         consts: str = "", timeout: int = 1800, heap: str = "3g") -> list[tuple[int, str]]:
        """Each vector is judged independently by TLC (Init == i \\in 1..N, invariant evaluates Verdict).
        Returns [(index, clause)] for rejected vectors."""
        name = name or f"{self.pid}_{module}"
        n = len(vectors)
        if n == 0:
            return []
        shards = shards or max(1, min(NCPU // 2, (n + 399) // 400))
        pool = shards
        shards = max(shards, (n + 7999) // 8000)          # at most 8,000 vectors per TLC run (the JSON of one run stays well below the heap); runs beyond the pool queue up
        chunks = [(k, vectors[k::shards]) for k in range(shards)]
        cfg = "INIT Init\nNEXT Next\nINVARIANT Judge\nCHECK_DEADLOCK FALSE\n" + consts

        def one(arg):
            k, chunk = arg
            p = write_json(f"{name}_s{k}", "vectors.json", chunk)
            r = run_tlc(module, cfg, name=f"{name}_s{k}", workers=2, env={"TRACE_FILE": str(p)},
                        timeout=timeout, heap=heap)
            if r.distinct != len(chunk):
                raise MachineryError(f"{module}: TLC judged {r.distinct} of {len(chunk)} vectors")
            rej = []
            for pr in r.prints:
                if isinstance(pr, list) and pr and pr[0] == "REJECT":
                    rej.append((k + (pr[1] - 1) * shards, str(pr[2])))
                elif isinstance(pr, list) and pr and pr[0] == "DRIFT":
                    self.drift.append({"vector": k + (pr[1] - 1) * shards, "what": str(pr[2])})
            return r, rej

        rejected = []
        with cf.ThreadPoolExecutor(max_workers=pool) as ex:
            for r, rej in ex.map(one, chunks):
                self.traces_validated += r.distinct - len(rej)
                self.checker_cmds.append(r.cmd)
                rejected += rej
        self.evaluations += n
        return sorted(rejected)

    # ---- code -> spec: stateful chains ----------------------------------------------------
    def validate_chains(self, module: str, traces: list, *, name: str | None = None, shards: int | None = None,
                        consts: str = "", timeout: int = 1800, heap: str = "3g") -> dict[int, str]:
        """Each trace is a chain {events:[...]} consumed by Trace spec `module`; the spec prints
        <<"DONE", tid, verdict>> when the whole chain was consumed.  Returns {tid: clause} for
        every trace that was not consumed with verdict "ok" (clause "stuck@<l>" when no action matched)."""
        name = name or f"{self.pid}_{module}"
        n = len(traces)
        if n == 0:
            return {}
        nev = sum(len(t["events"]) for t in traces)
        shards = shards or max(1, min(NCPU // 2, (nev + 2999) // 3000))
        chunks = [(k, traces[k::shards]) for k in range(shards)]
        cfg = "INIT TInit\nNEXT TNext\nINVARIANT Judge\nCHECK_DEADLOCK FALSE\n" + consts

        def one(arg):
            k, chunk = arg
            p = write_json(f"{name}_s{k}", "traces.json", chunk)
            r = run_tlc(module, cfg, name=f"{name}_s{k}", workers=1, env={"TRACE_FILE": str(p)},
                        timeout=timeout, heap=heap)
            done = {}
            at = {}
            for pr in r.prints:
                if isinstance(pr, list) and pr:
                    if pr[0] == "DONE":
                        done[pr[1]] = str(pr[2])
                    elif pr[0] == "AT":
                        at[pr[1]] = max(at.get(pr[1], 0), pr[2])
                    elif pr[0] == "OTHER":
                        oc = self.extra.setdefault("unjudged_clauses_of_other_properties", {})
                        oc[str(pr[2])] = oc.get(str(pr[2]), 0) + 1
            bad = {}
            for j in range(1, len(chunk) + 1):
                g = k + (j - 1) * shards
                if j not in done:
                    bad[g] = f"stuck@{at.get(j, '?')}"
                elif done[j] != "ok":
                    bad[g] = done[j]
            return r, bad

        out = {}
        with cf.ThreadPoolExecutor(max_workers=shards) as ex:
            for r, bad in ex.map(one, chunks):
                self.checker_cmds.append(r.cmd)
                out.update(bad)
        self.traces_validated += n - len(out)
        self.evaluations += n
        return out

    # ---- bookkeeping -----------------------------------------------------------------------
    def defer_machinery(self, msg: str) -> None:
        """A canary was accepted.  With nothing else wrong that is a machinery failure (exit 2, raised by finish()); when real executions were
        rejected as well, the canary's source was itself a misbehaving execution: the violations stand and the message becomes a note."""
        self.deferred.append(msg)

    def sample(self, obj, limit=6):
        if len(self.samples) < limit:
            self.samples.append(obj)

    def count_distinct(self, key):
        self.distinct.add(key)

    def violation(self, what: str, clause: str, payload) -> None:
        """Record a violation unless it matches a committed known finding."""
        for f in self.findings:
            if f.get("status") == "open" and finding_matches(f, clause, payload):
                msg = f"KNOWN-FINDING: property={self.pid} {f['what']}"
                if msg not in self.known:
                    self.known.append(msg)
                self.extra.setdefault("known_finding_occurrences", 0)
                self.extra["known_finding_occurrences"] += 1
                return
        d = self.replay_dir
        d.mkdir(parents=True, exist_ok=True)
        path = d / f"{len(self.violations):04d}.json"
        if len(self.violations) < 50:
            with open(path, "w") as fh:
                json.dump({"property": self.pid, "what": what, "clause": clause, "case": payload,
                           "seed": self.seed, "tier": self.tier}, fh, indent=1, default=_js)
        self.violations.append({"what": what, "clause": clause, "replay": str(path)})

    def finish(self, *, rule: str, exhaustive: bool = False, assumptions: list[str] | None = None,
               trusted: list[str] | None = None) -> int:
        if self.deferred:
            if not self.violations:
                raise MachineryError("; ".join(self.deferred))
            self.notes.append("a canary built from one of the misbehaving executions was not rejected (not counted against the machinery because real "
                              "executions were rejected as well): " + "; ".join(self.deferred)[:300])
            self.deferred = []
        wall = time.time() - self.t0
        cov = {
            "states": int(self.states),
            "transitions": int(self.transitions),
            "traces_validated_against_impl": int(self.traces_validated),
            "samples": self.samples or ["(no sample recorded)"],
            "evaluations": int(max(self.evaluations, 1)),
            "distinct_nontrivial": int(len(self.distinct)),
            "rule": rule,
            "exhaustive": bool(exhaustive),
            "checker_cmd": "; ".join(dict.fromkeys(c[-160:] for c in self.checker_cmds))[:4000],
            "trusted_base": trusted or ["TLC 1.8 / SANY / CommunityModules Json+IOUtils+Bitwise",
                                        "harness/refcrypto.py (AES/MD5/SHA-256 reference, self-tested)",
                                        "harness/vloop.py (virtual-time asyncio loop, in-memory transports)",
                                        "CPython asyncio semantics"],
            "mc_runs": self.mc_runs,
            "known_findings_matched": self.known,
            "conformance_drift": self.drift[:20],
            "notes": self.notes,
        }
        cov.update(self.extra)
        ev = {"property_id": self.pid, "tier": self.tier, "seed": int(self.seed), "level": "model_checking",
              "coverage": cov, "assumptions": assumptions or [], "wall_s": round(wall, 2),
              "violations": len(self.violations)}
        (VERIF / "evidence").mkdir(exist_ok=True)
        with open(VERIF / "evidence" / f"{self.pid}.json", "w") as fh:
            json.dump(ev, fh, indent=1, default=_js)
        for k in self.known:
            print(k)
        for v in self.violations[:20]:
            print(f"VIOLATION property={self.pid} replay={v['replay']}  # {v['what']}: {v['clause']}")
        if len(self.violations) > 20:
            print(f"... {len(self.violations) - 20} further violations of {self.pid} not listed")
        print(f"[{self.pid}] tier={self.tier} seed={self.seed} states={self.states} transitions={self.transitions} "
              f"impl_traces_ok={self.traces_validated} evaluations={self.evaluations} "
              f"distinct={len(self.distinct)} violations={len(self.violations)} known={len(self.known)} "
              f"wall={wall:.1f}s")
        return 1 if self.violations else 0


def _js(o):
    if isinstance(o, (bytes, bytearray, memoryview)):
        return bytes(o).hex()
    if isinstance(o, set):
        return sorted(o)
    return repr(o)


# ---- known findings -----------------------------------------------------------------------------

def load_findings() -> dict:
    p = VERIF / "known_findings.json"
    if not p.exists():
        return {}
    data = json.loads(p.read_text())
    out = {}
    for f in data.get("findings", []):
        out.setdefault(f["property"], []).append(f)
    return out


def finding_matches(f: dict, clause: str, payload) -> bool:
    """A finding lists the clause it concerns and a `match` dict of payload keys that must be equal
    (payload is the violating case as a dict).  Nothing else is suppressed."""
    if f.get("clause") and f["clause"] != clause:
        return False
    m = f.get("match", {})
    if not isinstance(payload, dict):
        return not m
    return all(payload.get(k) == v for k, v in m.items())
