"""C07 - V3 session discipline: nothing but a handshake request with the configured token before a successful handshake on the
same connection; every data packet under the session key of the latest handshake on its connection; counter = previous + 1
(wrapping inside the 2-byte field) for arbitrarily long sessions; after the 12 h / connection lifetime a new handshake (on a
new connection) comes first.

(a) TLC explores spec/LanSession.tla (client x device x network, all interleavings of user calls, connect results, deliveries,
    losses, timers, cancellation, peer close, the two clock jumps) with the monitor of spec/SessionMon.tla: m.bad = {}.
(b) TLC generates complete behaviours (Gen_LanSession: all 1-call behaviours by BFS, deeper ones by -simulate); each is replayed
    step by step into the REAL msmart.lan.LAN by the controlled scheduler (harness/sched.py).
(c) every recorded execution (from (b) and from code-driven random walks over the same environment alphabet) is judged by TLC:
    Trace_Mon (every C07 clause at every event, over what the device decoded with ITS keys) and Trace_LanSession (the execution
    must be a behaviour of the model).  Long sessions (> 65,536 packets on one connection) are judged by Trace_Ctr.
"""
from __future__ import annotations

import copy

from ..common import Ctx
from ..tlc import MachineryError
from .. import session, sched

PID = "C07"


def canaries(runs):
    """Corrupted copies of real executions; each must be rejected by the monitor (else the binding is vacuous)."""
    out = []
    want = {"ctr", "key", "nohs", "expiry"}
    for r in runs:
        ev = r["events"]
        tx = [i for i, e in enumerate(ev) if e["e"] == "tx"]
        if "ctr" in want:
            for a, b in zip(tx, tx[1:]):
                if ev[a]["c"] == ev[b]["c"] and ev[b]["t"] == "DATA":
                    c = copy.deepcopy(ev)
                    c[b]["ctr"] = (c[b]["ctr"] + 1) % 4096
                    out.append(("ctr", c))
                    want.discard("ctr")
                    break
        if "key" in want:
            for b in tx:
                if ev[b]["t"] == "DATA" and ev[b]["k"] > 0:
                    c = copy.deepcopy(ev)
                    c[b]["k"] += 100
                    out.append(("key", c))
                    want.discard("key")
                    break
        if "nohs" in want:
            for i, e in enumerate(ev):
                if e["e"] == "deliver" and e["m"] == "HSR" and e["gen"] and e["live"] and any(ev[b]["t"] == "DATA" and ev[b]["c"] == e["c"] for b in tx if b > i) \
                        and sum(1 for x in ev if x["e"] == "deliver" and x["m"] == "HSR" and x["c"] == e["c"]) == 1:     # the only handshake reply on that connection
                    c = copy.deepcopy(ev)
                    c[i]["obs"]["proof"] = False          # the reply the client accepted was in fact not genuine
                    out.append(("nohs", c))
                    want.discard("nohs")
                    break
        if "expiry" in want:
            for i, e in enumerate(ev):
                if e["e"] == "jumpauth":
                    nxt = [b for b in tx if b > i]
                    if len(nxt) >= 2 and ev[nxt[0]]["t"] == "HS" and ev[nxt[1]]["t"] == "DATA" and ev[nxt[0]]["c"] == ev[nxt[1]]["c"]:
                        c = copy.deepcopy(ev)
                        j = nxt[0]
                        d = next((x for x in range(j, nxt[1]) if c[x]["e"] == "deliver"), None)
                        if d is None:
                            continue
                        ctr = c[j]["ctr"]
                        del c[d], c[j]
                        for x in c[j:]:                      # keep the counter sequence consistent: only the handshake is missing
                            if x["e"] == "tx" and x["c"] == ev[j]["c"]:
                                x["ctr"], ctr = ctr, (ctr + 1) % 4096
                        out.append(("expiry", c))
                        want.discard("expiry")
                        break
        if not want:
            break
    return out


def check_canaries(ctx, runs, ver, retries):
    cans = canaries(runs)
    if len(cans) < 3:
        raise MachineryError(f"could not build the canaries (got {[k for k, _ in cans]})")
    bad = ctx.validate_chains("Trace_Mon", [{"events": c} for _, c in cans], name=f"{ctx.pid}_canary",
                              consts=f'CONSTANTS\nRetries = {retries}\nVer = {ver}\nCtrMod = 65536\nHSRetries = 3\nDevLevel = FALSE\nFocus = "{ctx.pid}"\n')
    ctx.traces_validated -= len(cans) - len(bad)
    ctx.evaluations -= len(cans)
    if len(bad) != len(cans):
        ctx.defer_machinery(f"the monitor accepted a canary: {[k for i, (k, _) in enumerate(cans) if i not in bad]}")
    ctx.extra["canaries_rejected"] = {k: bad[i] for i, (k, _) in enumerate(cans)}


def long_session(ctx: Ctx, n_sends, seed=0):
    s = sched.Session(version=3, retries=3, seed=seed)
    s.frame = b"\xaa\x01"                # the LAN layer does not interpret frames; a short one keeps 66,000 pure-Python AES exchanges affordable
    try:
        s.call_auth("good")
        s.conn("ok")
        s.deliver(0)
        s.timer()
        head = len(s.trace)
        ok = 0
        for _ in range(n_sends):
            s.call_send()
            if not s.parked:
                break
            s.deliver(0)
            if s.trace[-1].get("r") != "frames":
                break
            ok += 1
    finally:
        s.close()
    tx = [e for e in s.trace if e["e"] == "tx"]
    rets = [e for e in s.trace if e["e"] == "ret" and e["op"] == "send"]
    vec = {"ctrs": [e["ctr"] for e in tx], "types": [e["t"] for e in tx], "keys": [e["k"] for e in tx if e["t"] == "DATA"],
           "keyid": tx[0]["k"], "sends": n_sends, "frames": sum(1 for e in rets if e["r"] == "frames"),
           "last": [e for e in s.trace[-6:]]}
    return s, vec, head


def late_rehandshake(ctx: Ctx, n_sends, seed=0):
    """A connection that has carried more than 4096 packets, THEN the 12 h expiry (and an explicit authenticate): the handshake requests continue the
    counter like any packet, and the session goes on under the new key."""
    s = sched.Session(version=3, retries=3, seed=seed)
    s.frame = b"\xaa\x01"
    try:
        s.call_auth("good")
        s.settle()
        for _ in range(n_sends):
            s.call_send()
            if not s.parked:
                break
            s.deliver(0)
        s.jumpauth()
        s.call_send()
        s.settle()
        s.call_auth("good")
        s.settle()
        for _ in range(3):
            s.call_send()
            s.settle()
    finally:
        s.close()
    return {"steps": s.steps, "events": s.trace, "stuck": None}


def aged_sessions(ctx: Ctx):
    """The 12 h key lifetime runs from the accepted handshake: sessions kept ACTIVE (traffic every 6 h) must re-handshake all the same."""
    from .. import sched
    rng = ctx.rng
    plans = [["auth", "send", "half", "send", "half", "send", "send"],
             ["auth", "half", "send", "send", "half", "send", "half", "send", "half", "send"],
             ["auth", "send", "half", "auth", "half", "send", "half", "send"],
             ["auth", "half", "close", "send", "half", "send", "half", "send"],
             ["auth", "half", "send", "half", "auth", "send", "half", "send", "half", "send"],
             ["auth", "send", "authbad", "send", "close", "send", "send"], ["auth", "authbad", "full", "send", "send"]]
    for _ in range(ctx.pick(12, 200)):
        plans.append(["auth"] + [rng.choice(["send", "send", "half", "half", "auth", "authbad", "close", "full"]) for _ in range(rng.randint(4, 12))] + ["send"])
    # the unit is provisioned anew and the user authenticates with the new credentials: every later handshake the library starts on its own carries THOSE
    plans += [["auth", "send", "reprov", "auth", "send", "full", "send", "send"], ["auth", "reprov", "auth", "half", "half", "send", "send"],
              ["auth", "send", "reprov", "auth", "close", "send", "send"], ["auth", "reprov", "auth", "reprov", "auth", "full", "send"]]
    nplain = len(plans)
    # ... and with a maximum connection lifetime configured (and configured AGAIN while the connection exists): it runs from the connection's establishment
    plans += [["auth", "send", "reprov", "auth", "send", "life", "send", "send"], ["auth", "send", "setlife", "life", "send", "send"], ["auth", "setlife", "send", "setlife", "life", "send"],
              ["auth", "send", "life", "send", "setlife", "send", "life", "send"]]
    for _ in range(ctx.pick(8, 120)):
        plans.append(["auth"] + [rng.choice(["send", "send", "setlife", "life", "half", "close", "auth"]) for _ in range(rng.randint(4, 10))] + ["send"])
    runs = []
    for k, pl in enumerate(plans):
        s = sched.Session(version=3, retries=3, seed=ctx.seed * 977 + k, lifetime=None if k < nplain else session.LIFE)
        try:
            for a in pl:
                if a == "auth":
                    s.call_auth("good")
                    s.settle()
                elif a == "reprov":
                    s.reprovision()
                elif a == "authbad":
                    s.call_auth("bad")          # credentials the unit does not know, presented on whatever session exists
                    s.settle()
                elif a == "send":
                    s.call_send()
                    s.settle()
                elif a == "half" and "jumphalf" in s.enabled() and s.lan._protocol is not None and s.lan._protocol.authenticated:
                    s.jumphalf()
                elif a == "full" and s.lan._protocol is not None and s.lan._protocol.authenticated:
                    s.jumpauth()
                elif a == "close" and "peerclose" in s.enabled():
                    s.peerclose()
                elif a == "setlife" and s.lan._protocol is not None:
                    s.setlife()
                elif a == "life" and "jumplife" in session.model_enabled(s):
                    s.jumplife()
        finally:
            s.close()
        runs.append({"steps": s.steps, "events": s.trace, "stuck": None, "plan": pl})
    return runs


def run(ctx: Ctx) -> int:
    q = ctx.quick
    # (a) the design: exhaustive
    session.clause_reachability(ctx, "C07")
    session.mc(ctx, 3, 2, name="C07_mc_v3_r2_c2", calls=2, coverage=True)
    session.mc(ctx, 3, 2, name="C07_mc_v3_r2_c3_halves", calls=3, halves=True, life=False, hs="HSValid", data="DataValid")
    session.mc(ctx, 3, 2, name="C07_mc_v3_r2_c2_allclasses", calls=2, hs="HSAll", data="DataAll", fly=2)
    if not q:
        session.mc(ctx, 3, 2, name="C07_mc_v3_r2_c3", calls=3, coverage=True)
        session.mc(ctx, 3, 3, name="C07_mc_v3_r3_c2_hs1", calls=2, hsretries=1)
    # (b) spec -> code
    scn = session.gen(ctx, 3, 2, name="C07_gen_bfs1", calls=1, hs="HSAll", data="DataAll", limit=ctx.pick(1500, None))
    scn_sim = session.gen(ctx, 3, 3, name="C07_gen_sim", calls=ctx.pick(4, 6), conn=4, keys=6, simulate=f"num={ctx.pick(500, 12000)}", depth=ctx.pick(60, 90),
                          seed=ctx.seed + 1, hs="HSAll", data="DataAll", hsretries=3, timeout=3000)
    runs2 = [session.replay(s, ver=3, retries=2, seed=ctx.seed * 7919 + i) for i, s in enumerate(scn)]
    runs3 = [session.replay(s, ver=3, retries=3, seed=ctx.seed * 104729 + i) for i, s in enumerate(scn_sim)]
    ctx.extra["tlc_generated_scenarios"] = {"bfs_1call": len(scn), "simulated": len(scn_sim)}
    harness_stuck = [r["stuck"] for r in runs2 + runs3 if r["stuck"]]
    # (c) code -> spec
    session.validate(ctx, runs2, ver=3, retries=2, name="C07_bfs", what="TLC-generated 1-call behaviour replayed into LAN")
    session.validate(ctx, runs3, ver=3, retries=3, name="C07_sim", what="TLC-simulated behaviour replayed into LAN")
    walks = [session.walk(ctx.seed * 65537 + k, ver=3, retries=3, steps=ctx.pick(40, 70)) for k in range(ctx.pick(400, 8000))]
    session.validate(ctx, walks, ver=3, retries=3, name="C07_walk", what="random walk over the model's environment alphabet")
    aged = aged_sessions(ctx)
    session.validate(ctx, aged, ver=3, retries=3, name="C07_aged", what="active session ageing in half-lifetime steps")
    ctx.extra["aged_sessions"] = len(aged)
    check_canaries(ctx, walks + runs3, 3, 3)
    for r in runs2 + runs3 + walks:
        ctx.count_distinct(tuple((e["e"], e.get("t"), e.get("reply"), e.get("r"), e.get("m")) for e in r["events"]))
    if harness_stuck:
        ctx.notes.append(f"{len(harness_stuck)} generated scenarios could not be replayed to the end on the real object, e.g. {harness_stuck[0]}")
    # long sessions: more than 65,536 packets on one connection
    n = ctx.pick(66000, 140000)
    s, vec, head = long_session(ctx, n, seed=ctx.seed)
    last = vec.pop("last")
    rej = ctx.validate_vectors("Trace_Ctr", [vec], name="C07_long", consts="CONSTANTS\nRetries = 3\nVer = 3\nCtrMod = 65536\nHSRetries = 3\nDevLevel = FALSE\n",
                               heap="6g")
    for _, clause in rej:
        ctx.violation("long session on one connection", clause.split(" @")[0], {"clause": clause, "sends": n, "packets_seen": len(vec["ctrs"]), "last_events": last})
    # ... and the first part of it, event by event, through the full monitor (crosses the 12-bit wrap)
    cut = head + 4 * ctx.pick(4200, 9000)
    session.validate(ctx, [{"events": s.trace[:cut], "steps": s.steps}], ver=3, retries=3, name="C07_longhead", what="long session (first part)", conformance=False)
    late = late_rehandshake(ctx, ctx.pick(4150, 9000), seed=ctx.seed + 5)
    session.validate(ctx, [late], ver=3, retries=3, name="C07_late_rehandshake", what="re-handshake on a connection that has carried more than 4096 packets", conformance=False)
    ctx.extra["long_session"] = {"sends": n, "packets": len(vec["ctrs"]), "max_counter": max(vec["ctrs"]), "wraps": sum(1 for a in vec["ctrs"] if a == 0) - 1}
    ctx.sample({"scenario": [[e.get("e"), e.get("t", e.get("op", e.get("m", ""))), e.get("reply", e.get("r", ""))] for st in scn_sim[0] for e in st][:40]})
    ctx.sample({"walk_events": walks[0]["events"][:12]})
    return ctx.finish(
        rule="LanSession model: V3, retries 2-3, <=2 (quick) / <=3 (thorough) calls exhaustively, all reply classes; TLC-generated behaviours: all "
             "1-call behaviours + simulated 4-6-call behaviours replayed into msmart.lan.LAN; random walks of 40-70 environment actions over "
             "{send, authenticate good/bad, connect ok/refused/hanging, deliver/lose any in-flight message, timer, cancel, peer close, 12 h jump, "
             "half-lifetime steps on active sessions, lifetime jump} x reply classes {valid, forged (5 kinds), error, garbage, encrypted, none, bad tag/inner, stray handshake reply, "
             "unsolicited, duplicate}; one connection carrying > 65,536 packets; distinct = distinct observable event sequences",
        assumptions=["device derives a fresh session key for every handshake request with the right token (rotate-on-handshake device model)",
                     "reading F5: 'latest handshake' = latest handshake whose reply the client accepted (DESIGN 6.1)"])


def replay(ctx: Ctx, path: str) -> int:
    import json
    c = json.load(open(path))["case"]
    if "scenario" in c and c["scenario"]:
        r = session.replay(c["scenario"], ver=c.get("ver", 3), retries=c.get("retries", 3), seed=ctx.seed)
        session.validate(ctx, [r], ver=c.get("ver", 3), retries=c.get("retries", 3), name="C07_replay", what="replayed scenario", conformance=False)
    elif "events" in c:
        session.validate(ctx, [{"events": c["events"], "steps": []}], ver=c.get("ver", 3), retries=c.get("retries", 3), name="C07_replay",
                         what="recorded events", conformance=False)
    return ctx.finish(rule="replay of one recorded execution")
