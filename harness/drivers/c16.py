"""C16 - property-protocol settings: sent once, correctly encoded, read back equal.

(a) TLC explores spec/AcDevice.tla (client attributes / _updated_properties / _supported_properties x device registers with the
    vendor encodings and a single breeze mode) for six capability profiles: ReadBackEqual, DeviceSingleBreeze, WriteIsUpd,
    NoWriteWithoutChange, ClearedByApply over all histories up to a depth bound (reduced value sets).
(b) TLC generates histories of public calls (Gen_C16: all histories of 4 calls starting with get_capabilities over the reduced value
    sets, simulated 10-call histories over the full enum sets); each is replayed on a real AirConditioner talking to the simulated
    appliance through the real V2 transport.
(c) every recorded history (what the device received in 0xB0 / 0xB1 frames, public attributes, device registers after every call)
    is validated by TLC against the AcDevice action of each call (Trace_C16).
"""
from __future__ import annotations

import copy

from ..common import B, Ctx
from ..tlc import MachineryError, run_tlc
from .. import vloop, acdev, landev

PUD, PLR, PLESS, PBUZZ, PCLEAN, PAWAY, PCTL, PRATE, PIECO = 9, 10, 0x18, 0x1A, 0x39, 0x42, 0x43, 0x48, 0xE3
PROFILES = {
    "Modern": {PCTL, PLESS, PIECO, PRATE, PLR, PUD, PCLEAN},
    "LegacyBoth": {PAWAY, PLESS},
    "LegacyAway": {PAWAY, PRATE},
    "LegacyLess": {PLESS, PIECO, PLR},
    "NoProps": set(),
    "CtlWithLegacy": {PCTL, PAWAY, PLESS, PRATE},
}
INIT = {PAWAY: 1, PCTL: 1, PRATE: 100}
MC_INV = ("INVARIANT ReadBackEqual\nINVARIANT DeviceSingleBreeze\nINVARIANT ClientSingleBreeze\nINVARIANT DTypeOK\n"
          "PROPERTY WriteIsUpd\nPROPERTY NoWriteWithoutChange\nPROPERTY ClearedByApply\n")


def caps_pages(prof, five_level=False, rich=False, pages2=False, swing_modes=None):
    """One 0xB5 page, or - as real units do - two: the first announces 'additional capabilities', the property settings sit on the second."""
    if not pages2:
        return [caps_body(prof, five_level, rich, swing_modes)]
    one = caps_body({i for i in prof if i < 64}, five_level, rich, swing_modes)  # modes (+ humidity / energy) and the property ids below 0x40
    two = caps_body({i for i in prof if i >= 64}, five_level, False)
    two = bytes([0xB5, two[1] - 1]) + two[2:-4]                     # the remaining property records, without the MODES record
    return [one + bytes([1, 0]), two + bytes([0, 0])]


def caps_body(prof, five_level=False, rich=False, swing_modes=None):
    recs = b""
    n = 0
    if swing_modes is not None:                 # SWING_MODES: which louvers can SWING (a state-protocol capability; the angle properties are advertised on their own)
        recs += bytes([0x15, 0x02, 1, swing_modes])
        n += 1
    if rich:                                    # the unit also has an indoor humidity sensor and energy statistics: its refresh is four exchanges
        recs += bytes([0x1F, 0x02, 1, 2, 0x16, 0x02, 1, 3])
        n += 2
    for pid in sorted(prof):
        val = (2 if five_level else 1) if pid == PRATE else 1
        recs += pid.to_bytes(2, "little") + bytes([1, val])
        n += 1
    recs += bytes([0x14, 0x02, 1, 0])          # MODES: something ordinary
    return bytes([0xB5, n + 1]) + recs


SWING_MODES_VALUE = {"v": None}


def make_device(prof, five_level=False, rich=False, pages2=False, variant=0):
    props = {}
    for pid in prof:
        props[pid] = (bytes([1, 0]) + (bytes([60, 40, 40, 40, 0]) if variant % 2 else b"")) if pid == PIECO else bytes([INIT.get(pid, 0)])
    extra = dict(energy=bytes([0xC1, 0x21, 0x01, 0x44, 0, 0, 0x12, 0x34, 0, 0, 0, 0, 0, 0, 0, 0x56, 0, 7, 0x89, 0]), humidity=bytes([0xC1, 0x21, 0x01, 0x45, 47, 0, 0, 0])) if rich else {}
    d = acdev.ACModel(caps_pages=caps_pages(prof, five_level, rich, pages2, [None, 0, 1, 3, 2, None, 0, 3][variant % 8]), props=props, **extra)
    d.ieco_full = bool(variant % 2)                  # iECO reported as the full 7-byte record instead of number + switch
    d.state["swing"] = [0, 15, 3, 12][(variant // 2) % 4]      # the louvers are swinging (both / one axis) or not: the swing MODE is a state-protocol setting
    d.strict = True
    return d


def regs_of(dev):
    return sorted([pid, (v[1] if pid == PIECO else v[0])] for pid, v in dev.props.items())


def observe(ac):
    flags = [bool(ac.breeze_away), bool(ac.breeze_mild), bool(ac.breezeless)]
    breeze = 1 if not any(flags) else (2 if flags[0] else (3 if flags[1] else 4))
    return {"breeze": breeze, "ieco": bool(ac.ieco), "rate": int(ac.rate_select), "lr": int(ac.horizontal_swing_angle),
            "ud": int(ac.vertical_swing_angle), "clean": bool(ac.self_clean_active)}, sum(flags)


def replay(hist, prof, *, five_level=False, mid_apply=False, rich=False, lost_state=False, pages2=False, lost_ack=False, variant=0):
    from msmart.device import AirConditioner as AC
    AX = AC
    vloop.install_clock()
    loop = vloop.new_loop()
    net = vloop.Net(loop)
    dev = make_device(prof, five_level, rich, pages2, variant)
    if lost_ack:
        # the acknowledgement of every second property write (0xB0) is lost although the unit took the write: that apply() has still written the
        # changed properties exactly once, and a later apply() without a new change writes nothing
        orig_handle0 = dev.handle
        cnt0 = {"n": 0}

        def handle0(f):
            out = orig_handle0(f)
            if len(f) > 10 and f[10] == 0xB0 and f[9] == 2:
                key = bytes(f)
                if key not in cnt0:
                    cnt0["n"] += 1
                    cnt0[key] = cnt0["n"] % 2 == 1
                if cnt0[key]:
                    return []
            return out
        dev.handle = handle0
    if lost_state:
        # the answer to every second state command (0x40) of an apply() is lost (the unit executes it and stays reachable); the property protocol of
        # that apply() is the same as with a prompt unit: the write of what changed still goes out, once
        orig_handle = dev.handle
        cnt = {"n": 0}

        def handle(f):
            out = orig_handle(f)
            if len(f) > 10 and f[10] == 0x40 and f[9] == 2:
                key = bytes(f)                       # retransmissions of one command are the same bytes: all of them go unanswered
                if key not in cnt:
                    cnt["n"] += 1
                    cnt[key] = cnt["n"] % 2 == 1
                if cnt[key]:
                    return []
            return out
        dev.handle = handle
    ldev = landev.LanDevice(loop, net, dev, version=2)
    ldev.respond = lambda tr, packets: [loop.call_later(0.05, tr.feed, p) for p in packets]     # every answer takes 50 ms (virtual)
    ac = AC(ip="10.0.0.9", port=6444, device_id=0x1122334455)
    events = []
    SETTERS = {"away", "mild", "less", "ieco", "beep", "rate", "lr", "ud"}

    def snapshot(a, v, mark, raised=""):
        b0, b1 = [], []
        for f in dev.rx_frames[mark:]:
            c = acdev.parse_command(f)
            if c["ok"] and c["body"][:1] == b"\xb0":
                if B(f) not in b0:                     # byte-identical frames are retransmissions of ONE command by the transport
                    b0.append(B(f))
            elif c["ok"] and c["body"][:1] == b"\xb1":
                if B(f) not in b1:
                    b1.append(B(f))
        attrs, nb = observe(ac)
        events.append({"a": a, "v": int(v), "b0": b0, "b1": b1, "attrs": attrs, "nbreeze": nb, "regs": regs_of(dev), "raised": raised,
                       "sup": {"away": bool(ac.supports_breeze_away), "mild": bool(ac.supports_breeze_mild), "less": bool(ac.supports_breezeless),
                               "ieco": bool(ac.supports_ieco), "lr": bool(ac.supports_horizontal_swing_angle),
                               "ud": bool(ac.supports_vertical_swing_angle), "clean": bool(ac.supports_self_clean)}})

    def do_setter(a, v):
        if a == "away":
            ac.breeze_away = bool(v)
        elif a == "mild":
            ac.breeze_mild = bool(v)
        elif a == "less":
            ac.breezeless = bool(v)
        elif a == "ieco":
            ac.ieco = bool(v)
        elif a == "beep":
            ac.beep = bool(v)
        elif a == "rate":
            ac.rate_select = AX.RateSelect(v)
        elif a == "lr":
            ac.horizontal_swing_angle = AX.SwingAngle(v)
        elif a == "ud":
            ac.vertical_swing_angle = AX.SwingAngle(v)

    async def go():
        import asyncio
        k = 0
        while k < len(hist):
            st = hist[k]
            k += 1
            a, v = st["a"], st["v"]
            mark = len(dev.rx_frames)
            raised = ""
            if mid_apply and a in SETTERS and k < len(hist) and hist[k]["a"] == "apply" and (k + len(hist)) % 2 == 0:
                # the setter is called by another task WHILE apply() is waiting for the answer to its state command: for the property
                # protocol this is the history [setter, apply] (the change is made before the property write is assembled)
                k += 1
                try:
                    t = asyncio.ensure_future(ac.apply())
                    await asyncio.sleep(0.02)
                    do_setter(a, v)
                    snapshot(a, v, len(dev.rx_frames))
                    await t
                except Exception as ex:  # noqa: BLE001 - code under test
                    raised = type(ex).__name__
                snapshot("apply", 0, mark, raised)
                continue
            try:
                if a == "away":
                    ac.breeze_away = bool(v)
                elif a == "mild":
                    ac.breeze_mild = bool(v)
                elif a == "less":
                    ac.breezeless = bool(v)
                elif a == "ieco":
                    ac.ieco = bool(v)
                elif a == "beep":
                    ac.beep = bool(v)
                elif a == "rate":
                    ac.rate_select = AX.RateSelect(v)
                elif a == "lr":
                    ac.horizontal_swing_angle = AX.SwingAngle(v)
                elif a == "ud":
                    ac.vertical_swing_angle = AX.SwingAngle(v)
                elif a == "apply":
                    await ac.apply()
                elif a == "refresh":
                    await ac.refresh()
                elif a == "caps":
                    await ac.get_capabilities()
                elif a == "selfclean":
                    await ac.start_self_clean()
                elif a == "caps1":
                    # two capability pages, the request for the second one goes unanswered (whatever the variant of this run, the unit answers in two pages here)
                    saved = dev.caps_pages
                    dev.caps_pages = caps_pages(prof, five_level, rich, True)
                    dev.lose_second_page = True
                    try:
                        await ac.get_capabilities()
                    finally:
                        dev.lose_second_page = False
                        dev.caps_pages = saved
                elif a == "cleandone":
                    dev.props[PCLEAN] = b"\x00"                 # the unit has finished its self-clean cycle
            except Exception as ex:  # noqa: BLE001 - code under test
                raised = type(ex).__name__
            b0, b1 = [], []
            for f in dev.rx_frames[mark:]:
                c = acdev.parse_command(f)
                if c["ok"] and c["body"][:1] == b"\xb0":
                    if B(f) not in b0:
                        b0.append(B(f))
                elif c["ok"] and c["body"][:1] == b"\xb1":
                    if B(f) not in b1:
                        b1.append(B(f))
            attrs, nb = observe(ac)
            events.append({"a": a, "v": int(v), "b0": b0, "b1": b1, "attrs": attrs, "nbreeze": nb, "regs": regs_of(dev), "raised": raised,
                           "sup": {"away": bool(ac.supports_breeze_away), "mild": bool(ac.supports_breeze_mild), "less": bool(ac.supports_breezeless),
                                   "ieco": bool(ac.supports_ieco), "lr": bool(ac.supports_horizontal_swing_angle),
                                   "ud": bool(ac.supports_vertical_swing_angle), "clean": bool(ac.supports_self_clean)}})
    vloop.run(loop, go())
    return events


def gen(ctx, prof_name, *, name, depth, simulate=None, caps_first=False, full=False, seed=None, shape=False):
    cfg = ("INIT GInit\nNEXT GNext\nCONSTANTS\nProf <- %s\nMaxDepth = %d\n%s%sCONSTRAINT GEmit\nCHECK_DEADLOCK FALSE\n" %
           (prof_name, depth, "" if full else "Angles <- MCAngles\nRates <- MCRates\n",
            ("CONSTRAINT CapsFirst\n" if caps_first else "") + ("CONSTRAINT ReadBackShape\n" if shape else "")))
    r = run_tlc("Gen_C16", cfg, name=name, workers=1, timeout=1800, heap="6g", simulate=simulate, depth=depth + 1 if simulate else None, seed=seed)
    ctx.checker_cmds.append(r.cmd)
    import json
    seen, out = set(), []
    for pr in r.prints:
        if isinstance(pr, list) and pr and pr[0] == "SCN" and pr[1] not in seen:
            seen.add(pr[1])
            out.append(json.loads(pr[1]))
    if not out:
        raise MachineryError(f"generator {name} produced no history")
    return out


def directed(prof):
    """Hand-picked histories around the profile's breeze ids (always replayed)."""
    H = lambda *xs: [{"a": a, "v": v} for a, v in xs]
    out = [
        H(("caps", 0), ("away", 1), ("apply", 0), ("refresh", 0), ("apply", 0), ("refresh", 0)),
        H(("caps", 0), ("less", 1), ("apply", 0), ("refresh", 0), ("away", 1), ("apply", 0), ("refresh", 0), ("away", 0), ("apply", 0), ("refresh", 0)),
        H(("caps", 0), ("away", 1), ("less", 1), ("apply", 0), ("refresh", 0), ("mild", 1), ("apply", 0), ("refresh", 0)),
        H(("caps", 0), ("ieco", 1), ("selfclean", 0), ("apply", 0), ("refresh", 0), ("apply", 0)),
        H(("caps", 0), ("refresh", 0), ("apply", 0), ("refresh", 0), ("apply", 0)),
        *([H(("caps", 0), ("selfclean", 0), ("refresh", 0), ("cleandone", 0), ("refresh", 0), ("refresh", 0)),
           H(("caps", 0), ("selfclean", 0), ("cleandone", 0), ("apply", 0), ("refresh", 0), ("selfclean", 0), ("refresh", 0))] if PCLEAN in prof else []),
        H(("away", 1), ("caps", 0), ("apply", 0), ("refresh", 0), ("less", 1), ("apply", 0), ("refresh", 0)),
        H(("caps", 0), ("rate", 50), ("lr", 25), ("ud", 100), ("beep", 1), ("apply", 0), ("apply", 0), ("refresh", 0), ("rate", 100), ("apply", 0), ("refresh", 0)),
    ]
    return out


def judge(ctx, runs, canaries=True):
    """runs: list of dict(profile, five, hist, events)."""
    by = {}
    for r in runs:
        by.setdefault(r["profile"], []).append(r)
    for pname, rs in by.items():
        for r in rs:
            for k, e in enumerate(r["events"]):
                if e["raised"]:
                    ctx.violation(f"{pname}: {e['a']} raised {e['raised']}", "a public call raised", {"profile": pname, "five": r["five"], "rich": r.get("rich", False), "lost": r.get("lost", False), "hist": r["hist"][:k + 1]})
        traces = [{"events": r["events"]} for r in rs]
        cans = []
        if canaries and pname in ("Modern", "LegacyBoth"):
            src = next((r for r in rs if any(e["b0"] for e in r["events"]) and any(e["a"] == "refresh" and e["b1"] for e in r["events"])), None)
            if src is None:
                raise MachineryError("no trace suitable for canaries")
            k = next(i for i, e in enumerate(src["events"]) if e["b0"])
            c = copy.deepcopy(src["events"])
            c[k]["b0"] = []                                                   # the write was not sent
            cans.append(c)
            c = copy.deepcopy(src["events"])
            c[k]["b0"] = c[k]["b0"] * 2                                       # sent twice
            cans.append(c)
            c = copy.deepcopy(src["events"])
            j = next(i for i, e in enumerate(c) if e["a"] == "refresh" and e["b1"])
            c[j]["attrs"]["rate"] = 60 if c[j]["attrs"]["rate"] != 60 else 40  # read back differs
            cans.append(c)
            c = copy.deepcopy(src["events"])
            c[k]["b0"][0][-3] ^= 1                                            # one value byte changed (CRC no longer matches either)
            cans.append(c)
        bad = ctx.validate_chains("Trace_C16", traces + [{"events": c} for c in cans], name=f"C16_{pname}",
                                  consts=f"CONSTANTS\nProf <- {pname}\nMaxDepth = 0\n")
        n = len(traces)
        if len([i for i in bad if i >= n]) != len(cans):
            ctx.defer_machinery(f"Trace_C16 accepted a canary ({pname})")
        ctx.traces_validated -= 0
        ctx.extra["canaries_rejected"] = ctx.extra.get("canaries_rejected", 0) + len(cans)
        for i, clause in sorted(bad.items()):
            if i >= n:
                continue
            if clause.startswith("harness") or clause.startswith("stuck"):
                raise MachineryError(f"Trace_C16 could not judge trace {i} of {pname}: {clause}")
            r = rs[i]
            at = int(clause.split(" @event ")[1])
            cl = clause.split(" @event ")[0]
            ctx.violation(f"{pname}: history {[(s['a'], s['v']) for s in r['hist'][:at]]}"[:300], cl,
                          {"profile": pname, "five": r["five"], "mid_apply": r.get("mid", False), "rich": r.get("rich", False), "lost": r.get("lost", False), "pages2": r.get("pages2", False), "lost_ack": r.get("lost_ack", False), "variant": r.get("variant", 0), "hist": r["hist"], "clause": cl,
                           "breeze_legacy_both": cl.startswith("breeze mode differs (refresh)") and pname == "LegacyBoth"})


def run(ctx: Ctx) -> int:
    q = ctx.quick
    depth = ctx.pick(6, 8)
    for pname in PROFILES:
        ctx.mc("MC_C16", f"SPECIFICATION Spec\nCONSTANTS\nProf <- {pname}\nMaxDepth = {depth}\nAngles <- MCAngles\nRates <- MCRates\n" + MC_INV +
               "CONSTRAINT Depth\nCHECK_DEADLOCK FALSE\n", name=f"C16_mc_{pname}", timeout=3000, heap="10g")
    runs = []
    ngen = {}
    for pi, (pname, prof) in enumerate(PROFILES.items()):
        hs = gen(ctx, pname, name=f"C16_gen_bfs_{pname}", depth=4, caps_first=True)
        ngen[pname + "_bfs4"] = len(hs)
        hs3 = gen(ctx, pname, name=f"C16_gen_shape_{pname}", depth=5, shape=True)
        ngen[pname + "_caps_x_y_apply_refresh"] = len(hs3)
        cap = ctx.pick(40, 100000)
        if len(hs) > cap:
            hs = ctx.rng.sample(hs, cap)
        hs2 = gen(ctx, pname, name=f"C16_gen_sim_{pname}", depth=ctx.pick(9, 12), simulate=f"num={ctx.pick(60, 1500)}", full=True, seed=ctx.seed + 3 + pi)
        ngen[pname + "_sim"] = len(hs2)
        cap2 = ctx.pick(120, 8000)
        if len(hs2) > cap2:
            hs2 = ctx.rng.sample(hs2, cap2)
        HH = lambda *xs: [{"a": a, "v": v} for a, v in xs]
        for h in (HH(("caps", 0), ("ieco", 1), ("rate", 50), ("apply", 0), ("apply", 0), ("refresh", 0), ("apply", 0)),
                  HH(("caps", 0), ("lr", 25), ("apply", 0), ("ud", 50), ("apply", 0), ("apply", 0), ("refresh", 0)),
                  HH(("ud", 100), ("apply", 0), ("beep", 1), ("apply", 0), ("caps", 0), ("refresh", 0), ("rate", 75), ("apply", 0), ("apply", 0))):
            # the acknowledgement of the first (third, ...) property write is lost
            runs.append({"profile": pname, "five": False, "mid": False, "rich": False, "lost": False, "pages2": False, "lost_ack": True, "hist": h,
                         "events": replay(h, prof, lost_ack=True)})
        for k, h in enumerate(directed(prof) + hs3 + hs + hs2):
            five = (k % 2 == 1)
            mid = (k % 3 == 2)
            rich = (k % 4 == 1)
            lost = (k % 5 == 3) and not mid
            pages2 = (k % 3 == 1)
            lost_ack = (k % 7 == 4) and not mid and not lost and not any(st["a"] in ("away", "mild", "less", "selfclean") for st in h)     # (what the unit makes of a breeze / self-clean write is only known from its acknowledgement)
            runs.append({"profile": pname, "five": five, "mid": mid, "rich": rich, "lost": lost, "pages2": pages2, "lost_ack": lost_ack, "variant": k % 8, "hist": h,
                         "events": replay(h, prof, five_level=five, mid_apply=mid, rich=rich, lost_state=lost, pages2=pages2, lost_ack=lost_ack, variant=k % 8)})
            ctx.count_distinct((pname, five, tuple((s["a"], s["v"]) for s in h)))
    ctx.extra["tlc_generated_histories"] = ngen
    judge(ctx, runs)
    from .. import devops
    devops.growth(ctx)                   # spec growth beyond C16: every public operation as a sequence of exchanges (spec/DevOps.tla); conformance drift only
    r0 = runs[0]
    ctx.sample({"profile": r0["profile"], "history": [(s["a"], s["v"]) for s in r0["hist"]],
                "b0_frames": [bytes(f).hex() for e in r0["events"] for f in e["b0"]][:3], "attrs_after": r0["events"][-1]["attrs"]})
    return ctx.finish(
        rule="capability profiles {breeze control + everything, legacy away+breezeless, legacy away + rate, legacy breezeless + iECO + angle, no "
             "properties, breeze control alongside legacy ids} x {2-level, 5-level rate select} x {plain unit, unit that also has humidity / energy polling} x {prompt unit, unit whose answer to every second state command is lost}; histories over {breeze_away/mild/breezeless/ieco/beep "
             "on/off, every rate select value, every swing angle, apply, refresh, get_capabilities, start_self_clean}: all 4-call histories "
             "starting with get_capabilities (reduced value sets), simulated 9-12-call histories (full enum sets), directed breeze histories; "
             "distinct = (profile, rate variant, history)",
        assumptions=["F7: the model device keeps a single breeze mode; a refresh between a setter and apply overwrites the local value",
                     "F4: the order of properties inside a Get/SetProperties command is free"])


def replay_cmd(ctx, path):
    import json
    c = json.load(open(path))["case"]
    prof = PROFILES[c["profile"]]
    runs = [{"profile": c["profile"], "five": c.get("five", False), "mid": c.get("mid_apply", False), "rich": c.get("rich", False), "lost": c.get("lost", False), "hist": c["hist"],
             "events": replay(c["hist"], prof, five_level=c.get("five", False), mid_apply=c.get("mid_apply", False), rich=c.get("rich", False), lost_state=c.get("lost", False),
                               pages2=c.get("pages2", False), lost_ack=c.get("lost_ack", False), variant=c.get("variant", 0))}]
    judge(ctx, runs, canaries=False)
    return ctx.finish(rule="replay of one recorded history")


replay_history = replay


def replay(ctx_or_hist, path_or_prof=None, **kw):      # noqa: F811 - main.py calls replay(ctx, path); the driver calls replay(hist, prof)
    if isinstance(ctx_or_hist, Ctx):
        return replay_cmd(ctx_or_hist, path_or_prof)
    return replay_history(ctx_or_hist, path_or_prof, **kw)
