"""C18 - discovery: one device per host; bad responders cannot spoil the rest.

(a) TLC explores spec/Discover.tla: every assignment of 1..MaxCopies datagrams per host, each copy well-formed or not, every
    interleaving of the arrivals and every moment of the timeout: OnePerGoodHost, AtMostOne, FirstWins.
(b) the finished runs of the model (Gen_Disc) are replayed on the real Discover.discover(): model host h -> address 10.0.0.h, a
    well-formed copy -> a reply with a fresh identity (V2/V3), a bad copy -> one of the concrete bad-reply classes (random bytes, empty
    datagram, valid envelope with short / truncated / non-text / separator-free / non-hex-type body, undecryptable or misaligned
    ciphertext, V3 wrapper around garbage, XML without device, XML device without port, XML device whose port refuses / accepts).
(c) TLC (Trace_Disc) decides from the BYTES of the deciding datagram of each address whether it is well-formed, derives the expected
    device set, and compares with the returned devices; any exception escaping discover() is a violation.
"""
from __future__ import annotations

import json

from ..common import B, Ctx
from ..tlc import MachineryError, run_tlc
from .. import disc, refcrypto as rc
from .c17 import rand_identity, build, judge, mc

PID = "C18"
BAD_KINDS = ["random", "empty", "short_body", "tiny_body", "nontext_sn", "nontext_name", "no_separator", "nonhex_type", "bad_padding",
             "misaligned", "trunc", "v3_garbage", "xml_plain", "xml_no_port", "xml_port_text", "xml_port_open", "xml_port_refused", "xml_port_answer", "marker_only"]
# not used: a name-length byte that overruns the body - the code reports the device with the name cut short; the property does not say
# whether such a reply counts as malformed, so the check does not generate it


def raw_reply(version, devid, pt_padded: bytes, rng):
    """A reply whose decrypted (still padded) body is exactly pt_padded."""
    ct = rc.ecb_encrypt(rc.ENC_KEY, pt_padded)
    n = 40 + len(ct) + 16
    h = b"\x5a\x5a\x01\x11" + n.to_bytes(2, "little") + b"\x7a\x80" + bytes(12) + devid.to_bytes(6, "little") + bytes(14)
    inner = h + ct
    inner += rc.md5(inner + rc.SIGN_KEY)
    if version == 2:
        return inner
    return b"\x83\x70" + (len(inner) + 16).to_bytes(2, "big") + b"\x20\x0f\x00\x00" + inner + bytes(16)


def bad_reply(kind, rng, ip):
    ver = rng.choice([2, 3])
    ident = rand_identity(rng, typ=0xAC)
    good = build(rng, ident, ip, ver)
    if kind == "random":
        return bytes(rng.randrange(256) for _ in range(rng.choice([1, 7, 40, 104, 300])))
    if kind == "empty":
        return b""
    if kind == "marker_only":
        return rng.choice([b"\x5a\x5a", b"\x83\x70", b"\x5a\x5a" + bytes(30), b"\x83\x70" + bytes(20)])
    if kind == "short_body":
        return disc.disc_reply(ver, ident["devid"], disc.disc_body(ip, 6444, ident["sn"], ident["name"])[:rng.choice([8, 20, 40])], rng=rng)
    if kind == "tiny_body":
        return disc.disc_reply(ver, ident["devid"], bytes(rng.randrange(256) for _ in range(rng.choice([0, 1, 2, 3]))), rng=rng)
    if kind == "nontext_sn":
        sn = bytes([0xFF, 0xFE] + [0x80 + rng.randrange(64) for _ in range(30)])
        return disc.disc_reply(ver, ident["devid"], disc.disc_body(ip, 6444, sn, ident["name"]), rng=rng)
    if kind == "nontext_name":
        return disc.disc_reply(ver, ident["devid"], disc.disc_body(ip, 6444, ident["sn"], b"net_\xff\xfe_\xc3\x28"), rng=rng)
    if kind == "no_separator":
        return disc.disc_reply(ver, ident["devid"], disc.disc_body(ip, 6444, ident["sn"], rng.choice([b"netacF7B4", b"", b"midea"])), rng=rng)
    if kind == "nonhex_type":
        return disc.disc_reply(ver, ident["devid"], disc.disc_body(ip, 6444, ident["sn"], rng.choice([b"net_zz_F7B4", b"net__F7B4", b"net_g1_0000"])), rng=rng)
    if kind == "name_overrun":
        body = disc.disc_body(ip, 6444, ident["sn"], ident["name"])
        body = body[:40] + bytes([200]) + body[41:]                    # name length points past the end of the body
        return disc.disc_reply(ver, ident["devid"], body, rng=rng)
    if kind == "bad_padding":
        pt = disc.disc_body(ip, 6444, ident["sn"], ident["name"])
        pt = (pt + bytes(16))[:64 if len(pt) <= 64 else 80]
        pt = pt[:-1] + bytes([rng.choice([0, 17, 200])])
        return raw_reply(ver, ident["devid"], pt, rng)
    if kind == "misaligned":
        g = bytearray(good if ver == 2 else good[8:-16])
        cut = rng.randrange(1, 16)
        g = bytes(g[:-16 - cut]) + bytes(g[-16:])
        return g if ver == 2 else b"\x83\x70" + (len(g) + 16).to_bytes(2, "big") + b"\x20\x0f\x00\x00" + g + bytes(16)
    if kind == "trunc":
        return good[:rng.randrange(2, len(good) - 1)]
    if kind == "v3_garbage":
        return b"\x83\x70\x00\x40\x20\x0f\x00\x00" + bytes(rng.randrange(256) for _ in range(rng.choice([10, 56, 72, 120])))
    if kind == "xml_plain":
        return rng.choice([b"<a/>", b"<root><body/></root>", b"<?xml version='1.0'?><msg><body><x/></body></msg>"])
    if kind == "xml_no_port":
        return b"<msg><body><device ip='%s'/></body></msg>" % ip.encode()
    if kind == "xml_port_text":
        return b"<msg><body><device port='abc'/></body></msg>"
    if kind in ("xml_port_open", "xml_port_refused", "xml_port_answer"):
        return b"<msg><body><device port='%d'/></body></msg>" % rng.choice([80, 6444])
    raise ValueError(kind)


def scenarios(ctx, hosts, copies, name, cap):
    hs = "{" + ", ".join(str(h) for h in range(1, hosts + 1)) + "}"
    cfg = f"INIT GInit\nNEXT GNext\nCONSTANTS\nHosts = {hs}\nMaxCopies = {copies}\nCONSTRAINT GEmit\nCHECK_DEADLOCK FALSE\n"
    r = run_tlc("Gen_Disc", cfg, name=name, workers=1, timeout=1800, heap="6g")
    ctx.checker_cmds.append(r.cmd)
    seen, out = set(), []
    for pr in r.prints:
        if isinstance(pr, list) and pr and pr[0] == "SCN" and pr[1] not in seen:
            seen.add(pr[1])
            out.append(json.loads(pr[1]))
    if not out:
        raise MachineryError("Gen_Disc produced no scenario")
    total = len(out)
    if len(out) > cap:
        out = ctx.rng.sample(out, cap)
    return out, total


def realise(ctx, scn, kinds_cycle):
    """Model scenario -> concrete datagram plan."""
    rng = ctx.rng
    plan = []
    idents = {}
    clones = {}
    bad_kinds = []
    refuse = False
    for k, a in enumerate(scn["arrivals"]):
        h = a["h"]
        ip = "10.0.0.%d" % h
        if a["good"]:
            if h not in idents:
                idents[h] = (rand_identity(rng, typ=rng.choice([0xAC, 0xAC, rng.randrange(256)])), rng.choice([2, 3]))
            ident, ver = idents[h]
            if h > 1 and (h - 1) in clones and rng.random() < 0.5:
                plan.append((0.1 * (k + 1), ip, rng.choice([6445, 20086]), clones[h - 1]))      # byte-identical to what another address sent (relayed / cloned module)
                continue
            # the address a module writes INTO its reply is whatever it believes (AP-mode default, stale lease ...): several hosts may advertise the
            # same one; the device is reported under the address that answered
            data = build(rng, ident, ip, ver, same_ip=rng.random() < 0.5) if rng.random() < 0.7 else \
                disc.disc_reply(ver, ident["devid"], disc.disc_body("192.168.4.1", ident["port"], ident["sn"], ident["name"]), rng=rng)
            clones.setdefault(h, data)
        else:
            kind = next(kinds_cycle)
            if kind == "xml_port_refused":
                refuse = True
            if kind in ("xml_port_open", "xml_port_answer") and refuse:
                kind = "xml_plain"
            bad_kinds.append(kind)
            data = bad_reply(kind, rng, ip)
        plan.append((0.1 * (k + 1), ip, rng.choice([6445, 20086, rng.randrange(1024, 65535)]), data))
    return plan, bad_kinds, refuse


def run(ctx: Ctx) -> int:
    import itertools
    mc(ctx, 3, 2, "C18_mc_h3_c2")
    if not ctx.quick:
        mc(ctx, 3, 3, "C18_mc_h3_c3")
        mc(ctx, 4, 2, "C18_mc_h4_c2")
    scn, total = scenarios(ctx, 3, 2, "C18_gen_h3_c2", ctx.pick(700, 100000))
    ctx.extra["tlc_generated_runs"] = {"hosts3_copies2": total}
    extra, t2 = scenarios(ctx, 4, 2, "C18_gen_h4_c2", ctx.pick(200, 8000)) if not ctx.quick else ([], 0)
    if t2:
        ctx.extra["tlc_generated_runs"]["hosts4_copies2"] = t2
    order = list(BAD_KINDS)
    ctx.rng.shuffle(order)
    cyc = itertools.cycle(order)
    vectors = []
    for s in scn + extra:
        plan, kinds, refuse = realise(ctx, s, cyc)

        answer = ctx.rng.choice([b"not xml at all <<<", b"<a><b></a>", b"<msg><body><device sn='1'/></body></msg>", b"\xff\xfe\x00binary", b""]) if "xml_port_answer" in kinds else None

        def tcp(loop, net, refuse=refuse, answer=answer):
            if refuse:
                net.connect_mode = "refuse"
            if answer:
                # the V1 responder's TCP port answers the device-info query with something (malformed XML, text, binary, an XML document)
                net.on_bytes = lambda tr, data: loop.call_later(0.01, tr.feed, answer)
        # the listen window and the target (limited broadcast, a directed subnet broadcast, a multicast group) are the caller's choice: several hosts answer each
        tgt = ["255.255.255.255", "10.255.255.255", "255.255.255.255", "192.168.1.255", "224.0.0.251"][len(vectors) % 5]
        v = disc.run_discovery(plan, tcp_devices=tcp, timeout=[5, 1, 2, 0.8][len(vectors) % 4], target=tgt)
        v.pop("devices", None)
        v["bad_kinds"] = kinds
        vectors.append(v)
        ctx.count_distinct((tuple((a["h"], a["good"]) for a in s["arrivals"]), tuple(kinds)))
    # runs in which nobody answers, or only with data that is no reply at all; and the library default auto_connect=True with appliances of other types
    for k in range(ctx.pick(6, 60)):
        junk = [(0.2 * (j + 1), "10.0.9.%d" % (j + 1), 6445, ctx.rng.choice([b"", b"hello", b"M-SEARCH * HTTP/1.1\r\n", bytes(ctx.rng.randrange(1, 256) for _ in range(20))])) for j in range(k % 3)]
        v = disc.run_discovery(junk, timeout=1)
        v.pop("devices", None)
        v["bad_kinds"] = ["no_reply_at_all"] * len(junk)
        vectors.append(v)
    for k in range(ctx.pick(8, 80)):
        rng = ctx.rng
        plan = []
        for j in range(rng.choice([1, 2, 3])):
            ident = rand_identity(rng, typ=rng.choice([0xA1, 0xAC, 0xB8, 0xE2, rng.randrange(256)]), port=6444)
            ip = "10.0.8.%d" % (j + 1)
            plan.append((0.2 * (j + 1), ip, 6445, build(rng, ident, ip, 2)))
        plan.append((0.25, "10.0.8.200", 6445, bad_reply(order[k % len(order)] if order[k % len(order)] not in ("xml_port_open", "xml_port_refused", "xml_port_answer") else "random", rng, "10.0.8.200")))
        plan.sort(key=lambda x: x[0])

        def tcp2(loop, net, k=k):
            if k % 2:
                net.connect_mode = "refuse"
        v = disc.run_discovery(plan, auto_connect=True, tcp_devices=tcp2, timeout=2)
        v.pop("devices", None)
        v["bad_kinds"] = ["auto_connect"]
        vectors.append(v)
    judge(ctx, vectors, "C18")
    kinds_seen = {}
    for v in vectors:
        for k in v["bad_kinds"]:
            kinds_seen[k] = kinds_seen.get(k, 0) + 1
    ctx.extra["bad_reply_classes"] = kinds_seen
    ctx.sample({"arrivals": [{"ip": a["ip"], "port": a["port"], "data": bytes(a["data"]).hex()[:80]} for a in vectors[0]["arrivals"]],
                "bad_kinds": vectors[0]["bad_kinds"], "result_ips": [d["ip"] for d in vectors[0]["result"]]})
    return ctx.finish(
        rule="all finished runs of the Discover model for 3 hosts x 1..2 datagrams (thorough: also 4 hosts), every well-formed / bad assignment per copy, "
             "every interleaving and timeout moment (quick: a sample of them), realised with fresh identities (V2 / V3) and 18 concrete bad-reply "
             "classes; distinct = (arrival pattern, bad classes used)",
        assumptions=["F9: property invariants bind hosts that are consistently good or consistently bad; for mixed hosts the first datagram decides "
                     "(FirstDatagramWins, what the code does)",
                     "whether a reply is well-formed is decided by the spec from its bytes (DiscLayout!WellFormed)"])


def replay(ctx: Ctx, path: str) -> int:
    c = json.load(open(path))["case"]
    plan = [(0.1 * (k + 1), a["ip"], a["port"], bytes.fromhex(a["data"])) for k, a in enumerate(c["arrivals"])]
    refuse = "xml_port_refused" in c.get("bad_kinds", [])

    def tcp(loop, net):
        if refuse:
            net.connect_mode = "refuse"
    v = disc.run_discovery(plan, tcp_devices=tcp)
    v.pop("devices", None)
    for i, clause in ctx.validate_vectors("Trace_Disc", [v]):
        if ctx.pid in clause.split(":")[0]:
            ctx.violation("replayed discovery run", clause, c)
    return ctx.finish(rule="replay of one recorded discovery run")
