"""C14 - application containment: no device response makes an operation raise; decodable frames are still applied.

(a) TLC MC_C14: the decodability thresholds are sufficient - every decoder operator of the spec evaluates on every
    truncation of every response kind that Decodable() admits (TLC would fail on an out-of-range index).
(c) real code: refresh/apply/get_capabilities/toggle_display/start_self_clean answered with truncated / oversized /
    unknown-id / wild-count / garbage frames, alone and mixed with good frames; outcome + attributes judged by TLC.
"""
from __future__ import annotations

from ..common import B, Ctx
from .. import vloop, acdev, landev
from .c11 import observe, NONE
from .c13 import Scripted

OPS = ["refresh", "apply", "get_capabilities", "toggle_display", "start_self_clean"]


def flags_of(d):
    o = observe(d)
    o.pop("indoor10")
    o.pop("outdoor10")
    return o


def valid_bodies(rng):
    st = dict(acdev.DEFAULT_STATE, power=True, t2=rng.randrange(34, 61), mode=rng.randrange(1, 6), fan=rng.choice([40, 60, 80, 102]),
              eco=True, turbo=rng.random() < .5, indoor=111, outdoor=99, hum=61, freeze=True, swing=12)
    caps = bytes([0xB5, 4, 0x14, 0x02, 1, 1, 0x25, 0x02, 7, 34, 60, 34, 60, 34, 60, 1, 0x10, 0x02, 1, 7, 0x7F, 0x7F, 2, 1, 2, 0, 0])
    props = bytes([0xB1, 3, 0x09, 0, 0, 1, 25, 0xE3, 0, 0, 2, 1, 1, 0x42, 0, 0, 1, 2, 9])
    ack = bytes([0xB0, 2, 0x43, 0, 0, 1, 3, 0x1A, 0, 0, 1, 0, 9])
    energy = bytes([0xC1, 0x21, 0x01, 0x44, 0, 0, 0x12, 0x34, 0, 0, 0, 0, 0, 0, 0, 0x56, 0, 7, 0x89, 0])
    hum = bytes([0xC1, 0x21, 0x01, 0x45, 55, 0, 0, 0])
    return {"state": acdev.encode_state(st, 24), "caps": caps, "props": props, "ack": ack, "energy": energy, "humidity": hum}


def good_state(rng):
    st = dict(acdev.DEFAULT_STATE, power=rng.random() < .5, t2=rng.randrange(34, 61), mode=rng.randrange(1, 6), fan=rng.choice([20, 40, 60, 80, 102]),
              eco=rng.random() < .5, sleep=rng.random() < .5, indoor=90, outdoor=80, hum=rng.randrange(30, 90), swing=rng.choice([0, 3, 12, 15]))
    return acdev.resp_frame(3, acdev.encode_state(st, rng.choice([16, 20, 22, 24, 30])), rng.choice(["crc", "sum"]))


def cases(ctx: Ctx):
    rng = ctx.rng
    vb = valid_bodies(rng)
    out = []            # (op, [frames], tag)

    def every_op(frames, tag, ops=OPS):
        for op in ops:
            out.append((op, frames, tag))

    q = ctx.quick
    # 1. truncations of every kind to every shorter length, checks recomputed, both styles; alone and in mixes
    for kind, body in vb.items():
        for n in range(1, len(body) + 1):
            for style in ("crc", "sum"):
                if q and style == "sum" and n % 2:
                    continue
                for ftype in ((3,) if q else (2, 3, 4, 5)):
                    f = acdev.resp_frame(ftype, body[:n], style)
                    ops = OPS if (not q or n % 3 == 0 or n < 6) else [OPS[(n + len(kind)) % 5], "refresh"]
                    every_op([f], f"trunc-{kind}-{n}", ops)
                    out.append((rng.choice(OPS), [f, good_state(rng)], f"trunc-{kind}-{n}+good"))
                    out.append((rng.choice(OPS), [good_state(rng), f], f"good+trunc-{kind}-{n}"))
    # 2. count / size fields 0..255
    vals = range(256) if not q else list(range(0, 12)) + [16, 31, 32, 64, 127, 128, 200, 254, 255]
    for kind, positions in (("caps", [1, 4, 8, 18, 22]), ("props", [1, 5, 10, 16]), ("ack", [1, 5, 10])):
        for pos in positions:
            for v in vals:
                b = bytearray(vb[kind])
                b[pos] = v
                f = acdev.resp_frame(3, bytes(b), "crc")
                ops = OPS if not q else ["refresh", "get_capabilities", "start_self_clean", "apply"]
                every_op([f], f"{kind}[{pos}]={v}", ops)
    # 3. every response id with random bodies, several frame types
    for rid in range(256):
        for _ in range(ctx.pick(2, 12)):
            n = rng.choice([1, 2, 3, 4, 5, 8, 15, 16, 19, 20, 24, 40])
            b = bytes([rid]) + bytes(rng.randrange(256) for _ in range(n - 1))
            f = acdev.resp_frame(rng.choice([2, 3, 3, 4, 5, 6]), b, rng.choice(["crc", "sum"]))
            out.append((rng.choice(OPS), [f], f"id{rid:02x}-len{n}"))
            out.append((rng.choice(OPS), [f, good_state(rng)], f"id{rid:02x}-len{n}+good"))
    # 3b. capabilities id with every frame type (devices send unsolicited 0xB5 with type 5)
    for ftype in range(0, 8):
        every_op([acdev.resp_frame(ftype, vb["caps"], "crc")], f"caps-ftype{ftype}")
        every_op([acdev.resp_frame(ftype, vb["caps"], "crc"), acdev.resp_frame(3, vb["caps"], "crc")], f"caps-ftype{ftype}+caps")
    # 4. empty and tiny frames (raw, and with a correct outer checksum)
    for n in range(0, 14):
        raw = bytes(rng.randrange(256) for _ in range(n))
        every_op([raw], f"raw{n}")
        if n >= 2:
            fixed = raw[:-1] + bytes([acdev.csum(raw[1:-1])])
            every_op([fixed], f"rawsum{n}")
            every_op([fixed, good_state(rng)], f"rawsum{n}+good")
        every_op([bytes(n)], f"zeros{n}")
    # 6. two-page capabilities: the first reply announces additional capabilities, the second exchange is answered with anything
    caps_more = acdev.resp_frame(3, vb["caps"][:-2] + bytes([1, 0]), "crc")
    seconds = [[]]
    for ftype in range(0, 8):
        seconds.append([acdev.resp_frame(ftype, vb["caps"], "crc")])
        seconds.append([acdev.resp_frame(ftype, vb["caps"][:rng.randint(1, len(vb["caps"]))], "sum")])
    for kind, body in vb.items():
        seconds.append([acdev.resp_frame(3, body, "crc")])
        seconds.append([acdev.resp_frame(rng.choice([2, 4, 5]), body[:rng.randint(1, len(body))], "crc")])
    for n in (0, 1, 5, 12, 30):
        seconds.append([bytes(rng.randrange(256) for _ in range(n))])
    seconds.append([good_state(rng), acdev.resp_frame(5, vb["caps"], "crc")])
    for sec in seconds:
        out.append(("caps2", [caps_more] + sec, "caps-more+" + (f"{len(sec)}x{sec[0][9]:02x}/{sec[0][10]:02x}-len{len(sec[0])}" if sec and len(sec[0]) > 10 else "odd")))
    # 7. two-step histories: an operation answered with an odd (but tolerated) frame, then every operation with a normally answering device
    firsts = []
    for n in range(1, 25):
        firsts.append(acdev.resp_frame(3, vb["state"][:n], "crc" if n % 2 else "sum"))
    for kind in ("caps", "props", "ack", "energy", "humidity"):
        for n in sorted({1, 2, 3, len(vb[kind]) // 2, len(vb[kind]) - 1, len(vb[kind])}):
            firsts.append(acdev.resp_frame(3, vb[kind][:n], "crc"))
    for f in firsts:
        for op1 in (("refresh",) if q else ("refresh", "apply", "toggle_display")):
            for op2 in (OPS if not q else [OPS[(len(f) + k) % 5] for k in range(2)] + ["apply"]):
                out.append((f"seq:{op1}>{op2}", [f], f"{op1} answered with {len(f)}-byte {f[10]:02x} frame, then {op2}"))
    # 9. every known property id with every value (quick: boundary values), in a 0xB1 reply and a 0xB0 acknowledgement
    def pf1(pid, val, rid):
        body = bytes([rid, 1, pid & 0xFF, pid >> 8, 0, len(val)]) + bytes(val)
        return acdev.resp_frame(3, body, "crc")
    pvals = range(256) if not q else [0, 1, 2, 3, 4, 5, 6, 24, 25, 26, 49, 50, 51, 99, 100, 101, 127, 128, 254, 255]
    for pid in (0x09, 0x0A, 0x15, 0x18, 0x1A, 0x39, 0x42, 0x43, 0x48, 0x4B, 0xE3, 0x021E, 0x0227):
        for v in pvals:
            val = [v] if pid != 0xE3 else [1, v]
            out.append((["refresh", "apply", "start_self_clean"][(pid + v) % 3], [pf1(pid, val, 0xB1 if v % 2 else 0xB0), good_state(rng)], f"prop{pid:04x}={v}+good"))
    # 10. capability records with every size 0..10 as the LAST record of a response that ends right behind it (and one byte earlier / later)
    for rid, data in ((0x0225, [34, 60, 34, 60, 34, 60, 1, 0, 0, 0]), (0x0214, [1] + [0] * 9), (0x0210, [7] + [0] * 9), (0x0043, [1] + [0] * 9), (0x0216, [3] + [0] * 9)):
        for sz in range(0, 11):
            rec = bytes([rid & 0xFF, rid >> 8, sz]) + bytes(data[:sz])
            for extra in (b"", b"\x00", b"\x00\x00"):
                for cut in (0, 1):
                    body = bytes([0xB5, 2, 0x12, 0x02, 1, 1]) + rec[:len(rec) - cut] + (extra if not cut else b"")
                    f = acdev.resp_frame(3, body, "crc")
                    for op in (("get_capabilities", "refresh") if not q else ("get_capabilities",)):
                        out.append((op, [f, good_state(rng)], f"caps-last-record-{rid:04x}-size{sz}-cut{cut}-tail{len(extra)}+good"))
    # 11. a decodable capabilities response with unusual VALUES first, then the other operations with a normally answering unit
    for rid, vals in ((0x0210, [0, 2, 8, 9, 255]), (0x0214, [0, 4, 5, 6, 7, 8, 10, 255]), (0x0215, [4, 5, 255]), (0x0225, [0, 255]), (0x0216, [0, 1, 255]), (0x021F, [0, 4, 255])):
        for v in vals:
            data = [v] if rid != 0x0225 else [v, v, v, v, v, v, 1]
            f = acdev.resp_frame(3, bytes([0xB5, 1, rid & 0xFF, rid >> 8, len(data)]) + bytes(data) + bytes([0, 0]), "crc")
            for op2 in ("refresh", "apply", "toggle_display", "start_self_clean"):
                out.append((f"seq:get_capabilities>{op2}", [f], f"capabilities {rid:04x}={v}, then {op2}"))
    # 14. a decodable capabilities response next to other frames in the exchange of get_capabilities(): in front of it, behind it, both
    capsud = acdev.resp_frame(3, bytes([0xB5, 2, 0x09, 0x00, 1, 1, 0x14, 0x02, 1, 1, 0, 0]), "crc")
    others = [good_state(rng), acdev.resp_frame(3, vb["energy"], "crc"), acdev.resp_frame(3, vb["props"], "crc"), acdev.resp_frame(5, vb["state"], "sum"),
              acdev.resp_frame(3, vb["state"][:5], "crc"), bytes(7)]
    for o in others:
        out.append(("get_capabilities", [o, capsud], "other+caps"))
        out.append(("get_capabilities", [capsud, o], "caps+other"))
        out.append(("get_capabilities", [o, o, capsud, o], "others+caps+other"))
    out.append(("get_capabilities", [capsud], "caps"))
    # 12. property records with the "execution failed" bit (result byte 0x10 ...) for every id, full and short values
    for pid in (0x09, 0x0A, 0x15, 0x18, 0x1A, 0x39, 0x42, 0x43, 0x48, 0x4B, 0xE3, 0x021E, 0x0227):
        for res in (0x10, 0x11, 0x01, 0xFF):
            for val in ([], [1], [1, 1], [0] * 7):
                body = bytes([0xB1 if len(val) % 2 else 0xB0, 1, pid & 0xFF, pid >> 8, res, len(val)]) + bytes(val)
                out.append((["refresh", "apply", "start_self_clean"][(pid + res + len(val)) % 3], [acdev.resp_frame(3, body, "crc"), good_state(rng)], f"prop{pid:04x}-result{res:02x}-size{len(val)}+good"))
    # 13. multi-command refresh (the unit has humidity / energy / property polling): one command answered well, ANOTHER answered with an undecodable
    #     or empty reply - the state delivered by the first is still applied
    rich = acdev.resp_frame(3, bytes([0xB5, 4, 0x16, 0x02, 1, 3, 0x1F, 0x02, 1, 2, 0x09, 0x00, 1, 1, 0x10, 0x02, 1, 1, 0, 0]), "crc")
    for bad in ([], [acdev.resp_frame(3, vb["humidity"][:3], "crc")], [acdev.resp_frame(3, vb["energy"][:6], "sum")], [bytes(5)], [acdev.resp_frame(3, bytes([0xB1]), "crc")]):
        for where in (1, 2, 3):
            out.append(("richrefresh", [rich, good_state(rng)] + [b"%d" % where] + bad, f"multi-command refresh, command {where + 1} answered with {len(bad)} undecodable frame(s)"))
    # 8. property responses mixed with undecodable / empty / foreign property frames in ONE exchange
    def pf(recs, ftype=3, style="crc", rid=0xB1, count=None):
        body = bytes([rid, len(recs) if count is None else count])
        for pid, val in recs:
            body += bytes([pid & 0xFF, pid >> 8, 0, len(val)]) + bytes(val)
        return acdev.resp_frame(ftype, body, style)
    goods = [pf([(0x09, [25]), (0x0A, [50])]), pf([(0x09, [75])], style="sum"), pf([(0x0A, [100]), (0x09, [1])], rid=0xB0), pf([(0x0A, [0])])]
    g1 = goods[0]
    bads = [acdev.resp_frame(3, bytes([0xB1]), "crc"), acdev.resp_frame(3, bytes([0xB1, 0]), "crc"), acdev.resp_frame(3, bytes([0xB0]), "sum"),
            pf([(0x7777, [1, 2])]), pf([], count=5), pf([(0x15, [40])]), acdev.resp_frame(3, bytes([0xB1, 2, 0x09]), "crc"),
            acdev.resp_frame(3, bytes([0xB1, 1, 0x09, 0, 0, 0]), "crc"), acdev.resp_frame(3, vb["state"][:7], "crc"), bytes(9)]
    for b in bads:
        for op in ("refresh", "apply", "start_self_clean"):
            out.append((op, [g1, b], "good-props+bad"))
            out.append((op, [b, g1], "bad+good-props"))
        out.append(("refresh", [g1, b, goods[1]], "good-props+bad+good-props"))
        out.append(("refresh", [goods[2], b, good_state(rng), b], "good-props+bad+good+bad"))
    for a in goods:
        for b in goods:
            out.append((rng.choice(["refresh", "apply"]), [a, b], "good-props+good-props"))
    for _ in range(ctx.pick(60, 1500)):
        frames = [rng.choice(goods + bads + bads + [good_state(rng)]) for _ in range(rng.randint(2, 5))]
        out.append((rng.choice(["refresh", "apply", "start_self_clean", "toggle_display"]), frames, "props-mix"))
    # 5. mixes
    for _ in range(ctx.pick(300, 6000)):
        k = rng.randint(2, 5)
        frames = []
        for _ in range(k):
            c = rng.random()
            if c < 0.4:
                frames.append(good_state(rng))
            elif c < 0.7:
                kind = rng.choice(list(vb))
                frames.append(acdev.resp_frame(3, vb[kind][:rng.randint(1, len(vb[kind]))], rng.choice(["crc", "sum"])))
            elif c < 0.85:
                g = bytearray(good_state(rng))
                g[rng.randrange(len(g))] ^= 1 << rng.randrange(8)
                frames.append(bytes(g))
            else:
                frames.append(bytes(rng.randrange(256) for _ in range(rng.randint(0, 30))))
        out.append((rng.choice(OPS), frames, "mix"))
    return out


def collect(ctx: Ctx, cs):
    from msmart.device import AirConditioner as AC
    vloop.install_clock()
    loop = vloop.new_loop()
    net = vloop.Net(loop)
    ac = Scripted()
    landev.LanDevice(loop, net, ac, version=2)
    vectors = []
    vb0 = valid_bodies(ctx.rng)
    stage2 = {"state": good_state(ctx.rng), "caps": acdev.resp_frame(3, vb0["caps"], "crc"), "ack": acdev.resp_frame(2, vb0["ack"], "crc")}

    async def go():
        for k, (op, frames, tag) in enumerate(cs):
            d = AC(ip="10.0.0.1", port=6444, device_id=k)
            if op in ("apply",):
                d.power_state = True
                d.target_temperature = 23.5
            before = flags_of(d)
            pbefore = {"ud": int(d.vertical_swing_angle), "lr": int(d.horizontal_swing_angle)}
            ac.replies = [bytes(f) for f in frames]
            ac.script = []
            raised = "none"
            try:
                if op == "richrefresh":
                    # frames = [capabilities, good state, marker(which later command gets the bad answer), bad frames...]
                    where = int(bytes(frames[2]))
                    ac.script = [[bytes(frames[0])]]
                    ac.replies = []
                    await d.get_capabilities()
                    scr = [[bytes(frames[1])], [bytes(frames[1])], [bytes(frames[1])], [bytes(frames[1])]]
                    scr[where] = [bytes(f) for f in frames[3:]]
                    ac.script = scr
                    await d.refresh()
                    ac.script = []
                elif op == "caps2":
                    ac.script = [[bytes(frames[0])], [bytes(f) for f in frames[1:]]]
                    ac.replies = []
                    await d.get_capabilities()
                elif op.startswith("seq:"):
                    first, *rest = op[4:].split(">")
                    await getattr(d, first)()
                    # from now on the appliance answers normally: state report, capabilities and property ack are all on offer
                    ac.replies = [stage2["state"], stage2["caps"], stage2["ack"]]
                    for nxt in rest:
                        await getattr(d, nxt)()
                else:
                    await getattr(d, op)()
            except Exception as e:  # noqa: BLE001
                raised = type(e).__name__
            try:
                fl = flags_of(d)
            except Exception as e:  # noqa: BLE001
                fl = before
                raised = raised if raised != "none" else "attrs:" + type(e).__name__
            try:
                pfl = {"ud": int(d.vertical_swing_angle), "lr": int(d.horizontal_swing_angle)}
            except Exception as e:  # noqa: BLE001
                pfl = pbefore
                raised = raised if raised != "none" else "attrs:" + type(e).__name__
            if op == "richrefresh":
                op, frames = "refresh", [frames[1]] + list(frames[3:])          # judged as: a refresh during which these frames were delivered
            try:
                cfl = {"ud": bool(d.supports_vertical_swing_angle)}
            except Exception:  # noqa: BLE001
                cfl = {"ud": False}
            vectors.append({"op": op, "tag": tag, "frames": [B(f) for f in frames], "raised": raised, "online": bool(d.online),
                            "flags": fl, "before": before, "pflags": pfl, "pbefore": pbefore, "cflags": cfl})
            if d._lan._protocol:
                d._lan._disconnect()

    vloop.run(loop, go())
    return vectors


def judge(ctx, vectors, canaries=True):
    cans = []
    if canaries:
        c = dict(next(v for v in vectors if v["raised"] == "none"), raised="IndexError")
        cans.append(c)
        src = next(v for v in vectors if v["tag"].endswith("+good") and v["op"] == "refresh" and v["raised"] == "none")
        cans.append(dict(src, flags=dict(src["flags"], power=not src["flags"]["power"])))
        sp = next((v for v in vectors if v["tag"] == "good-props+bad" and v["op"] == "refresh" and v["raised"] == "none"), None)
        if sp is not None:
            cans.append(dict(sp, pflags=dict(sp["pflags"], ud=sp["pbefore"]["ud"])))       # the decodable property response was "not applied"
    rej = ctx.validate_vectors("Trace_C14", vectors + cans)
    n = len(vectors)
    if len({i for i, _ in rej if i >= n}) != len(cans):
        from ..tlc import MachineryError
        ctx.defer_machinery("Trace_C14 accepted a canary")
    ctx.extra["canaries_rejected"] = len(cans)
    for i, clause in rej:
        if i < n:
            v = vectors[i]
            ctx.violation(f"{v['op']}() answered with {v['tag']}", clause, v)


def run(ctx: Ctx) -> int:
    ctx.mc("MC_C14", "INIT Init\nNEXT Next\nINVARIANT DecodersTotal\nINVARIANT ShortIsUndecodable\n")
    cs = cases(ctx)
    vectors = collect(ctx, cs)
    for v in vectors:
        ctx.count_distinct((v["op"], tuple(bytes(f) for f in v["frames"])))
    judge(ctx, vectors)
    ctx.sample({"op": vectors[0]["op"], "frames": [bytes(f).hex() for f in vectors[0]["frames"]], "raised": vectors[0]["raised"]})
    ctx.sample({"op": vectors[-1]["op"], "frames": [bytes(f).hex() for f in vectors[-1]["frames"]], "raised": vectors[-1]["raised"]})
    return ctx.finish(
        rule="responses of 6 kinds truncated to every length (checks recomputed, both styles, several frame types), count/size "
             "fields swept over 0..255, every response id with random bodies, 0xB5 with every frame type, empty/tiny/raw frames, "
             "random mixes of good, truncated, bit-flipped and garbage frames; two-page capability queries whose second exchange is answered with "
             "anything; two-step histories (an operation answered with a short/odd frame, then every operation with a normal device); each as the reply to every exchange of "
             "refresh/apply/get_capabilities/toggle_display/start_self_clean on a fresh device; distinct = (operation, frames)")


def replay(ctx: Ctx, path: str) -> int:
    import json
    c = json.load(open(path))["case"]
    vectors = collect(ctx, [(c["op"], [bytes(f) for f in c["frames"]], c.get("tag", "replay"))])
    judge(ctx, vectors, canaries=False)
    return ctx.finish(rule="replay of one recorded exchange")
