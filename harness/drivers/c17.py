"""C17 - discovery reports each replying device with exactly its advertised identity.

(a) TLC: the layout operators of spec/DiscLayout.tla are exercised in-model by MC_Disc (Info o Build = id over every appliance type
    byte, id / port boundary values, both versions) and the run model spec/Discover.tla is checked for the one-device-per-address
    invariants (shared with C18).
(c) real code: Discover.discover() / discover_single() on the simulated UDP network; replies built by an independent builder
    (harness/disc.py, reference AES/MD5 only) for ids at all 48-bit byte boundaries + random, ports {1, 255, 256, 6444, 65535} +
    random, every appliance type byte (lower / upper case hex), reported IP equal to / different from the source address, both
    versions, random serial numbers / suffixes / trailing body bytes.  TLC (Trace_Disc) derives the identity from the reply BYTES and
    compares it with the returned Device objects; it also judges the probe (well-formed V2 discovery request, valid signature, ports
    6445 and 20086, the requested target).
"""
from __future__ import annotations

import copy
import string

from ..common import B, Ctx
from ..tlc import MachineryError
from .. import disc, landev, acdev

PID = "C17"
ALNUM = (string.ascii_uppercase + string.digits).encode()


def rand_identity(rng, *, typ=None, port=None, devid=None, upper=None):
    typ = rng.randrange(256) if typ is None else typ
    t = ("%02x" % typ)
    if upper if upper is not None else rng.random() < 0.3:
        t = t.upper()
    suffix = bytes(rng.choice(ALNUM) for _ in range(rng.choice([4, 4, 4, 1, 8])))
    name = b"net_" + t.encode() + b"_" + suffix
    sn = bytes(rng.choice(ALNUM) for _ in range(32))
    if devid is None:
        devid = rng.choice([0, 1, 255, 256, 2 ** 16 - 1, 2 ** 16, 2 ** 24, 2 ** 32 - 1, 2 ** 32, 2 ** 40, 2 ** 48 - 1] + [rng.getrandbits(48)] * 12)
    if port is None:
        port = rng.choice([1, 255, 256, 6444, 65535, 6444, 6444, rng.randrange(1, 65536)])
    return dict(typ=typ, name=name, sn=sn, devid=devid, port=port)


def build(rng, ident, src_ip, version, *, same_ip=True, tail=None):
    rep_ip = src_ip if same_ip else "192.168.%d.%d" % (rng.randrange(256), rng.randrange(1, 255))
    if tail is None:
        tail = bytes(rng.randrange(256) for _ in range(rng.choice([0, 0, 12, 60])))
    body = disc.disc_body(rep_ip, ident["port"], ident["sn"], ident["name"], tail)
    return disc.disc_reply(version, ident["devid"], body, rng=rng)


def runs(ctx: Ctx):
    rng = ctx.rng
    out = []
    idents = []
    for typ in range(256):
        for up in (False, True):
            idents.append(rand_identity(rng, typ=typ, upper=up))
    for devid in [0, 1, 255, 256, 2 ** 16 - 1, 2 ** 16, 2 ** 24 - 1, 2 ** 24, 2 ** 32 - 1, 2 ** 32, 2 ** 40 - 1, 2 ** 40, 2 ** 48 - 1]:
        idents.append(rand_identity(rng, devid=devid, typ=0xAC))
    for port in [1, 2, 255, 256, 257, 6444, 32767, 32768, 65535]:
        idents.append(rand_identity(rng, port=port, typ=0xAC))
    for _ in range(ctx.pick(300, 30000)):
        idents.append(rand_identity(rng, typ=rng.choice([0xAC, 0xAC, rng.randrange(256)])))
    rng.shuffle(idents)
    k = 0
    seen = []          # (device id, address) pairs that answered earlier discoveries of this process
    while idents:
        n = rng.choice([1, 1, 2, 3, 4])
        group, idents = idents[:n], idents[n:]
        plan = []
        single = (len(group) == 1 and k % 3 == 0)
        for j, ident in enumerate(group):
            ip = ("10.%d.%d.%d" % (rng.randrange(256), rng.randrange(256), rng.randrange(1, 255))) if rng.random() < 0.5 else "10.1.1.%d" % (1 + (k + 5 * j) % 20)
            if seen and rng.random() < 0.2 and not any(p[1] == seen[-1][1] for p in plan):
                # a module seen before (same id, same address) answers again after re-provisioning / a firmware update: other port, name, serial, version
                ident = dict(ident, devid=seen[-1][0])
                ip = seen[-1][1]
            seen.append((ident["devid"], ip))
            seen = seen[-50:]
            ver = rng.choice([2, 3])
            rep = build(rng, ident, ip, ver, same_ip=rng.random() < 0.6)
            for c in range(rng.choice([1, 1, 2])):
                plan.append((rng.random() * 3, ip, rng.choice([6445, 20086, 6445, rng.randrange(1024, 65535)]), rep))
        if not single and k % 3 == 1:
            # an odd replier (another vendor's gadget, a half-broken unit) answers the same probe: the well-formed repliers are reported all the same
            from .c18 import bad_reply, BAD_KINDS
            safe = [x for x in BAD_KINDS if x not in ("xml_port_open", "xml_port_refused", "xml_port_answer")]
            kind = safe[(k // 3) % len(safe)]
            oip = "10.250.%d.%d" % (rng.randrange(256), rng.randrange(1, 255))
            plan.append((rng.random() * 3, oip, 6445, bad_reply(kind, rng, oip)))
        plan.sort(key=lambda x: x[0])
        target = plan[0][1] if single else "255.255.255.255"
        # now and then the probes to ONE of the two ports cannot be sent (local firewall, no route): the devices answering the other probe are found
        fail_port = [None, None, None, 20086, None, 6445][k % 6]
        kw = {}
        if k % 5 == 2:
            # the caller passes own cloud credentials while the cloud is unreachable / rejects them: with auto_connect off nothing needs the cloud
            from .. import cloudsrv
            srv = cloudsrv.ModelCloud("user@example.com", "secret", rng=rng, script=[rng.choice(["timeout", "http", "api"])] * 60)
            kw = dict(cloud_client=srv.client, account="user@example.com", password=rng.choice(["secret", "wrong"]))
        v = disc.run_discovery(plan, target=target, single=single, udp_send_error=(lambda addr, fp=fail_port: addr is not None and addr[1] == fp) if fail_port else None, **kw)
        v.pop("devices", None)
        out.append(v)
        k += 1
        for ident in group:
            ctx.count_distinct((ident["typ"], ident["devid"], ident["port"], ident["name"]))
    return out


def connect_runs(ctx: Ctx):
    """auto_connect=True against a V2 appliance: the reported AC device must be the controllable AirConditioner, refreshed."""
    from msmart.device import AirConditioner
    rng = ctx.rng
    bad = []
    n = 0
    for _ in range(ctx.pick(12, 200)):
        ident = rand_identity(rng, typ=0xAC, port=rng.choice([6444, 6445, 7000]))
        ip = "10.9.%d.%d" % (rng.randrange(256), rng.randrange(1, 255))
        state = dict(power=True, t2=rng.randrange(34, 61), mode=rng.randrange(1, 6))
        holder = {}

        def tcp(loop, net, state=state, ident=ident):
            holder["ac"] = acdev.ACModel(state=state)
            landev.LanDevice(loop, net, holder["ac"], version=2)
        v = disc.run_discovery([(0.5, ip, 6445, build(rng, ident, ip, 2))], auto_connect=True, tcp_devices=tcp)
        n += 1
        devs = v.pop("devices", [])
        ok = (len(devs) == 1 and isinstance(devs[0], AirConditioner) and devs[0].online and devs[0].power_state is True
              and int(round(devs[0].target_temperature * 2)) == state["t2"] and int(devs[0].operational_mode) == state["mode"])
        if not ok:
            bad.append({"ip": ip, "ident": {k: (v.hex() if isinstance(v, bytes) else v) for k, v in ident.items()}, "exc": v["exc"],
                        "returned": [type(d).__name__ for d in devs]})
    return n, bad


def other_type_connect_runs(ctx: Ctx):
    """auto_connect=True (the library default) with appliances of OTHER types among the repliers (a dehumidifier, a water heater ...): they cannot
    be refreshed by this library, but they answered with a well-formed reply and are reported with their identity all the same."""
    rng = ctx.rng
    out = []
    for k in range(ctx.pick(18, 150)):
        idents = [rand_identity(rng, typ=rng.choice([0xA1, 0xCC, 0xE2, 0xFA, 0xB8, rng.randrange(256)]), port=6444)] + \
                 [rand_identity(rng, typ=0xAC, port=6444) for _ in range(1 if k % 3 == 2 else rng.choice([0, 1]))]
        plan = []
        for j, ident in enumerate(idents):
            ip = "10.4.%d.%d" % (k % 250, 1 + j)
            plan.append((rng.choice([0.2, 1.5, 3.0]), ip, 6445, build(rng, ident, ip, 2)))
        plan.sort(key=lambda x: x[0])
        single = len(idents) == 1 and k % 2 == 0
        def unreachable(loop, net):
            net.connect_mode = "refuse"          # the TCP connect fails (refused, no route to host, ...: the OSError family)
        v = disc.run_discovery(plan, target=plan[0][1] if single else "255.255.255.255", single=single, auto_connect=True,
                               tcp_devices=[lambda loop, net: landev.LanDevice(loop, net, acdev.ACModel(), version=2), lambda loop, net: None, unreachable][k % 3])
        v.pop("devices", None)
        out.append(v)
    return out


def slow_connect_runs(ctx: Ctx):
    """auto_connect=True, reply late in the listen window, appliance accepts the TCP connection but never answers: the device must still be
    reported (with its advertised identity), however long the connect/refresh attempt takes."""
    rng = ctx.rng
    out = []
    for k in range(ctx.pick(6, 80)):
        idents = [rand_identity(rng, typ=0xAC, port=6444) for _ in range(rng.choice([1, 2]))]
        plan = []
        for j, ident in enumerate(idents):
            ip = "10.5.%d.%d" % (k % 250, 1 + j)
            plan.append((rng.choice([0.2, 2.5, 4.6, 4.9]), ip, 6445, build(rng, ident, ip, 2)))
        plan.sort(key=lambda x: x[0])
        v = disc.run_discovery(plan, auto_connect=True, tcp_devices=lambda loop, net: None)      # connects succeed, nobody answers
        v.pop("devices", None)
        out.append(v)
    return out


def hostname_runs(ctx: Ctx):
    """discover_single() with a host NAME (or another non-numeric spelling) as the target: the device that answers is the result."""
    rng = ctx.rng
    out = []
    for k, target in enumerate(["ac-bedroom.lan", "midea-ac.home.arpa", "localhost", "AC1", "192.168.7.255", "010.000.000.009"] * ctx.pick(1, 6)):
        ident = rand_identity(rng)
        ip = "10.6.%d.%d" % (k % 250, rng.randrange(1, 255))
        v = disc.run_discovery([(0.3, ip, 6445, build(rng, ident, ip, rng.choice([2, 3])))], target=target, single=True)
        v.pop("devices", None)
        out.append(v)
    return out


def judge(ctx, vectors, prefix):
    import copy as _c
    cans = []
    src = next(v for v in vectors if v["result"])
    c = _c.deepcopy(src); c["result"][0]["port"] = 7 if c["result"][0]["port"] != 7 else 8; cans.append(c)
    c = _c.deepcopy(src); c["result"][0]["id"][0] ^= 1; cans.append(c)
    c = _c.deepcopy(src); c["result"][0]["ip"] = "1.2.3.4"; cans.append(c)
    c = _c.deepcopy(src); c["probes"] = [p for p in c["probes"] if p["port"] != 20086]; cans.append(c)
    c = _c.deepcopy(src); c["result"] = c["result"] + c["result"][:1]; cans.append(c)
    rej = ctx.validate_vectors("Trace_Disc", vectors + cans)
    n = len(vectors)
    if len({i for i, _ in rej if i >= n}) != len(cans):
        ctx.defer_machinery("Trace_Disc accepted a canary")
    ctx.extra["canaries_rejected"] = len(cans)
    other = {}
    for i, clause in rej:
        if i >= n:
            continue
        if clause.startswith("harness"):
            raise MachineryError(f"Trace_Disc: {clause}")
        if prefix in clause.split(":")[0]:
            v = vectors[i]
            ctx.violation(f"discovery run with {len(v['arrivals'])} datagrams from {len({a['ip'] for a in v['arrivals']})} hosts", clause,
                          {"clause": clause, "arrivals": [{"ip": a["ip"], "port": a["port"], "data": bytes(a["data"]).hex()} for a in v["arrivals"]],
                           "result": v["result"], "exc": v["exc"], "target": v["target"], "bad_kinds": v.get("bad_kinds", [])})
        else:
            other[clause] = other.get(clause, 0) + 1
    if other:
        ctx.extra["unjudged_clauses_of_other_properties"] = other


def mc(ctx, hosts, copies, name):
    hs = "{" + ", ".join(str(h) for h in range(1, hosts + 1)) + "}"
    ctx.mc("Discover", f"SPECIFICATION DSpec\nCONSTANTS\nHosts = {hs}\nMaxCopies = {copies}\nINVARIANT OnePerGoodHost\nINVARIANT AtMostOne\nINVARIANT FirstWins\n"
           "CHECK_DEADLOCK FALSE\n", name=name, timeout=3000, heap="10g")


def run(ctx: Ctx) -> int:
    ctx.mc("MC_Disc", "INIT Init\nNEXT Next\nINVARIANT RoundTrip\nCHECK_DEADLOCK FALSE\n", name="C17_mc_layout")
    mc(ctx, 3, 2, "C17_mc_run")
    vs = runs(ctx) + slow_connect_runs(ctx) + hostname_runs(ctx) + other_type_connect_runs(ctx)
    judge(ctx, vs, "C17")
    n, bad = connect_runs(ctx)
    ctx.extra["auto_connect_runs"] = n
    ctx.evaluations += n
    for b in bad:
        ctx.violation("auto_connect discovery of a V2 air conditioner", "C17: the reported device is not a refreshed, controllable AirConditioner", b)
    ctx.sample({"arrivals": [{"ip": a["ip"], "data": bytes(a["data"]).hex()[:120]} for a in vs[0]["arrivals"]], "result": vs[0]["result"]})
    return ctx.finish(
        rule="every appliance type byte (lower and upper case hex), ids at all 48-bit byte boundaries + random, ports {1,2,255,256,257,6444,32767,"
             "32768,65535} + random, reported IP equal to / different from the source, V2 and V3 replies, random serial numbers, suffixes and "
             "trailing body bytes, 1-4 hosts per run, duplicates from ports 6445 / 20086 / other, broadcast and single-host discovery, plus "
             "auto_connect runs against a V2 appliance, appliances of other types with auto_connect, an odd replier (17 malformed-reply classes) among the "
             "well-formed ones; distinct = distinct advertised identities",
        assumptions=["F4: the order of the returned devices is free", "ids are compared as 6-byte little-endian sequences (TLC integers are 32-bit)"])


def replay(ctx: Ctx, path: str) -> int:
    import json
    c = json.load(open(path))["case"]
    plan = [(0.1 * (k + 1), a["ip"], a["port"], bytes.fromhex(a["data"])) for k, a in enumerate(c["arrivals"])]
    v = disc.run_discovery(plan, target=c.get("target", "255.255.255.255"), single=c.get("target", "255.255.255.255") != "255.255.255.255")
    v.pop("devices", None)
    for i, clause in ctx.validate_vectors("Trace_Disc", [v]):
        if ctx.pid in clause.split(":")[0]:
            ctx.violation("replayed discovery run", clause, c)
    return ctx.finish(rule="replay of one recorded discovery run")
