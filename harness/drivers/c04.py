"""C04 - V3 stream reassembly is segmentation-independent.

(a) TLC MC_V3Stream: every stream of a structured family (1..2 packets in quick, up to 4 in thorough; payloads made of marker
    bytes; marker-free garbage incl. a lone 0x83) under EVERY segmentation: Delivered / NoLoss / AllDeliveredAtEnd.
(c) real code: each (stream, cut list) is stepped through a real _LanProtocolV3.data_received; the packets queued after each
    segment are validated by TLC against V3Stream!Segment (Trace_V3Stream, chain traces); plus end-to-end: the device writes
    its reply in segments at distinct virtual instants and LAN.send must return at the instant of the last byte.
"""
from __future__ import annotations

import asyncio
import itertools

from ..common import B, Ctx
from .. import vloop, acdev, landev

ALPHA = [0x00, 0x83, 0x70, 0x20, 0xFF]


def pkt(payload: bytes, typ=3) -> bytes:
    return b"\x83\x70" + len(payload).to_bytes(2, "big") + b"\x20" + bytes([typ]) + b"\x00\x01" + bytes(payload)


def marker_free(g: bytes, nxt: int) -> bool:
    return (bytes(g) + bytes([nxt])).find(b"\x83\x70") < 0


def small_stream(rng, k=None):
    k = k or rng.randint(1, 4)
    parts = []
    for _ in range(k):
        while True:
            g = bytes(rng.choice([0x00, 0x20, 0xFF, 0x70, 0x83, 0x71]) for _ in range(rng.choice([0, 0, 1, 2, 3])))
            if rng.random() < 0.3:
                g += b"\x83"
            if marker_free(g, 0x83):
                break
        p = pkt(bytes(rng.choice(ALPHA) for _ in range(rng.randint(0, 5))))
        parts.append({"g": B(g), "p": B(p)})
    if rng.random() < 0.3:
        parts.append({"g": B(rng.choice([b"\x83", b"\x00\x83", b"\x70"])), "p": []})
    return parts


def real_stream(rng, k=None):
    key = bytes(rng.randrange(256) for _ in range(32))
    parts = []
    for _ in range(k or rng.randint(1, 4)):
        payload = bytes(rng.randrange(256) for _ in range(rng.choice([0, 1, 14, 30, 72, 88, 104, rng.randint(0, 300)])))
        g = b"" if rng.random() < 0.7 else bytes(rng.choice([0, 1, 0x70, 0x83]) for _ in range(rng.randint(1, 4)))
        if not marker_free(g, 0x83):
            g = b""
        parts.append({"g": B(g), "p": B(landev.v3_enc_packet(key, payload, rng.randrange(65536)))})
    return parts


def concat(parts):
    return b"".join(bytes(p["g"]) + bytes(p["p"]) for p in parts)


def run_real(stream: bytes, cuts):
    from msmart.lan import _LanProtocolV3
    p = _LanProtocolV3()
    events = []
    prev = 0
    raised = "none"
    for c in list(cuts) + [len(stream)]:
        if c == prev:
            continue
        try:
            p.data_received(stream[prev:c])
        except Exception as e:  # noqa: BLE001
            raised = type(e).__name__
        out = []
        while not p._queue.empty():
            out.append(B(p._queue.get_nowait()))
        events.append({"n": c - prev, "out": out, "raised": raised})
        prev = c
    return events


def cutsets(ctx, L, rng, exhaustive_upto):
    cs = [()]
    if L <= exhaustive_upto:
        for r in (1, 2, 3):
            cs += list(itertools.combinations(range(1, L), r))
    else:
        for c in range(1, L):
            cs.append((c,))
        for _ in range(ctx.pick(40, 600)):
            cs.append(tuple(sorted(rng.sample(range(1, L), rng.randint(2, 3)))))
    cs.append(tuple(range(1, L)))                    # byte by byte
    for _ in range(ctx.pick(6, 60)):                 # random many cuts
        cs.append(tuple(sorted(rng.sample(range(1, L), rng.randint(1, max(1, L - 1))))) if L > 1 else ())
    return cs


def collect(ctx: Ctx):
    rng = ctx.rng
    traces = []
    # small structured streams: all segmentations with <= 3 cuts
    for _ in range(ctx.pick(14, 120)):
        parts = small_stream(rng)
        s = concat(parts)
        for cuts in cutsets(ctx, len(s), rng, exhaustive_upto=ctx.pick(22, 30)):
            traces.append({"parts": parts, "cuts": list(cuts), "events": run_real(s, cuts)})
    # realistic encrypted packets: cuts exhaustively around every header/size/tag boundary, random elsewhere
    for _ in range(ctx.pick(6, 60)):
        parts = real_stream(rng, rng.randint(1, 3))
        s = concat(parts)
        bounds = []
        off = 0
        for p in parts:
            off += len(p["g"])
            L = len(p["p"])
            bounds += [off + d for d in (0, 1, 2, 3, 4, 5, 6, 7, 8, L - 33, L - 32, L - 31, L - 1, L) if 0 < off + d < len(s)]
            off += L
        bounds = sorted(set(bounds))
        cs = [()] + [(b,) for b in bounds] + [tuple(sorted(c)) for c in itertools.combinations(bounds, 2)][:ctx.pick(120, 2000)]
        for _ in range(ctx.pick(10, 200)):
            cs.append(tuple(sorted(rng.sample(range(1, len(s)), rng.randint(1, 3)))))
        cs.append(tuple(range(1, len(s), rng.choice([1, 1, 2, 5]))))
        for cuts in cs:
            traces.append({"parts": parts, "cuts": list(cuts), "events": run_real(s, cuts)})
    # every value of the low size byte (and a few two-byte sizes): a packet of that size followed by a small one, cut at the usual places
    for size in (list(range(0, 256)) if not ctx.quick else list(range(0, 40)) + rng.sample(range(40, 256), 30)) + [256, 266, 522, 2570, 2815]:
        parts = [{"g": [], "p": B(pkt(bytes(rng.choice([0x0A, 0x0D, 0x00, 0x83, 0x70, 0x20, rng.randrange(256)]) for _ in range(size))))}, {"g": [], "p": B(pkt(b"\x01\x02"))}]
        s = concat(parts)
        L = len(parts[0]["p"])
        for cuts in ((), (1,), (2,), (3,), (4,), (6,), (8,), (L - 1,), (L,), (L + 1,), (3, L), (6, L + 8), tuple(range(1, len(s), 7))):
            cuts = tuple(c for c in cuts if 0 < c < len(s))
            traces.append({"parts": parts, "cuts": list(cuts), "events": run_real(s, cuts)})
    # a packet whose payload ENDS with what looks like a complete packet of its own, cut exactly in front of that inner look-alike (and elsewhere)
    for _ in range(ctx.pick(12, 150)):
        inner = pkt(bytes(rng.randrange(256) for _ in range(rng.choice([0, 1, 5, 20]))), typ=rng.choice([3, 1, 6]))
        outer = pkt(bytes(rng.randrange(256) for _ in range(rng.choice([0, 3, 16, 40]))) + inner)
        parts = [{"g": [], "p": B(outer)}, {"g": [], "p": B(pkt(b"\x09"))}]
        s = concat(parts)
        at = len(outer) - len(inner)
        for cuts in ((at,), (at, len(outer)), (2, at), (at - 1,), (at + 1, len(outer)), (at, len(outer) + 3), ()):
            cuts = tuple(sorted({c for c in cuts if 0 < c < len(s)}))
            traces.append({"parts": parts, "cuts": list(cuts), "events": run_real(s, cuts)})
    return traces


def end_to_end(ctx: Ctx):
    """Device writes its reply in chosen segments at distinct virtual instants; LAN.send must return at the last byte's instant."""
    from msmart.lan import LAN
    vloop.install_clock()
    rng = ctx.rng
    bad = []
    n = 0
    loop = vloop.new_loop()
    net = vloop.Net(loop)
    tok, key = bytes(rng.randrange(256) for _ in range(64)), bytes(rng.randrange(256) for _ in range(32))

    class Echo(acdev.ACModel):
        def handle(self, fr):
            return [bytes(fr)]
    dev = landev.LanDevice(loop, net, Echo(), version=3, token=tok, key=key, seed=ctx.seed)
    plan = {}

    def respond(tr, packets):
        data = plan.get("prefix", b"") + b"".join(packets)
        cuts = plan["cuts"](len(data))
        prev = 0
        # one in-order stream per connection: the answer to a retransmission never overtakes the bytes of the first answer
        base = max(loop.time(), plan.get("busy_until", 0.0))
        t = 0.0
        for k, c in enumerate(list(cuts) + [len(data)]):
            t += 0.01
            if plan.get("gap") is not None and k == plan["gap"] and k > 0:
                t += 2.5                       # the rest of the packet arrives only after the client's 2 s read timeout has fired
            loop.call_at(base + t, tr.feed, data[prev:c])
            prev = c
        plan["busy_until"] = base + t
        if plan.get("t_last_pending", True):
            plan["t_last"] = base + t          # the instant the last byte of the FIRST answer of this exchange arrives
            plan["t_last_pending"] = False
        plan["first_end"] = None
    dev.respond = respond

    async def auth(l):
        plan["cuts"] = lambda L: ()
        plan["prefix"] = b""
        plan["t_last_pending"] = True
        try:
            await l.authenticate(tok, key)
            plan.setdefault("settle", loop.time() - plan["t_last"])      # what authenticate() spends after the last byte of an unsegmented reply
            return True
        except Exception as e:  # noqa: BLE001 - code under test
            bad.append({"frame": "", "exc": "authenticate: " + type(e).__name__, "note": "unsegmented handshake reply"})
            return False

    async def go():
        nonlocal n
        l = LAN("10.0.0.1", 6444, 5)
        if not await auth(l):
            return
        # the handshake reply itself, cut at every point / byte by byte
        for mode in ("bytewise", "one", "one", "one"):
            l2 = LAN("10.0.0.1", 6444, 6)
            plan["prefix"] = b""
            plan["cuts"] = (lambda L: tuple(range(1, L))) if mode == "bytewise" else (lambda L: (rng.randrange(1, L),))
            try:
                await l2.authenticate(tok, key)
            except Exception as e:  # noqa: BLE001
                bad.append({"frame": "", "exc": "authenticate: " + type(e).__name__, "note": f"handshake reply segmented ({mode})"})
            n += 1
            if l2._protocol:
                l2._disconnect()
        # the handshake reply with a pause longer than the client's read timeout inside it: the client asks again meanwhile, the first reply
        # completes (in-order stream) before the second one starts and is accepted the moment its last byte is there
        for cut in (1, 7, 8, 40, 71):
            l3 = LAN("10.0.0.1", 6444, 7)
            plan.update(prefix=b"", cuts=(lambda L, c=cut: (min(c, L - 1),)), gap=1, t_last_pending=True, busy_until=0.0)
            t0 = loop.time()
            try:
                await l3.authenticate(tok, key)
                exc = None
            except Exception as e:  # noqa: BLE001
                exc = type(e).__name__
            t1 = loop.time()
            n += 1
            if exc is not None or abs(t1 - plan["t_last"] - plan["settle"]) > 1e-9:
                bad.append({"frame": "", "exc": exc and "authenticate: " + exc, "note": f"handshake reply cut at {cut} with 2.5 s between the parts",
                            "returned_at": t1 - t0, "last_byte_at": plan["t_last"] - t0})
            plan["gap"] = None
            await asyncio.sleep(6)
            if l3._protocol:
                l3._disconnect()
            plan["busy_until"] = 0.0
        for k in range(ctx.pick(150, 3000)):
            f = bytes(rng.randrange(256) for _ in range(rng.choice([1, 20, 34, 60])))
            if k % 25 == 11:
                f = bytes(rng.randrange(256) for _ in range(rng.choice([4200, 9000])))           # a reply of several KB
            kind = k % 4
            if kind == 0 and len(f) > 1000:
                kind = 1                       # (thousands of one-byte segments would outlast the read timeout: not a reassembly matter)
            if kind == 0:
                plan["cuts"] = lambda L: tuple(range(1, L))
            elif kind == 1:
                plan["cuts"] = lambda L: tuple(sorted(rng.sample(range(1, L), min(L - 1, rng.randint(1, 3)))))
            elif kind == 2:
                plan["cuts"] = lambda L: (rng.choice([1, 2, 5, 6, 7, 8, L - 32, L - 1]),)
            else:
                plan["cuts"] = lambda L: ()
            plan["prefix"] = rng.choice([b"", b"", b"\x00\x70", b"\x83"])
            slow = (k % 10 == 9)               # a gap longer than the read timeout inside the answer: the library retransmits meanwhile
            plan["gap"] = 1 if slow and kind != 3 else None
            plan["t_last_pending"] = True
            t0 = loop.time()
            try:
                r = await l.send(f, retries=3 if plan["gap"] is not None else 1)
                ok = (r == [f])
                exc = None
            except Exception as e:  # noqa: BLE001
                ok, exc, r = False, type(e).__name__, None
            t1 = loop.time()
            t_last = plan["t_last"]
            if plan["gap"] is not None:
                # the answers to the retransmissions are still on their way: start the next exchange on a fresh connection
                plan["gap"] = None
                await asyncio.sleep(6)
                if l._protocol:
                    l._disconnect()
                plan["busy_until"] = 0.0
                if not await auth(l):
                    return
            n += 1
            if not ok or abs(t1 - t_last) > 1e-9:
                bad.append({"frame": f.hex()[:200], "exc": exc, "returned_at": t1 - t0, "last_byte_at": t_last - t0, "prefix": plan["prefix"].hex(),
                            "got": [x.hex() for x in r] if r else None})
                if len(bad) > 40:
                    return
                if l._protocol is None or not l._protocol.authenticated:
                    if not await auth(l):
                        return
    vloop.run(loop, go())
    return n, bad


def multi_stream(ctx: Ctx):
    """Several packets per reply stream, spread over two exchanges: whatever the segmentation, every packet the appliance sent - one right
    behind the handshake reply included - is handed out exactly once and in order by the sends that follow."""
    from msmart.lan import LAN
    vloop.install_clock()
    rng = ctx.rng
    bad = []
    loop = vloop.new_loop()
    net = vloop.Net(loop)
    tok, key = bytes(rng.randrange(256) for _ in range(64)), bytes(rng.randrange(256) for _ in range(32))
    plan = {"frames": [], "cuts": lambda L: (), "hs_extra": None, "step": 0.01}

    class Multi(acdev.ACModel):
        def handle(self, fr):
            return list(plan["frames"])
    dev = landev.LanDevice(loop, net, Multi(), version=3, token=tok, key=key, seed=ctx.seed + 4)

    def reply_filter(kind, tr, packets):
        if kind == "hs" and plan["hs_extra"] is not None:
            ss = dev.sess[tr.cid]
            ss["ctr"] = (ss["ctr"] + 1) & 0xFFFF
            return list(packets) + [landev.v3_enc_packet(ss["key"], landev.v2_wrap(plan["hs_extra"], 5), ss["ctr"])]
        return packets
    dev.reply_filter = reply_filter

    def respond(tr, packets):
        data = b"".join(packets)
        prev, t = 0, loop.time()
        for c in list(plan["cuts"](len(data), [len(x) for x in packets])) + [len(data)]:
            if c <= prev:
                continue
            t += plan["step"]
            loop.call_at(t, tr.feed, data[prev:c])
            prev = c
    dev.respond = respond

    def cutfn(kind):
        def f(L, sizes):
            bounds = list(itertools.accumulate(sizes))[:-1]
            if kind == "none" or L < 2:
                return ()
            if kind == "bytewise":
                return tuple(range(1, L))
            if kind == "boundaries":
                return tuple(bounds)
            if kind == "near":
                return tuple(sorted({min(L - 1, max(1, b + d)) for b in bounds for d in (rng.choice([-1, 0, 1, 2, 6]),)}))
            if kind == "first_then_rest":
                return tuple(bounds[:1])
            return tuple(sorted(rng.sample(range(1, L), min(L - 1, rng.randint(1, 4)))))
        return f
    kinds = ["none", "bytewise", "boundaries", "near", "first_then_rest", "random", "random"]
    n = 0

    async def go():
        nonlocal n
        for k in range(ctx.pick(140, 2500)):
            l = LAN("10.0.0.1", 6444, 5)
            hs_extra = bytes(rng.randrange(256) for _ in range(rng.choice([1, 20, 34]))) if k % 3 == 0 else None
            plan["hs_extra"] = hs_extra
            ck = kinds[k % len(kinds)]
            plan["cuts"] = cutfn(ck if hs_extra is not None else "none")
            plan["step"] = rng.choice([0.01, 0.01, 0.3]) if ck in ("none", "boundaries", "near", "first_then_rest") else 0.001   # the whole stream arrives well within the read timeout
            sent, got, exc = [], [], None
            try:
                await l.authenticate(tok, key)
                if hs_extra is not None:
                    sent.append(hs_extra)
                await asyncio.sleep(rng.choice([0, 1]))
                plan["hs_extra"] = None
                plan["cuts"] = cutfn(ck)
                fs = [bytes(rng.randrange(256) for _ in range(rng.choice([1, 20, 34, 60]))) for _ in range(rng.randint(1, 3))]
                if k % 5 == 1:
                    fs = [fs[0]] + fs                        # the appliance reports the same frame twice (two packets, two counters): both are delivered
                if k % 20 == 7:
                    fs = [bytes(rng.randrange(256) for _ in range(rng.choice([250, 700, 1400]))) for _ in range(rng.choice([4, 8, 20]))]     # several KB in one stream
                if k % 20 == 17:
                    fs = [bytes(rng.randrange(256) for _ in range(rng.choice([4090, 6000, 20000])))]                                     # one packet of several KB
                if sum(len(x) for x in fs) > 1000 and ck == "bytewise":
                    plan["cuts"] = cutfn("random")           # (thousands of one-byte segments would outlast the read timeout: not a reassembly matter)
                if len(fs) > 3:
                    plan["step"] = min(plan["step"], 0.01)   # (... and so would twenty segments 0.3 s apart: the whole stream arrives within the pause before the next exchange)
                plan["frames"] = fs
                sent += fs
                got += list(await l.send(b"\xaa\x01", retries=1))
                await asyncio.sleep(3)                       # whatever was still on its way arrives and is queued
                g = bytes(rng.randrange(256) for _ in range(20))
                plan["frames"] = [g]
                plan["cuts"] = cutfn("none")
                sent.append(g)
                got += list(await l.send(b"\xaa\x02", retries=1))
            except Exception as e:  # noqa: BLE001 - code under test
                exc = type(e).__name__
            n += 1
            if exc is not None or got != sent:
                bad.append({"cuts": ck, "segment_spacing": plan["step"], "packet_behind_handshake_reply": hs_extra is not None, "exc": exc,
                            "sent": [x.hex() for x in sent], "got": [bytes(x).hex() for x in got]})
                if len(bad) > 30:
                    return
            if l._protocol:
                l._disconnect()
    vloop.run(loop, go())
    return n, bad


def judge(ctx, traces, canaries=True):
    cans = []
    if canaries:
        t = next(t for t in traces if len(t["events"]) >= 2 and any(e["out"] for e in t["events"]))
        c = {"parts": t["parts"], "events": [dict(e) for e in t["events"]]}
        k = next(i for i, e in enumerate(c["events"]) if e["out"])
        c["events"][k]["out"] = []                                   # packet delivered late / never
        cans.append(c)
        c = {"parts": t["parts"], "events": [dict(e) for e in t["events"]]}
        c["events"][k]["out"] = [c["events"][k]["out"][0][:-1]]      # truncated packet
        cans.append(c)
    for t in traces:
        for e in t["events"]:
            if e["raised"] != "none":
                ctx.violation("data_received raised", e["raised"], {"parts": t["parts"], "cuts": t.get("cuts")})
    bad = ctx.validate_chains("Trace_V3Stream", [{"parts": t["parts"], "events": t["events"]} for t in traces] + cans)
    n = len(traces)
    if len([i for i in bad if i >= n]) != len(cans):
        from ..tlc import MachineryError
        ctx.defer_machinery("Trace_V3Stream accepted a canary")
    ctx.extra["canaries_rejected"] = len(cans)
    for i, clause in bad.items():
        if i < n:
            ctx.violation("segmentation " + str(traces[i].get("cuts"))[:80], clause, {"parts": traces[i]["parts"], "cuts": traces[i].get("cuts")})


def run(ctx: Ctx) -> int:
    cfg = ("INIT MCInit\nNEXT Next\nINVARIANT Delivered\nINVARIANT NoLoss\nINVARIANT AllDeliveredAtEnd\nCHECK_DEADLOCK FALSE\n"
           "CONSTANT MaxPackets = %d\nCONSTANT Rich = %s\n")
    ctx.mc("MC_V3Stream", cfg % (2, "TRUE"), name="C04_mc_rich2")
    if not ctx.quick:
        ctx.mc("MC_V3Stream", cfg % (4, "FALSE"), name="C04_mc_plain4", timeout=3000, heap="8g")
    traces = collect(ctx)
    for t in traces:
        ctx.count_distinct((concat(t["parts"]), tuple(t["cuts"])))
    judge(ctx, traces)
    n, bad = end_to_end(ctx)
    ctx.extra["end_to_end_exchanges"] = n
    for b in bad:
        ctx.violation("end-to-end: reply written in segments", "LAN.send did not return exactly the frame at the instant of the last byte", b)
    ctx.evaluations += n
    n2, bad2 = multi_stream(ctx)
    ctx.extra["multi_packet_streams_over_two_exchanges"] = n2
    for b in bad2:
        ctx.violation(f"multi-packet stream cut {b['cuts']}" + (" with a packet right behind the handshake reply" if b["packet_behind_handshake_reply"] else ""),
                      "the frames handed out by the sends that follow are not the packets the appliance sent, each exactly once and in order", b)
    ctx.evaluations += n2
    t = traces[len(traces) // 2]
    ctx.sample({"stream": concat(t["parts"]).hex()[:200], "cuts": t["cuts"][:20], "packets": sum(1 for p in t["parts"] if p["p"])})
    return ctx.finish(
        rule="streams of 1..4 packets (size fields 0..5, payload bytes from {00,83,70,20,FF}; realistic encrypted packets of payload "
             "0..300), marker-free garbage incl. a lone 0x83 before/between/after; all segmentations with <= 3 cuts for short streams, "
             "cuts around every header/size/tag boundary for long ones, byte-by-byte, seeded random multi-cut; distinct = (stream, cuts); "
             "every segment's queue output validated by TLC against V3Stream!Segment with Delivered/NoLoss in every state")


def replay(ctx: Ctx, path: str) -> int:
    import json
    c = json.load(open(path))["case"]
    s = concat(c["parts"])
    traces = [{"parts": c["parts"], "cuts": c["cuts"], "events": run_real(s, c["cuts"])}]
    judge(ctx, traces, canaries=False)
    return ctx.finish(rule="replay of one recorded (stream, cuts)")
