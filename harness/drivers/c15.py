"""C15 - capability records are interpreted independently and survive paging.

(a) TLC MC_C15: byte-level walk = merge of per-record interpretations; split invariance; flag read-back (lists <= 3).
(c) real code: lists of <= 12 records parsed by CapabilitiesResponse (whole + one record at a time) and fetched by
    get_capabilities() in one response and split at every point; TLC (Trace_C15) decides merge-of-singles and split invariance.
"""
from __future__ import annotations

from ..common import B, Ctx
from .. import vloop, acdev, landev

KNOWN = [0x0009, 0x000A, 0x0018, 0x0030, 0x0032, 0x0033, 0x0039, 0x0040, 0x0042, 0x0043, 0x0048, 0x004B, 0x0051, 0x0058,
         0x0059, 0x0067, 0x00E3, 0x0091, 0x0093, 0x0094, 0x0098, 0x0210, 0x0212, 0x0213, 0x0214, 0x0215, 0x0216, 0x0217,
         0x0219, 0x021A, 0x0221, 0x021E, 0x021F, 0x0222, 0x0224, 0x0225, 0x022C, 0x0230, 0x0231, 0x0232, 0x0233, 0x0234]
TEMP = 0x0225


def rec_bytes(r):
    return r["id"].to_bytes(2, "little") + bytes([len(r["data"])]) + bytes(r["data"])


def caps_body(recs, more):
    return bytes([0xB5, len(recs)]) + b"".join(rec_bytes(r) for r in recs) + bytes([1 if more else 0, 0])


def rand_rec(rng):
    c = rng.random()
    if c < 0.55:
        rid = rng.choice(KNOWN)
    elif c < 0.7:
        rid = TEMP
    elif c < 0.85:
        rid = rng.choice([0x0000, 0x0001, 0x0041, 0x0100, 0x0226, 0x7FFF, 0xFFFF, rng.randrange(65536)])
    else:
        rid = rng.choice([0x0214, 0x0212, 0x0210, 0x0215, 0x021F, 0x0048, 0x0043])
    sz = rng.choice([0, 1, 1, 1, 1, 2, 3, 4, 5, 6, 7, 8, 9, 10])
    if rid == TEMP:
        sz = rng.choice([0, 1, 2, 3, 4, 5, 6, 6, 7, 7, 8, 10])
    data = [rng.choice([0, 1, 2, 3, 4, 5, 6, 7, 9, 10, 13, 100, rng.randrange(256)])] + [rng.randrange(256) for _ in range(sz)]
    return {"id": rid, "data": data[:sz]}


def lists(ctx: Ctx):
    rng = ctx.rng
    out = []
    # every known id with every value 0..255 as a singleton next to a fixed neighbour on each side
    vals = range(256) if not ctx.quick else list(range(0, 16)) + [100, 255] + [rng.randrange(256) for _ in range(4)]
    nb = {"id": 0x0212, "data": [1]}
    for rid in KNOWN:
        for v in vals:
            r = {"id": rid, "data": [v] if rid != TEMP else [v, 60, 34, 60, 34, 60, v % 2]}
            out.append([nb, r, {"id": 0x0214, "data": [1]}])
    # every size 1..10 (and 0) for every known id, followed by records whose loss would show
    for rid in KNOWN + [0x7777, 0x0000, 0xFFFF, 0x0100]:
        for sz in range(0, 11):
            r = {"id": rid, "data": [1] + [rng.randrange(256) for _ in range(sz)]}
            r["data"] = r["data"][:sz]
            out.append([r, {"id": 0x0212, "data": [1]}, {"id": 0x0214, "data": [rng.choice([0, 1, 2, 9])]}])
            out.append([{"id": 0x021A, "data": [1]}, r, {"id": 0x0215, "data": [rng.randrange(4)]}, r])
    # duplicates with different values (merge order)
    for rid in (0x0214, 0x0212, 0x0210, TEMP, 0x0043, 0x0048):
        for _ in range(ctx.pick(6, 60)):
            a = {"id": rid, "data": [rng.randrange(16)] + ([rng.randrange(256) for _ in range(6)] if rid == TEMP else [])}
            b = {"id": rid, "data": [rng.randrange(16)] + ([rng.randrange(256) for _ in range(6)] if rid == TEMP else [])}
            mid = [rand_rec(rng) for _ in range(rng.randrange(3))]
            out.append([a] + mid + [b])
    # interacting derivations: every ordered pair of the property-style capabilities, and every value combination / order of the three breeze records
    import itertools
    PROPS = [0x0009, 0x000A, 0x0018, 0x0039, 0x0042, 0x0043, 0x0048, 0x00E3]
    for a, b in itertools.permutations(PROPS, 2):
        out.append([{"id": a, "data": [1]}, {"id": b, "data": [1]}])
    for vals3 in itertools.product([0, 1], repeat=3):
        for order in itertools.permutations(range(3)):
            recs = [{"id": (0x0042, 0x0018, 0x0043)[j], "data": [vals3[j]]} for j in order]
            out.append(recs)
    # records that feed ONE derived attribute together (modes / aux heat, fan speeds, swing, humidity): every pair of them over the values that matter
    GROUP = [0x0214, 0x0219, 0x0234, 0x0210, 0x0215, 0x021F, 0x0216, 0x0222, 0x0212, 0x0218]
    GV = [0, 1, 2, 3, 4, 5, 6, 7, 9, 10, 12, 13]
    for a, b in itertools.permutations(GROUP, 2):
        pairs = list(itertools.product(GV, GV))
        for va, vb in (pairs if not ctx.quick else rng.sample(pairs, 10) + [(9, 0), (0, 9), (9, 2), (1, 0), (0, 1), (7, 0), (0, 7)]):
            out.append([{"id": a, "data": [va]}, {"id": b, "data": [vb]}])
    # temperature records with limits at 0 and other boundary bytes, alone and next to another temperature record
    for lims in ([0, 60, 34, 60, 34, 60], [34, 0, 34, 0, 34, 0], [0, 0, 0, 0, 0, 0], [34, 60, 0, 60, 34, 60], [34, 60, 34, 60, 0, 1], [1, 255, 1, 255, 1, 255], [255, 1, 255, 1, 255, 1]):
        out.append([{"id": TEMP, "data": lims + [1]}])
        out.append([{"id": 0x0212, "data": [1]}, {"id": TEMP, "data": lims}, {"id": 0x0214, "data": [1]}])
        out.append([{"id": TEMP, "data": [34, 60, 34, 60, 34, 60, 0]}, {"id": TEMP, "data": lims + [0]}])
    # several empty records (3 bytes each) next to one-byte records only: the announced count is larger than a "4 bytes per record" estimate
    for n in range(1, 9):
        emp = [{"id": rng.choice([0x0212, 0x0001, 0x7777, 0x0214]), "data": []} for _ in range(n)]
        out.append(emp + [{"id": 0x0214, "data": [1]}, {"id": 0x0212, "data": [1]}])
        out.append([{"id": 0x0214, "data": [1]}] + emp + [{"id": 0x0212, "data": [1]}])
        out.append([{"id": 0x0218, "data": [1]}, {"id": 0x0212, "data": [1]}] + emp + [{"id": 0x0215, "data": [0]}])
        out.append(emp + [{"id": 0x0212, "data": [1]}])
    # first page decodes to nothing
    out.append([{"id": 0x7777, "data": [1]}, {"id": 0x004B, "data": [1]}, {"id": 0x0001, "data": []}, {"id": 0x0214, "data": [1]},
                {"id": 0x0212, "data": [1]}])
    # random lists up to 12
    for _ in range(ctx.pick(700, 30000)):
        out.append([rand_rec(rng) for _ in range(rng.randint(0, 12))])
    return out


def raw_json(d):
    out = {}
    for k, v in d.items():
        if isinstance(v, bool):
            out[k] = v
        elif isinstance(v, float):
            out[k] = int(round(v * 2))
        else:
            out[k] = int(v)
    return out


def attrs_of(d):
    a = {
        "op_modes": sorted(int(x) for x in d.supported_operation_modes),
        "swing_modes": sorted(int(x) for x in d.supported_swing_modes),
        "fan_speeds": sorted(int(x) for x in d.supported_fan_speeds),
        "custom_fan": bool(d.supports_custom_fan_speed), "eco": bool(d.supports_eco), "turbo": bool(d.supports_turbo),
        "freeze": bool(d.supports_freeze_protection), "display": bool(d.supports_display_control),
        "filter": bool(d.supports_filter_reminder), "purifier": bool(d.supports_purifier),
        "aux_modes": sorted(int(x) for x in d.supported_aux_modes),
        "min_t2": int(round(d.min_target_temperature * 2)), "max_t2": int(round(d.max_target_temperature * 2)),
        "energy": bool(d.enable_energy_usage_requests), "humidity": bool(d.supports_humidity),
        "target_humidity": bool(d.supports_target_humidity),
        "v_angle": bool(d.supports_vertical_swing_angle), "h_angle": bool(d.supports_horizontal_swing_angle),
        "self_clean": bool(d.supports_self_clean), "breeze_away": bool(d.supports_breeze_away),
        "breeze_mild": bool(d.supports_breeze_mild), "breezeless": bool(d.supports_breezeless), "ieco": bool(d.supports_ieco),
        "rates": sorted(int(x) for x in d.supported_rate_selects),
    }
    return a


def collect(ctx: Ctx, ls):
    from msmart.device import AirConditioner as AC
    from msmart.device.AC.command import Response
    vloop.install_clock()
    loop = vloop.new_loop()
    net = vloop.Net(loop)
    ac = acdev.ACModel()
    landev.LanDevice(loop, net, ac, version=2)
    single_cache = {}
    vectors = []

    def parse(recs):
        f = acdev.resp_frame(3, caps_body(recs, False), "crc")
        try:
            r = Response.construct(f)
            return raw_json(dict(r.raw_capabilities)), "none"
        except Exception as e:  # noqa: BLE001
            return {}, type(e).__name__

    async def fetch(pages):
        ac.caps_pages = pages
        d = AC(ip="10.0.0.1", port=6444, device_id=1)
        try:
            await d.get_capabilities()
            r = (attrs_of(d), "none")
        except Exception as e:  # noqa: BLE001
            r = ({}, type(e).__name__)
        if d._lan._protocol:
            d._lan._disconnect()
        return r

    shared = AC(ip="10.0.0.1", port=6444, device_id=2)        # ONE object that queries list after list (each time "another unit behind the same address")

    async def fetch_shared(pages, lossy=None):
        if lossy is not None:                        # first a query whose second page goes unanswered (logged as a warning), then the query proper
            ac.caps_pages = lossy
            ac.lose_second_page = True
            try:
                await shared.get_capabilities()
            except Exception:  # noqa: BLE001
                pass
            ac.lose_second_page = False
        ac.caps_pages = pages
        try:
            await shared.get_capabilities()
            r = attrs_of(shared)
        except Exception:  # noqa: BLE001
            r = {}
        if shared._lan._protocol:
            shared._lan._disconnect()
        return r

    async def fetch_after_state(pages, swing):
        """A fresh object that polled the unit's state (louvers swinging) before it asks for the capabilities."""
        ac.caps_pages = pages
        ac.state["swing"] = swing
        d = AC(ip="10.0.0.1", port=6444, device_id=3)
        try:
            await d.refresh()
            await d.get_capabilities()
            r = attrs_of(d)
        except Exception:  # noqa: BLE001
            r = {}
        ac.state["swing"] = 0
        if d._lan._protocol:
            d._lan._disconnect()
        return r

    async def go():
        for k, recs in enumerate(ls):
            whole, raised = parse(recs)
            singles = []
            for r in recs:
                key = (r["id"], tuple(r["data"]))
                if key not in single_cache:
                    single_cache[key] = parse([r])
                s, e = single_cache[key]
                if e != "none" and raised == "none":
                    raised = e
                singles.append(s)
            aw, e = await fetch([caps_body(recs, False)])
            if e != "none" and raised == "none":
                raised = e
            splits = []
            pts = range(len(recs) + 1) if (len(recs) <= 6 or not ctx.quick) else sorted({0, 1, len(recs) // 2, len(recs) - 1, len(recs)})
            for at in pts:
                a, e = await fetch([caps_body(recs[:at], True), caps_body(recs[at:], False)])
                splits.append({"at": at, "attrs": a, "raised": e})
            if k % 4 == 1 and len(recs) >= 2:
                at = len(recs) // 2
                two = [caps_body(recs[:at], True), caps_body(recs[at:], False)]
                ar = await fetch_shared(two, lossy=two)
            else:
                ar = await fetch_shared([caps_body(recs, False)])
            ast_ = await fetch_after_state([caps_body(recs, False)], [0xC, 0xF, 0x3][k % 3]) if k % 4 == 2 else None
            vectors.append({"attrsAfterState": ast_ if ast_ and aw else aw,"recs": recs, "body": B(caps_body(recs, False)), "whole": whole, "singles": singles,
                            "attrsWhole": aw, "attrsReuse": ar if ar and aw else aw, "splits": splits, "raised": raised})

    vloop.run(loop, go())
    return vectors


def judge(ctx, vectors, canaries=True):
    cans = []
    if canaries:
        src = next(v for v in vectors if len(v["recs"]) >= 3 and v["whole"] and len(v["splits"]) > 1)
        c = dict(src)
        w = dict(c["whole"])
        k0 = sorted(w)[0]
        w[k0] = (not w[k0]) if isinstance(w[k0], bool) else w[k0] + 1
        c["whole"] = w
        cans.append(c)
        c = dict(src)
        sp = [dict(s) for s in c["splits"]]
        sp[1] = dict(sp[1], attrs=dict(sp[1]["attrs"], eco=not sp[1]["attrs"]["eco"]))
        c["splits"] = sp
        cans.append(c)
    rej = ctx.validate_vectors("Trace_C15", vectors + cans, shards=8)
    n = len(vectors)
    if len({i for i, _ in rej if i >= n}) != len(cans):
        from ..tlc import MachineryError
        ctx.defer_machinery("Trace_C15 accepted a canary")
    ctx.extra["canaries_rejected"] = len(cans)
    for i, clause in rej:
        if i < n:
            ctx.violation("capability record list", clause, {"recs": vectors[i]["recs"], "whole": vectors[i]["whole"],
                                                             "singles": vectors[i]["singles"], "raised": vectors[i]["raised"]})


def run(ctx: Ctx) -> int:
    ctx.mc("MC_C15", "INIT Init\nNEXT Next\nINVARIANT WalkOK\nINVARIANT ParseIsMergeOfSingles\nINVARIANT FlagOK\n"
                     "INVARIANT SplitInvariant\nINVARIANT SinglesIndependent\n")
    ls = lists(ctx)
    vectors = collect(ctx, ls)
    for v in vectors:
        ctx.count_distinct(bytes(v["body"]))
    judge(ctx, vectors)
    ctx.extra["split_deliveries"] = sum(len(v["splits"]) for v in vectors)
    ctx.sample({"recs": vectors[0]["recs"], "whole": vectors[0]["whole"]})
    ctx.sample({"recs": vectors[-1]["recs"], "whole": vectors[-1]["whole"], "splits": len(vectors[-1]["splits"])})
    return ctx.finish(
        rule="record lists: every known capability id x value sweep between neighbours, every known id x sizes 0..10 followed by "
             "records whose loss would show, duplicates with different values, first-page-decodes-to-nothing, seeded random lists of "
             "0..12 records (unknown ids, zero-size, undersized temperature); each parsed whole and record-by-record by the real "
             "CapabilitiesResponse and fetched by get_capabilities() unsplit and split at every point; distinct = distinct bodies")


def replay(ctx: Ctx, path: str) -> int:
    import json
    case = json.load(open(path))["case"]
    vectors = collect(ctx, [case["recs"]])
    judge(ctx, vectors, canaries=False)
    return ctx.finish(rule="replay of one recorded record list")
