"""C20 - `msmart-ng control` applies the documented meaning of each setting=value pair.

(a) TLC checks spec/Cli.tla in-model (MC_Cli): for every setting of the catalogue and every documented spelling class the conversion
    is defined and lands in the setting's domain; rejected spellings are rejected for every setting; overriding is field-local
    (unspecified fields keep the reported value) and the last duplicate wins.
(c) real code: msmart.cli.main() is run in-process with crafted argv on the simulated network (V2, and V3 with --token/--key/--id);
    the exit status, everything written to any transport, the 0x40 / 0xB0 / display-toggle frames the appliance received and the
    appliance state before / after are judged by TLC (Trace_Cli) which parses the command-line tokens itself.
"""
from __future__ import annotations

import asyncio
import itertools
import sys

from ..common import B, Ctx
from ..tlc import MachineryError
from .. import vloop, acdev, landev
from .c10 import rand_state
from ..tools_cli import SETTINGS, ENUMS          # the documented table (same source as spec/CliCatalogue.tla)

PID = "C20"
TOK, KEY = bytes(range(64)), bytes(range(32, 64))
BOOL_OK = ["True", "true", "TRUE", "tRuE", "False", "false", "FALSE", "fAlSe", "1", "0"]
GARBAGE = {"enum": ["bogus", "co ol", "cool!", "", "1x", "-", "None", "7.5", "999", "1.2.3", "2.5", "12.9", "0.5", "1.5", "25.5", "50.7", "100.9", "3.999"],
           "enumraw": ["bogus", "hi gh", "", "1x", "None", "4.5.6"],
           "bool": ["yes", "no", "on", "off", "tru", "", "maybe", "1x", "None", "t"],
           "int": ["abc", "", "4x", "forty", "None", "1.2.3"],
           "float": ["abc", "", "20,5", "warm", "None", "2x", "1.2.3"]}
BAD_NAMES = ["foo", "indoor_temperature", "outdoor_temperature", "online", "supported", "supports_eco", "supported_fan_speeds", "refresh", "apply",
             "to_dict", "get_capabilities", "_eco", "_power_state", "__init__", "id", "ip", "token", "key", "filter_alert", "Eco", "POWER_STATE", "", "self_clean_active",
             "min_target_temperature", "total_energy_usage", "name", "type"]
STATE_FIELDS = ("power", "t2", "mode", "fan", "swing", "follow", "turbo", "eco", "purifier", "aux", "sleep", "fahr", "hum", "freeze", "display")


def cases_of(kind):
    return {"enum": "enum", "enumraw": "enumraw", "propenum": "enum", "bool": "bool", "propbool": "bool", "display": "bool", "local": "bool",
            "int": "int", "float": "float"}[kind]


def mixcase(s, rng):
    return "".join(c.upper() if rng.random() < 0.5 else c.lower() for c in s)


def valid_tokens(name, kind, enum, rng, full):
    c = cases_of(kind)
    if c in ("enum", "enumraw"):
        out = []
        for m, v in ENUMS[enum]:
            out += [m.lower(), m.upper(), mixcase(m, rng), str(v)]
        if c == "enumraw":
            out += ["1", "45", "99", "101", "7"]
        return out
    if c == "bool":
        return list(BOOL_OK)
    if c == "int":
        return ["0", "1", "40", "45", "99", "100", "45.0", "45.7", "35.5"]
    return ["13", "16", "16.5", "17", "17.0", "20.5", "25", "30", "30.5", "31.0", "43.5", "21.50"] + ([("%d.5" % t) for t in range(13, 43)] if full else [])


def run_cli(argv, model: acdev.ACModel, ver, setup_extra=None):
    """Run msmart.cli.main() with argv against `model` (its state persists); returns observation dict."""
    import msmart.cli as cli
    vloop.install_clock()
    nets = []

    def setup(loop):
        net = vloop.Net(loop)
        landev.LanDevice(loop, net, model, version=ver, token=TOK, key=KEY)
        nets.append(net)
        if setup_extra:
            setup_extra(loop, net)
    pol = vloop.VPolicy(setup)
    old_policy = asyncio.get_event_loop_policy()
    old_argv = sys.argv
    n0 = len(model.rx_frames)
    code, exc = 0, ""
    asyncio.set_event_loop_policy(pol)
    sys.argv = ["msmart-ng"] + argv
    try:
        try:
            cli.main()
        except SystemExit as e:
            code = e.code if isinstance(e.code, int) else (0 if e.code is None else 1)
        except BaseException as e:  # noqa: BLE001 - an uncaught exception ends the process with status 1
            code, exc = 1, type(e).__name__
    finally:
        sys.argv = old_argv
        asyncio.set_event_loop_policy(old_policy)
        for l in pol.loops:
            try:
                l.close()
            except Exception:  # noqa: BLE001
                pass
    sent = sum(1 for net in nets for e in net.events if e[0] in ("tx", "connreq"))
    frames = model.rx_frames[n0:]
    f40, b0, toggles = [], [], 0
    for f in frames:
        c = acdev.parse_command(f)
        if not c["ok"]:
            continue
        b = c["body"]
        if c["ftype"] == 2 and b[0] == 0x40:
            f40.append(B(f))
        elif c["ftype"] == 2 and b[0] == 0xB0:
            b0.append(B(f))
        elif c["ftype"] == 3 and b[0] == 0x41 and b[1] & 0x02 and len(b) > 6 and b[4] == 0x02 and b[6] == 0x02:
            toggles += 1
    return {"exit": int(code), "exc": exc, "sent": sent, "frames40": f40, "b0": b0, "toggles": toggles}


def snap(model):
    s = model.state
    return {k: (int(s[k]) if k in ("t2", "mode", "fan", "swing", "aux", "hum") else bool(s[k])) for k in STATE_FIELDS}


def invocations(ctx: Ctx):
    rng = ctx.rng
    full = not ctx.quick
    out = []          # lists of "name=value" strings
    names = {n: (k, f, e) for n, k, f, e in SETTINGS}
    for n, (k, f, e) in names.items():
        for t in valid_tokens(n, k, e, rng, full):
            out.append([f"{n}={t}"])
        for g in GARBAGE[cases_of(k)]:
            out.append([f"{n}={g}"])
        out.append([n])                               # missing "="
        out.append([f"{n}={valid_tokens(n, k, e, rng, False)[0]}=x"])
    for bn in BAD_NAMES:
        out.append([f"{bn}=1"])
        out.append([f"{bn}=True", "eco=1"])
        out.append(["power_state=1", f"{bn}=cool"])
    breeze = {"breeze_away", "breeze_mild", "breezeless"}
    def tok(n):
        k, f, e = names[n]
        return rng.choice(valid_tokens(n, k, e, rng, False))
    for a, b in itertools.combinations(names, 2):
        if a in breeze and b in breeze:
            continue
        out.append([f"{a}={tok(a)}", f"{b}={tok(b)}"])
        if rng.random() < (0.15 if ctx.quick else 1.0):
            out.append([f"{b}={tok(b)}", f"{a}={tok(a)}"])
    for _ in range(ctx.pick(150, 6000)):
        k = rng.randint(1, 5)
        chosen = rng.sample(sorted(names), k)
        if len(breeze & set(chosen)) > 1:
            chosen = [c for c in chosen if c not in breeze]
        args = [f"{n}={tok(n)}" for n in chosen] or ["eco=1"]
        if rng.random() < 0.15:
            n = rng.choice(sorted(names))
            args.insert(rng.randrange(len(args) + 1), f"{n}={rng.choice(GARBAGE[cases_of(names[n][0])])}")
        first = args[0].split("=")[0]
        fields = [names[a.split("=")[0]][1] for a in args if a.split("=")[0] in names]
        if rng.random() < 0.1 and first in names and fields.count(names[first][1]) == 1:
            # duplicate setting: the last one wins.  Not combined with a deprecated alias of the same field on the same line: the order in
            # which a repeated name and its alias take effect is not documented (the code applies them in order of FIRST occurrence)
            args.append(first + "=" + tok(first))
        out.append(args)
    return out


def capflag_of(k):
    return k % 6 == 5


def collect(ctx, invs):
    rng = ctx.rng
    vectors = []
    for k, args in enumerate(invs):
        ver = 2 if k % 3 else 3
        st = rand_state(rng)
        st.pop("beep")
        if k % 7 == 0:
            st["hum"] = 0
        st["turbo_pos"] = ["both", "alt", "primary", "both"][k % 4]
        st["aux_both"] = k % 3 == 0          # in aux-only mode this unit reports the heater flag together with the independent-aux flag
        slen = [24, 24, 19, 24, 21, 24, 23][k % 7]       # some units answer with the short legacy state message (no humidity / freeze-protection fields)          # where the unit reports an active turbo mode: both positions of the state message, or one
        fan_cap = [bytes([0x10, 0x02, 1, 1]), bytes([0x10, 0x02, 1, 0]), bytes([0x10, 0x02, 1, 7]), b""][(k // 6) % 4]   # custom speeds / presets only / none
        if capflag_of(k) and not fan_cap[3:4] == b"\x01" and k % 12 == 5:
            st["fan"] = rng.choice([1, 19, 33, 55, 79, 99, 101])             # the unit currently runs at a raw (non-preset) speed
        nbreeze = sum(1 for a in args if a.split("=")[0] in ("breeze_away", "breeze_mild", "breezeless"))
        ctl = bool(capflag_of(k) and nbreeze <= 1 and (k // 6) % 2 == 0)       # the unit advertises the combined breeze control and the client asks for capabilities
        brz = bytes([0x43, 0x00, 1, 1]) if ctl else b""
        model = acdev.ACModel(state=dict(st, display=rng.random() < 0.5), state_len=slen,
                              caps_pages=[bytes([0xB5, 1 + (1 if fan_cap else 0) + (1 if ctl else 0)]) + fan_cap + brz + bytes([0x14, 0x02, 1, 0, 0, 0])],      # fan capability varies, modes; NO display control
                              props={0x09: b"\x00", 0x0A: b"\x00", 0x48: b"\x64", 0x42: b"\x01", 0x18: b"\x00", 0xE3: b"\x01\x00", 0x43: b"\x01"})
        rep = snap(model)
        capflag = ["--capabilities"] if capflag_of(k) else []          # capabilities queried before the settings are applied
        argv = ["control", "10.0.0.50"] + capflag + (["--token", TOK.hex(), "--key", KEY.hex(), "--id", str(rng.getrandbits(40))] if ver == 3 else []) + list(args)
        obs = run_cli(argv, model, ver)
        aft = snap(model)
        given = {a.split("=")[0] for a in args}
        if slen < 20 and not given & {"target_humidity"}:
            rep["hum"] = aft["hum"]           # a field the unit did not report cannot be "left as reported": whatever the command carries is acceptable
        if slen < 22 and not given & {"freeze_protection", "freeze_protection_mode"}:
            rep["freeze"] = aft["freeze"]
        obs.update(args=[B(a.encode()) for a in args], reported=rep, after=aft, ver=ver, argv=args, capflag=bool(capflag), ctl=ctl, state_len=slen,
                   fan_raw_without_custom_capability=bool(fan_cap[3:4] != b"\x01" and rep["fan"] not in (20, 40, 60, 80, 100, 102)))
        vectors.append(obs)
        ctx.count_distinct(tuple(args))
    return vectors


def judge(ctx, vectors, canaries=True):
    import copy
    cans = []
    if canaries:
        ok = [v for v in vectors if v["exit"] == 0 and v["frames40"]]
        bad = [v for v in vectors if v["exit"] != 0]
        c = copy.deepcopy(ok[0]); c["after"]["eco"] = not c["after"]["eco"]; cans.append(c)
        c = copy.deepcopy(ok[1]); c["exit"] = 1; cans.append(c)
        c = copy.deepcopy(bad[0]); c["exit"] = 0; cans.append(c)
        c = copy.deepcopy(bad[1]); c["sent"] = 3; cans.append(c)
    rej = ctx.validate_vectors("Trace_Cli", [{k: v for k, v in x.items() if k not in ("argv", "capflag", "fan_raw_without_custom_capability", "state_len")} for x in vectors + cans])
    n = len(vectors)
    if canaries and len({i for i, _ in rej if i >= n}) != len(cans):
        ctx.defer_machinery("Trace_Cli accepted a canary")
    ctx.extra["canaries_rejected"] = len(cans)
    for i, clause in rej:
        if i < n:
            v = vectors[i]
            ctx.violation("control " + ("--capabilities " if v.get("capflag") else "") + " ".join(v["argv"])[:160] + f" (V{v['ver']})", clause,
                          {"argv": v["argv"], "capflag": v.get("capflag", False), "ctl": v.get("ctl", False), "state_len": v.get("state_len", 24), "fan_raw_without_custom_capability": v.get("fan_raw_without_custom_capability", False),
                           "display_toggled": bool(v["reported"].get("display") != v["after"].get("display")), "ver": v["ver"], "reported": v["reported"], "after": v["after"], "exit": v["exit"], "exc": v["exc"], "sent": v["sent"]})


def run(ctx: Ctx) -> int:
    ctx.mc("MC_Cli", "INIT Init\nNEXT Next\nINVARIANT ConvTotal\nINVARIANT RejectsGarbage\nINVARIANT OverrideLocal\nCHECK_DEADLOCK FALSE\n", name="C20_mc")
    invs = invocations(ctx)
    vectors = collect(ctx, invs)
    judge(ctx, vectors)
    ctx.extra["invocations"] = len(vectors)
    ctx.extra["exit_status_seen"] = {str(c): sum(1 for v in vectors if v["exit"] == c) for c in sorted({v["exit"] for v in vectors})}
    ctx.sample({"argv": vectors[0]["argv"], "exit": vectors[0]["exit"], "reported": vectors[0]["reported"], "after": vectors[0]["after"]})
    from .. import cliquery
    cliquery.growth(ctx)                 # spec growth beyond C20: `msmart-ng query` (spec/CliQuery.tla); conformance drift only
    return ctx.finish(
        rule="every setting of the documented catalogue (29 incl. deprecated aliases and display_on) x every member name (lower / upper / mixed case) and "
             "member value, raw fan speeds, all boolean spellings, int and decimal numbers, half-degree setpoints; per-kind garbage values, missing / "
             "double '=', 27 invalid names (unknown, read-only, methods, private, wrong case); all pairs of settings on one command line; random "
             "multi-setting lines with invalid members and duplicates; random reported device states (incl. humidity 0, custom fan speed); V2 and V3; "
             "distinct = distinct command lines",
        assumptions=["documented spellings only: decimal literals without sign/exponent, True/False/1/0; what Python's literal_eval additionally accepts "
                     "(hex, underscores, expressions) is outside the catalogue and not generated",
                     "at most one breeze setting per command line (their interplay is C16's subject)"])


def replay(ctx: Ctx, path: str) -> int:
    import json
    c = json.load(open(path))["case"]
    model = acdev.ACModel(state={k: v for k, v in c["reported"].items()}, state_len=c.get("state_len", 24),
                          caps_pages=[bytes([0xB5, 3 if c.get("ctl") else 2, 0x10, 0x02, 1, 1]) + (bytes([0x43, 0x00, 1, 1]) if c.get("ctl") else b"") + bytes([0x14, 0x02, 1, 0, 0, 0])],
                          props={0x09: b"\x00", 0x0A: b"\x00", 0x48: b"\x64", 0x42: b"\x01", 0x18: b"\x00", 0xE3: b"\x01\x00", 0x43: b"\x01"})
    rep = snap(model)
    argv = ["control", "10.0.0.50"] + (["--capabilities"] if c.get("capflag") else []) + (["--token", TOK.hex(), "--key", KEY.hex(), "--id", "77"] if c["ver"] == 3 else []) + list(c["argv"])
    obs = run_cli(argv, model, c["ver"])
    obs.update(args=[B(a.encode()) for a in c["argv"]], reported=rep, after=snap(model), ver=c["ver"], argv=c["argv"], ctl=bool(c.get("ctl", False)))
    judge(ctx, [obs], canaries=False)
    return ctx.finish(rule="replay of one recorded command line")
