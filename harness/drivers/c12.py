"""C12 - every emitted command is a well-formed, device-acceptable frame; ids advance by one mod 256.

(a) TLC MC_C12: every command kind x parameter domain x id is WellFormedCommand and classified correctly.
(c) real code: (i) Command subclasses' tobytes() over their domains, (ii) frames a simulated device receives for
    every public AirConditioner operation (after V2 unwrapping by the reference codec), (iii) > 600 consecutive commands.
    Every frame is judged by TLC (Trace_C12).
"""
from __future__ import annotations

import itertools

from ..common import B, Ctx
from .. import vloop, acdev, landev
from . import c10

PROP_IDS = [0x09, 0x0A, 0x18, 0x1A, 0x39, 0x42, 0x43, 0x48, 0xE3]


def direct_frames(ctx: Ctx):
    """(i) command objects built directly."""
    from msmart.device.AC import command as C
    rng = ctx.rng
    out = []
    prev = [-1]

    def emit(kind, cmd, **kw):
        try:
            f = cmd.tobytes()
        except Exception as e:  # noqa: BLE001
            out.append(dict(kind=kind, frame=[], prev=prev[0], exc=type(e).__name__, **kw))
            return
        out.append(dict(kind=kind, frame=B(f), prev=prev[0], exc="none", **kw))
        prev[0] = f[-3] if len(f) >= 3 else -1

    for _ in range(ctx.pick(3, 30)):
        emit("get_state", C.GetStateCommand())
        emit("get_energy", C.GetEnergyUsageCommand())
        emit("get_humidity", C.GetHumidityCommand())
        emit("get_caps", C.GetCapabilitiesCommand(False))
        emit("get_caps_more", C.GetCapabilitiesCommand(True))
        for beep in (False, True):
            t = C.ToggleDisplayCommand()
            t.beep_on = beep
            emit("toggle_display", t, beep=beep)
    # all subsets of the supported property ids (as sets and as lists)
    masks = range(512) if not ctx.quick else list(range(0, 512, 3)) + [511]
    for m in masks:
        ids = [PROP_IDS[j] for j in range(9) if m >> j & 1]
        props = [C.PropertyId(x) for x in ids]
        emit("get_props", C.GetPropertiesCommand(set(props) if m % 2 else props), ids=ids)
    # queries for ALL property ids, those above 0xFF included (0x021E): ids travel as two little-endian bytes
    allq = [int(x) for x in C.PropertyId]
    for m in (range(1, 1 << len(allq)) if not ctx.quick else rng.sample(range(1, 1 << len(allq)), 120) + [1 << j for j in range(len(allq))]):
        ids = [allq[j] for j in range(len(allq)) if m >> j & 1]
        emit("get_props", C.GetPropertiesCommand([C.PropertyId(x) for x in ids]), ids=ids)
    # every property with every value
    for pid in PROP_IDS:
        vals = range(256) if not ctx.quick else sorted({0, 1, 2, 3, 4, 20, 25, 40, 50, 60, 75, 80, 100, 255} | {rng.randrange(256) for _ in range(6)})
        for v in vals:
            for buzz in (False, True):
                val = bool(v) if (pid in (0x18, 0x39, 0x42, 0xE3, 0x1A) and v in (0, 1) and rng.random() < 0.5) else v
                emit("set_props", C.SetPropertiesCommand({C.PropertyId(pid): val, C.PropertyId.BUZZER: buzz}),
                     writes=[{"id": pid, "v": int(val)}, {"id": 0x1A, "v": int(buzz)}] if pid != 0x1A else [{"id": 0x1A, "v": int(buzz)}])
    # multi-property writes
    for _ in range(ctx.pick(150, 3000)):
        k = rng.randint(0, 6)
        ids = rng.sample([p for p in PROP_IDS if p != 0x1A], k)
        d = {C.PropertyId(p): rng.choice([0, 1, 2, 3, 4, 25, 50, 75, 100, rng.randrange(256)]) for p in ids}
        d[C.PropertyId.BUZZER] = rng.choice([False, True])
        emit("set_props", C.SetPropertiesCommand(d), writes=[{"id": int(p), "v": int(v)} for p, v in d.items()])
    # every subset of ALL property ids, those the library cannot encode included (0x0015, 0x004B, 0x021E): the library may refuse such a request,
    # but whatever it does emit is a well-formed command whose announced count matches the entries it carries
    allp = [int(x) for x in C.PropertyId if int(x) != 0x1A]
    unenc = {0x0015, 0x004B, 0x021E}
    for m in (range(1, 1 << len(allp)) if not ctx.quick else rng.sample(range(1, 1 << len(allp)), 300)):
        ids = [allp[j] for j in range(len(allp)) if m >> j & 1]
        if not set(ids) & unenc:
            continue
        d = {C.PropertyId(p): rng.choice([0, 1, 2, 25, 50, 100]) for p in ids}
        emit("set_props_optional", C.SetPropertiesCommand(d), writes=[{"id": int(p), "v": int(v)} for p, v in d.items() if int(p) not in unenc])
    # set-state over field domains
    for _ in range(ctx.pick(400, 6000)):
        s = c10.rand_state(rng)
        c = C.SetStateCommand()
        c.beep_on, c.power_on, c.target_temperature = s["beep"], s["power"], s["t2"] / 2
        c.operational_mode, c.fan_speed, c.swing_mode = s["mode"], s["fan"], s["swing"]
        c.eco, c.turbo, c.fahrenheit, c.sleep = s["eco"], s["turbo"], s["fahr"], s["sleep"]
        c.freeze_protection, c.follow_me, c.purifier, c.target_humidity = s["freeze"], s["follow"], s["purifier"], s["hum"]
        c.aux_heat, c.independent_aux_heat = s["aux"] == 1, s["aux"] == 2
        emit("set_state", c)
    # (iii) long run of ids: > 600 consecutive commands
    for _ in range(ctx.pick(620, 2000)):
        emit("get_state", C.GetStateCommand())
    return out


def device_frames(ctx: Ctx):
    """(ii) every public operation of AirConditioner against a simulated device (V2 and V3)."""
    import os
    from msmart.device import AirConditioner as AC
    out = []
    for ver in (2, 3):
        vloop.install_clock()
        loop = vloop.new_loop()
        net = vloop.Net(loop)
        caps1 = bytes([0xB5, 6, 0x09, 0x00, 1, 1, 0x0A, 0x00, 1, 1, 0x43, 0x00, 1, 1, 0x48, 0x00, 1, 2,
                       0x16, 0x02, 1, 2, 0x1F, 0x02, 1, 2, 0x01, 0x00])
        caps2 = bytes([0xB5, 3, 0xE3, 0x00, 1, 1, 0x39, 0x00, 1, 1, 0x24, 0x02, 1, 1])
        energy = bytes([0xC1, 0x21, 0x01, 0x44] + [0, 0, 0x12, 0x34] + [0] * 4 + [0, 0, 0, 0x56] + [0, 0x07, 0x89] + [0])
        humidity = bytes([0xC1, 0x21, 0x01, 0x45, 55, 0, 0, 0])
        ac = acdev.ACModel(caps_pages=[caps1, caps2], energy=energy, humidity=humidity,
                           props={0x09: b"\x19", 0x0A: b"\x32", 0x43: b"\x01", 0x48: b"\x64", 0xE3: b"\x01\x00", 0x39: b"\x00"})
        tok, key = os.urandom(64), os.urandom(32)
        dev = landev.LanDevice(loop, net, ac, version=ver, token=tok, key=key, seed=ctx.seed)
        d = AC(ip="10.0.0.1", port=6444, device_id=ctx.rng.getrandbits(48))
        rng = ctx.rng

        raised = []
        emitted = []          # frames in the order the library serialized them (LAN.send is entered synchronously after Command.tobytes)

        def tap(obj):
            orig = obj._lan.send

            async def send(data, *a, **kw):
                emitted.append(bytes(data))
                return await orig(data, *a, **kw)
            obj._lan.send = send
        tap(d)

        async def op(name, coro):
            try:
                await coro
            except Exception as e:  # noqa: BLE001 - code under test
                raised.append((name, type(e).__name__, str(e)[:80]))

        async def go():
            if ver == 3:
                await op("authenticate", d.authenticate(tok, key))
            await op("get_capabilities", d.get_capabilities())
            await op("refresh", d.refresh())
            await op("toggle_display", d.toggle_display())
            d.beep = True
            await op("toggle_display", d.toggle_display())
            await op("start_self_clean", d.start_self_clean())
            for _ in range(ctx.pick(25, 300)):
                st = c10.rand_state(rng)
                c10.apply_state(AC, d, st)
                r = rng.random()
                if r < 0.3:
                    d.vertical_swing_angle = rng.choice(list(AC.SwingAngle))
                if r < 0.5:
                    d.horizontal_swing_angle = rng.choice(list(AC.SwingAngle))
                if 0.2 < r < 0.7:
                    d.rate_select = rng.choice(list(AC.RateSelect))
                if r > 0.5:
                    d.ieco = rng.choice([False, True])
                if r > 0.6:
                    rng.choice([lambda v: setattr(d, "breeze_away", v), lambda v: setattr(d, "breeze_mild", v),
                                lambda v: setattr(d, "breezeless", v)])(rng.choice([False, True]))
                if rng.random() < 0.12:
                    # the unit misses a whole command (all its transmissions): the ids of the commands that follow go on from it
                    orig_handle = ac.handle
                    ac.handle = lambda f: (orig_handle(f), [])[1]          # received and understood, never answered
                    await op("refresh", d.refresh())
                    ac.handle = orig_handle
                n0 = len(raised)
                await op("apply", d.apply())
                if len(raised) > n0:
                    raised[-1] = raised[-1] + (st,)
                await op("refresh", d.refresh())
            # several AirConditioner objects of one process working concurrently (each refresh consists of several commands): the ids on the
            # wire advance by one in EMISSION order, whoever emits; half of the rounds with the library's debug logging switched on
            import asyncio
            import logging
            others = [AC(ip="10.0.0.1", port=6444, device_id=rng.getrandbits(48)) for _ in range(2)]
            for o in others:
                tap(o)
                if ver == 3:
                    await op("authenticate", o.authenticate(tok, key))
                await op("get_capabilities", o.get_capabilities())
            lg = logging.getLogger("msmart")
            for rnd in range(ctx.pick(12, 120)):
                dbg = rnd % 2 == 1
                if dbg:
                    logging.disable(logging.NOTSET)
                    lg.setLevel(logging.DEBUG)
                    lg.propagate = False
                    if not lg.handlers:
                        lg.addHandler(logging.NullHandler())
                try:
                    if rnd % 3 == 0:
                        await asyncio.gather(op("refresh", d.refresh()), op("refresh", others[0].refresh()), op("refresh", others[1].refresh()))
                    elif rnd % 3 == 1:
                        # control and query commands of different objects interleaved: every frame carries ITS OWN type, ids and counts
                        c10.apply_state(AC, others[0], c10.rand_state(rng))
                        others[0].vertical_swing_angle = rng.choice(list(AC.SwingAngle))
                        others[1].rate_select = rng.choice(list(AC.RateSelect))
                        await asyncio.gather(op("refresh", d.refresh()), op("apply", others[0].apply()), op("apply", others[1].apply()),
                                             op("toggle_display", d.toggle_display()))
                    else:
                        # the capabilities of the object change (another unit behind the same address) while its own refresh is in flight
                        ac.caps_pages = [caps1, caps2] if (rnd // 3) % 2 else [bytes([0xB5, 2, 0x09, 0x00, 1, 1, 0x16, 0x02, 1, 2])]
                        # (the appliance answers after 50 ms and the capability query starts 10 ms into the refresh, so that each waiting reader
                        #  receives its own answer and the property set changes between two commands of the refresh)
                        def slow(tr, packets):
                            for q in packets:
                                loop.call_later(0.05, tr.feed, q)
                        dev.respond = slow

                        async def later(coro):
                            await asyncio.sleep(0.01)
                            await coro
                        try:
                            await asyncio.gather(op("refresh", d.refresh()), op("get_capabilities", later(d.get_capabilities())))
                        finally:
                            await asyncio.sleep(1)
                            dev.respond = dev._respond_soon
                        await op("refresh", d.refresh())
                finally:
                    if dbg:
                        lg.setLevel(logging.NOTSET)
                        lg.propagate = True
                        logging.disable(logging.CRITICAL)

        vloop.run(loop, go())
        prev = -1
        parsed = {}
        for k, entry in zip([r for r in dev.rx if r.get("frame") is not None], ac.log):
            parsed.setdefault(bytes(k["frame"]), []).append(entry)
        for f in emitted:
            if not parsed.get(f):
                # serialized but never seen (or not understood) by the appliance: judged as an unknown command, the id sequence goes on
                out.append(dict(kind="unparsed", frame=B(f), prev=prev, exc="none", via=f"device-v{ver}"))
                prev = f[-3]
                continue
            kind, info = parsed[f].pop(0)
            v = dict(kind=kind if kind != "get_caps" else ("get_caps_more" if info == 1 else "get_caps"),
                     frame=B(f), prev=prev, exc="none", via=f"device-v{ver}")
            if kind == "get_props":
                v["ids"] = list(info)
            elif kind == "set_props":
                # the device's parsed writes are only used to know WHICH ids/values to expect; the encoding is re-derived by TLC
                v["writes"] = None
            elif kind == "toggle_display":
                v["beep"] = bool(info)
            prev = f[-3]
            out.append(v)
        # every transmission - the first and the repeated ones (unanswered commands are sent three times) - carries the command as it was emitted
        eset = set(emitted)
        for r in dev.rx:
            fr = r.get("frame") if r.get("frame") is not None else (r.get("raw") if r.get("kind") == "v2" and not r.get("ok") else None)
            if fr is not None and bytes(fr) not in eset:
                out.append(dict(kind="received", frame=B(fr), prev=-1, exc="none", via=f"device-v{ver}-received"))
        ctx.extra.setdefault("transmissions_seen_by_the_appliance", 0)
        ctx.extra["transmissions_seen_by_the_appliance"] += sum(1 for r in dev.rx if r.get("frame") is not None)
        for r in raised:
            out.append(dict(kind="raised", frame=[], prev=-1, exc=f"{r[0]}: {r[1]} {r[2]}", via=f"device-v{ver}", detail=list(r[3:])))
    return out


def run(ctx: Ctx) -> int:
    ctx.mc("MC_C12", "INIT Init\nNEXT Next\nINVARIANT WellFormed\nINVARIANT Classified\nINVARIANT WritesParsed\n"
                     "INVARIANT IdsParsed\nCHECK_DEADLOCK FALSE\n")
    vecs = direct_frames(ctx)
    dv = device_frames(ctx)
    # for device-observed property writes, expected values are unknown to the harness: judge well-formedness/kind/id only
    for v in dv:
        if v["kind"] == "set_props":
            v["kind_props_unchecked"] = True
            v["writes"] = "skip"
    allv = vecs + dv
    tlc_in = []
    refused = 0
    for v in allv:
        if v["exc"] != "none" and v["kind"] == "set_props_optional":
            refused += 1                       # a request outside the encodable domain may be refused; nothing was emitted
            continue
        elif v["exc"] != "none":
            ctx.violation("emitting an in-domain command raised", v["exc"], v)
            continue
        w = dict(v)
        if w["kind"] == "set_props_optional":
            w["kind"] = "set_props"
        if w.get("writes") == "skip":
            w["kind"] = "set_props_any"
            w.pop("writes")
        tlc_in.append(w)
        ctx.count_distinct((w["kind"], bytes(w["frame"][10:-3])))
    # canaries
    cans = []
    base = next(v for v in tlc_in if v["kind"] == "get_state")
    c = dict(base); f = list(c["frame"]); f[-2] ^= 1; f[-1] = acdev.csum(bytes(f[1:-1])); c["frame"] = f; cans.append(c)
    c = dict(base); f = list(c["frame"]); f[1] += 1; f[-1] = acdev.csum(bytes(f[1:-1])); c["frame"] = f; cans.append(c)
    c = dict(base); c["prev"] = (base["frame"][-3] + 5) % 256; cans.append(c)
    c = dict(base); c["kind"] = "get_energy"; cans.append(c)
    rej = ctx.validate_vectors("Trace_C12", tlc_in + cans)
    n = len(tlc_in)
    if len({i for i, _ in rej if i >= n}) != len(cans):
        from ..tlc import MachineryError
        ctx.defer_machinery("Trace_C12 accepted a canary")
    ctx.extra["canaries_rejected"] = len(cans)
    for i, clause in rej:
        if i < n:
            ctx.violation("command frame", clause, tlc_in[i])
    ctx.extra["longest_id_chain"] = sum(1 for v in vecs if v["prev"] >= 0)
    ctx.sample({"kind": tlc_in[0]["kind"], "frame": bytes(tlc_in[0]["frame"]).hex()})
    sp = next(v for v in tlc_in if v["kind"] == "set_props")
    ctx.sample({"kind": "set_props", "writes": sp["writes"], "frame": bytes(sp["frame"]).hex()})
    return ctx.finish(
        rule="(i) every Command subclass over its parameter domain (all/most subsets of the 9 property ids, every property with a "
             "value sweep and both buzzer values, random multi-property writes, random set-state fields), (ii) every frame a simulated "
             "V2 and V3 device received for get_capabilities/refresh/toggle_display/start_self_clean/apply histories, (iii) a chain of "
             ">600 consecutive commands; distinct = distinct (kind, body); each frame is judged by TLC with WellFormedCommand, "
             "CommandKind, the documented frame type, property id/value encoding and id succession")


def replay(ctx: Ctx, path: str) -> int:
    import json
    from ..common import NotReplayable
    raise NotReplayable("a recorded frame is not re-executed on its own: the check is re-run with the recorded seed")
