"""C05 - V3 encrypted packet codec: interoperable for every length, tamper-evident.

(a) TLC MC_V3: model cipher/tag, every payload length 0..300 (pad 0..15) and edge counters round-trip; every single-bit
    flip of an authentic response is an error for the read path.
(c) real code: _encode_encrypted_request over lengths/keys/all counters 0..4095 judged by EncPacketClause; responses built
    by the independent implementation decoded by _process_packet; all single-bit flips through the library's read path
    (_process_packet, then the V2 decode of what it returns); also wire bytes / results of LAN.send on an authenticated
    connection.  Verdicts by TLC (Trace_V3).
"""
from __future__ import annotations

import asyncio

import os

from ..common import B, Ctx
from .. import vloop, acdev, landev
from ..v2vec import v2_oracle, result_of
from ..v3vec import v3_oracle, new_proto


def rbytes(rng, n):
    return bytes(rng.randrange(256) for _ in range(n))


def collect(ctx: Ctx):
    from msmart.lan import _Packet, LAN
    vloop.install_clock()
    rng = ctx.rng
    vectors = []
    key0 = rbytes(rng, 32)
    proto0 = new_proto(key0)
    # requests: every length 0..300 under one key
    for n in range(0, 301):
        payload = rbytes(rng, n)
        ctr = rng.choice([0, 1, 255, 256, 4095, rng.randrange(4096)])
        res = result_of(proto0._encode_encrypted_request, ctr, payload)
        vectors.append({"kind": "encreq", "payload": B(payload), "ctr": ctr, "res": res,
                        "o": v3_oracle(key0, bytes(res.get("f", [])))})
    # 16 residues x many keys
    for _ in range(ctx.pick(6, 60)):
        key = rbytes(rng, 32)
        pr = new_proto(key)
        for r in range(16):
            n = r + 16 * rng.randrange(0, 6)
            payload = rbytes(rng, n)
            ctr = rng.randrange(4096)
            res = result_of(pr._encode_encrypted_request, ctr, payload)
            vectors.append({"kind": "encreq", "payload": B(payload), "ctr": ctr, "res": res, "o": v3_oracle(key, bytes(res.get("f", [])))})
    # all counters 0..4095 (short payload)
    for ctr in range(0, 4096, ctx.pick(3, 1)):
        payload = rbytes(rng, rng.choice([0, 5, 14, 30]))
        res = result_of(proto0._encode_encrypted_request, ctr, payload)
        vectors.append({"kind": "encreq", "payload": B(payload), "ctr": ctr, "res": res, "o": v3_oracle(key0, bytes(res.get("f", [])))})
    # responses from the independent implementation, every length 0..300
    for n in range(0, 301):
        for _ in range(ctx.pick(1, 4)):
            key = key0 if n % 2 else rbytes(rng, 32)
            pr = proto0 if n % 2 else new_proto(key)
            payload = rbytes(rng, n)
            ctr = rng.randrange(65536)
            p = landev.v3_enc_packet(key, payload, ctr, 3, padbytes=rbytes(rng, 16))
            res = result_of(lambda: pr._process_packet(memoryview(p)))
            vectors.append({"kind": "decresp", "payload": B(payload), "ctr": ctr, "p": B(p), "o": v3_oracle(key, p), "res": res})
    # tamper: all single-bit flips for packets covering every pad residue (payload = a real V2 packet of a frame)
    flen = list(range(0, 16)) if not ctx.quick else [0, 6, 10, 12, 13, 14, 15]
    for fl in flen:
        frame = rbytes(rng, fl + 16 * rng.randrange(0, 2))
        inner = landev.v2_wrap(frame, rng.getrandbits(48))
        # make the payload length hit a chosen residue by appending nothing: V2 packets are 56+16k long, so vary via raw payloads too
        for payload in (inner, rbytes(rng, fl)):
            ctr = rng.randrange(65536)
            p = landev.v3_enc_packet(key0, payload, ctr, 3, padbytes=rbytes(rng, 16))
            oo = v3_oracle(key0, p)
            positions = range(len(p)) if (not ctx.quick or len(p) < 80) else sorted(set(list(range(0, 24)) + list(range(len(p) - 34, len(p))) + rng.sample(range(len(p)), 30)))
            for pos in positions:
                for bit in range(8):
                    q = bytearray(p)
                    q[pos] ^= 1 << bit
                    q = bytes(q)
                    if (pos + bit) % 2 == 0:
                        # history: the authentic packet is received (and decoded) immediately before its altered copy, on the same connection object
                        result_of(lambda: proto0._process_packet(memoryview(p)))
                    res1 = result_of(lambda: proto0._process_packet(memoryview(q)))
                    res = res1
                    res2 = result_of(lambda: _Packet.decode(proto0._process_packet(memoryview(q))))
                    vectors.append({"kind": "mutant", "mut": [pos, bit], "payload": B(payload), "ctr": ctr, "orig": B(p), "oo": oo,
                                    "q": B(q), "o": v3_oracle(key0, q), "o2": v2_oracle(_hs_or_frame(q, key0)), "res": res1, "res2": res2})
    # through LAN.send on an authenticated V3 connection: wire bytes + result
    loop = vloop.new_loop()
    net = vloop.Net(loop)
    tok, key = rbytes(rng, 64), rbytes(rng, 32)

    class Echo(acdev.ACModel):
        def handle(self, fr):
            return [bytes(fr)]
    dev = landev.LanDevice(loop, net, Echo(), version=3, token=tok, key=key, seed=ctx.seed)

    async def go():
        l = LAN("10.0.0.1", 6444, 77)
        await l.authenticate(tok, key)
        skey = dev.sess[0]["key"]
        for n in range(0, 256, ctx.pick(4, 1)):
            f = rbytes(rng, n)
            n0 = len(dev.rx)
            try:
                r = await l.send(f, retries=1)
                res = {"k": "frame", "f": B(r[0]) if r else []}
            except Exception as e:  # noqa: BLE001
                res = {"k": "raise", "exc": type(e).__name__}
            rx = [x for x in dev.rx[n0:] if x["kind"] == "data"]
            if not rx:
                vectors.append({"kind": "encreq", "payload": [], "ctr": 0, "res": {"k": "raise", "exc": "NothingOnWire"}, "o": v3_oracle(skey, b""), "via": "LAN.send"})
                continue
            raw = rx[0]["raw"]
            d = landev.v3_dec_packet(skey, raw)
            inner = d.get("payload", b"")
            vectors.append({"kind": "encreq", "payload": B(inner), "ctr": d.get("ctr", -1), "res": {"k": "frame", "f": B(raw)},
                            "o": v3_oracle(skey, raw), "via": "LAN.send"})
            # the echoed frame must come back
            vectors.append({"kind": "decresp", "payload": B(f), "ctr": 0, "p": B(landev.v3_enc_packet(skey, f, 0)), "o": v3_oracle(skey, landev.v3_enc_packet(skey, f, 0)),
                            "res": res, "via": "LAN.send"})

    vloop.run(loop, go())

    # the reply stream as the transport delivers it: an authentic response cut in two at every position; an altered response that is not the
    # one the blocking read waits for (behind a good response in the same / the next segment, or already queued when the next send starts)
    plan = {"mode": None}

    def respond(tr, packets):
        m = plan["mode"]
        if m is None or packets[0][5] & 0xF == 1:
            for q in packets:
                loop.call_soon(tr.feed, q)
        elif m == "cut":
            c = plan["cut"]
            loop.call_at(loop.time() + 0.01, tr.feed, plan["p"][:c])
            loop.call_at(loop.time() + 0.02, tr.feed, plan["p"][c:])
        elif m == "same":
            loop.call_soon(tr.feed, plan["p"] + plan["q"])
        elif m == "next":
            loop.call_soon(tr.feed, plan["p"])
            loop.call_soon(tr.feed, plan["q"])
        else:
            loop.call_soon(tr.feed, plan["p"])
    dev.respond = respond

    async def go2():
        l = LAN("10.0.0.1", 6444, 77)

        async def ready():
            if l._protocol is None or not l._alive or not l._protocol.authenticated:
                plan["mode"] = None
                await l.authenticate(tok, key)
            return dev.sess[net.conns[-1].cid]["key"]

        async def ask():
            try:
                r = await l.send(b"\xaa\x01", retries=1)
                return {"k": "frame", "f": B(r[-1]) if r else []}
            except Exception as e:  # noqa: BLE001 - code under test
                return {"k": "raise", "exc": type(e).__name__}
        for n in [0, 1, 14, 20, 34]:
            f = rbytes(rng, n)
            skey = await ready()
            L = len(landev.v3_enc_packet(skey, landev.v2_wrap(f, 77), 0))
            for c in (range(1, L) if n in (1, 20) or not ctx.quick else [1, 2, 5, 6, 7, 8, 9, L - 33, L - 32, L - 31, L - 1]):
                skey = await ready()
                plan.update(mode="cut", p=landev.v3_enc_packet(skey, landev.v2_wrap(f, 77), c & 0xFFF, 3, padbytes=rbytes(rng, 16)), cut=c)
                res = await ask()
                pk = landev.v3_enc_packet(skey, f, c & 0xFFF)         # reference packet of the frame that must come back (as in the section above)
                vectors.append({"kind": "decresp", "payload": B(f), "ctr": c & 0xFFF, "p": B(pk), "o": v3_oracle(skey, pk), "res": res,
                                "via": f"LAN.send, reply delivered in two segments cut at {c}"})
        for k in range(ctx.pick(150, 3000)):
            skey = await ready()
            frame = rbytes(rng, rng.choice([0, 6, 13, 20, 34]))
            payload = landev.v2_wrap(frame, 77)
            ctr = rng.randrange(65536)
            pk = landev.v3_enc_packet(skey, payload, ctr, 3, padbytes=rbytes(rng, 16))
            pos = rng.choice([rng.randrange(6, len(pk)), rng.randrange(6, len(pk)), rng.randrange(len(pk) - 32, len(pk)), 5, 6, 7])
            q = bytearray(pk)
            q[pos] ^= 1 << rng.randrange(8)
            q = bytes(q)
            mode = ["same", "next", "queued"][k % 3]
            if mode == "queued":
                plan.update(mode="good", p=pk)
                await ask()
                net.conns[-1].feed(q)                # arrives while the client is idle
                await asyncio.sleep(0.5)
            plan.update(mode=mode if mode != "queued" else "good", p=pk, q=q)
            res = await ask()
            vectors.append({"kind": "mutant", "mut": [pos, -1], "payload": B(payload), "ctr": ctr, "orig": B(pk), "oo": v3_oracle(skey, pk),
                            "q": B(q), "o": v3_oracle(skey, q), "o2": v2_oracle(_hs_or_frame(q, skey)), "res": res, "res2": res,
                            "via": "LAN.send, altered response " + {"same": "behind a good one in the same segment", "next": "in the segment after a good one",
                                                                      "queued": "already queued when the next send starts"}[mode]})
    vloop.run(loop, go2())

    # rare session keys reached through the REAL handshake (the appliance steers its random value): keys with leading / trailing zero bytes, the
    # all-zero key, keys of 0xFF bytes; every request must still be an encrypted request under that key and every response decode.  And an exchange
    # that straddles the end of the key's 12 h lifetime: the authentic response to a request sent under a valid key still decodes
    plan["mode"] = None
    shapes = [("lead", 1), ("lead", 2), ("lead", 5), ("trail", 1), ("trail", 3), ("zero", 32), ("ff", 32), ("lead", 31)]

    async def go3():
        for k, (shape, nz) in enumerate(shapes * ctx.pick(1, 4)):
            def hook(nonce, shape=shape, nz=nz):
                want = bytearray(rbytes(rng, 32))
                if shape == "lead":
                    want[:nz] = bytes(nz)
                elif shape == "trail":
                    want[-nz:] = bytes(nz)
                elif shape == "zero":
                    want = bytearray(32)
                else:
                    want = bytearray(b"\xff" * 32)
                return bytes(a ^ b for a, b in zip(want, key))            # session key = nonce XOR device key = want
            dev.nonce_hook = hook
            l = LAN("10.0.0.1", 6444, 78)
            f = rbytes(rng, rng.choice([0, 5, 20, 34]))
            n0 = len(dev.rx)
            try:
                await l.authenticate(tok, key)
                r = await l.send(f, retries=1)
                res = {"k": "frame", "f": B(r[0]) if r else []}
            except Exception as e:  # noqa: BLE001 - code under test
                res = {"k": "raise", "exc": type(e).__name__}
            dev.nonce_hook = None
            skey = dev.sess[net.conns[-1].cid]["key"]
            rx = [x for x in dev.rx[n0:] if x["kind"] == "data"]
            via = f"LAN.send under a session key with {shape} bytes ({nz})"
            if rx:
                raw = rx[0]["raw"]
                d = landev.v3_dec_packet(skey, raw)
                vectors.append({"kind": "encreq", "payload": B(d.get("payload", b"")), "ctr": d.get("ctr", -1), "res": {"k": "frame", "f": B(raw)}, "o": v3_oracle(skey, raw), "via": via})
            else:
                vectors.append({"kind": "encreq", "payload": [], "ctr": 0, "res": {"k": "raise", "exc": "NothingOnWire:" + str(res.get("exc", ""))}, "o": v3_oracle(skey, b""), "via": via})
            ref = landev.v3_enc_packet(skey, f, 0)
            vectors.append({"kind": "decresp", "payload": B(f), "ctr": 0, "p": B(ref), "o": v3_oracle(skey, ref), "res": res, "via": via})
            if l._protocol:
                l._disconnect()
        # responses whose ciphertext / tag happens to contain the start-marker bytes 83 70, split right behind that pair; a response whose second
        # part arrives after the read timeout of the first transmission (the client retransmits meanwhile); two responses and an immediate close
        for k in range(ctx.pick(10, 120)):
            l = LAN("10.0.0.1", 6444, 80)
            await l.authenticate(tok, key)
            cid = net.conns[-1].cid
            skey = dev.sess[cid]["key"]
            f = rbytes(rng, rng.choice([5, 20, 34]))
            mode = ["marker", "marker", "slow", "close"][k % 4]
            pk = None
            if mode == "marker":
                for _ in range(4000):
                    cand = landev.v3_enc_packet(skey, landev.v2_wrap(f, 80), rng.randrange(65536), 3, padbytes=rbytes(rng, 16))
                    j = cand.find(b"\x83\x70", 8)
                    if j > 0:
                        pk, cut = cand, j + 2
                        break
                    f = rbytes(rng, len(f))
                if pk is None:
                    continue

            def respond3(tr, packets, mode=mode, pk=pk, skey=skey, f=f):
                if packets[0][5] & 0xF == 1:
                    for q in packets:
                        loop.call_soon(tr.feed, q)
                    return
                if plan3.get("done"):
                    return                                  # (retransmissions are not answered again)
                plan3["done"] = True
                if mode == "marker":
                    loop.call_at(loop.time() + 0.01, tr.feed, pk[:cut])
                    loop.call_at(loop.time() + 0.30, tr.feed, pk[cut:])
                elif mode == "slow":
                    p1 = landev.v3_enc_packet(skey, landev.v2_wrap(f, 80), 7)
                    loop.call_at(loop.time() + 0.01, tr.feed, p1[:20])
                    loop.call_at(loop.time() + 2.5, tr.feed, p1[20:])
                else:
                    p1 = landev.v3_enc_packet(skey, landev.v2_wrap(f, 80), 7)
                    p2 = landev.v3_enc_packet(skey, landev.v2_wrap(f[::-1], 80), 8)
                    loop.call_at(loop.time() + 0.01, lambda: (tr.feed(p1 + p2), tr.peer_close()))
            plan3 = {}
            dev.respond = respond3
            try:
                r = await l.send(f, retries=3 if mode == "slow" else 1)
                res = {"k": "frame", "f": B(r[0]) if r else []}
                nret = len(r)
            except Exception as e:  # noqa: BLE001 - code under test
                res, nret = {"k": "raise", "exc": type(e).__name__}, 0
            dev.respond = respond
            ref = landev.v3_enc_packet(skey, f, 0)
            vectors.append({"kind": "decresp", "payload": B(f), "ctr": 0, "p": B(ref), "o": v3_oracle(skey, ref), "res": res,
                            "via": "LAN.send, " + {"marker": "response containing the marker bytes in its body, split right behind them", "slow": "second part of the response 2.5 s late (retransmission meanwhile)",
                                                     "close": "two responses in one segment, then the peer closes"}[mode]})
            if mode == "close":
                ref2 = landev.v3_enc_packet(skey, f[::-1], 0)
                vectors.append({"kind": "decresp", "payload": B(f[::-1]), "ctr": 0, "p": B(ref2), "o": v3_oracle(skey, ref2),
                                "res": {"k": "frame", "f": B(r[1])} if nret > 1 else {"k": "raise", "exc": "nothing (second response not returned)"},
                                "via": "LAN.send, second of two responses in one segment followed by the peer closing"})
            await asyncio.sleep(6)
            if l._protocol:
                l._disconnect()
        # (a) the same frame sent twice with a re-authentication in between: the second request is encrypted under the NEW session key with the next counter
        # (b) forty responses in one segment: all of them are handed out
        # (c) a bit of the SIZE field altered in a response that has another packet behind it in the stream: a protocol error, whatever the framer cuts out
        for k in range(ctx.pick(6, 60)):
            l = LAN("10.0.0.1", 6444, 81)
            await l.authenticate(tok, key)
            f = rbytes(rng, rng.choice([5, 20, 34]))
            dev.respond = respond
            plan["mode"] = None
            sub = k % 3
            if sub == 0:
                n0 = len(dev.rx)
                lost = {"n": 1}

                def respond_lossy(tr, packets):
                    if packets[0][5] & 0xF != 1 and lost["n"] > 0:
                        lost["n"] -= 1                      # the unit misses this transmission: the client retransmits
                        return
                    return respond(tr, packets)
                dev.respond = respond_lossy
                try:
                    await l.send(f, retries=2)
                    await l.authenticate(tok, key)
                    r = await l.send(f, retries=1)
                    res = {"k": "frame", "f": B(r[0]) if r else []}
                except Exception as e:  # noqa: BLE001 - code under test
                    res = {"k": "raise", "exc": type(e).__name__}
                dev.respond = respond
                skey = dev.sess[net.conns[-1].cid]["key"]
                # on this connection so far: handshake (counter 0), data, data (retransmission), handshake, data - every packet one counter further
                seq = [x for x in dev.rx if x.get("conn") == net.conns[-1].cid and x["kind"] in ("hs", "data")]
                for idx, x in enumerate(seq):
                    if x["kind"] != "data":
                        continue
                    kx = dev.keys.get(x.get("keyid", 0), skey)
                    d = landev.v3_dec_packet(kx, x["raw"])
                    vectors.append({"kind": "encreq", "payload": B(d.get("payload", b"")), "ctr": idx, "res": {"k": "frame", "f": B(x["raw"])}, "o": v3_oracle(kx, x["raw"]),
                                    "via": f"LAN.send, packet {idx + 1} of a connection with a lost transmission and a re-authentication"})
                if len([x for x in seq if x["kind"] == "data"]) < 3:
                    vectors.append({"kind": "encreq", "payload": [], "ctr": 0, "res": {"k": "raise", "exc": "NothingOnWire"}, "o": v3_oracle(skey, b""), "via": "LAN.send, expected three data packets on the wire"})
                ref = landev.v3_enc_packet(skey, f, 0)
                vectors.append({"kind": "decresp", "payload": B(f), "ctr": 0, "p": B(ref), "o": v3_oracle(skey, ref), "res": res, "via": "LAN.send, same frame again after a re-authentication"})
            elif sub == 1:
                skey = dev.sess[net.conns[-1].cid]["key"]
                frames40 = [rbytes(rng, rng.choice([1, 5, 20])) for _ in range(40)]
                blob = b"".join(landev.v3_enc_packet(skey, landev.v2_wrap(x, 81), 100 + j) for j, x in enumerate(frames40))

                def respond40(tr, packets, blob=blob):
                    if packets[0][5] & 0xF == 1:
                        return respond(tr, packets)
                    loop.call_later(0.001, tr.feed, blob)
                dev.respond = respond40
                try:
                    r = list(await l.send(f, retries=1))
                except Exception as e:  # noqa: BLE001
                    r = type(e).__name__
                dev.respond = respond
                for j in (0, 1, 31, 32, 33, 39):
                    ref = landev.v3_enc_packet(skey, frames40[j], 0)
                    res = {"k": "raise", "exc": r} if isinstance(r, str) else ({"k": "frame", "f": B(r[j])} if j < len(r) else {"k": "raise", "exc": "nothing (response %d of 40 not returned)" % (j + 1)})
                    vectors.append({"kind": "decresp", "payload": B(frames40[j]), "ctr": 0, "p": B(ref), "o": v3_oracle(skey, ref), "res": res, "via": f"LAN.send, response {j + 1} of 40 in one segment"})
            else:
                skey = dev.sess[net.conns[-1].cid]["key"]
                payload = landev.v2_wrap(f, 81)
                pk = landev.v3_enc_packet(skey, payload, 9, 3, padbytes=rbytes(rng, 16))
                q = bytearray(pk)
                q[3] ^= 1 << rng.randrange(4)                     # one of the low four bits of the size field
                q = bytes(q)
                tail = landev.v3_enc_packet(skey, landev.v2_wrap(rbytes(rng, 20), 81), 10)

                def respondq(tr, packets, q=q, tail=tail):
                    if packets[0][5] & 0xF == 1:
                        return respond(tr, packets)
                    loop.call_later(0.001, tr.feed, q + tail)
                dev.respond = respondq
                try:
                    r = await l.send(f, retries=1)
                    res = {"k": "frame", "f": B(r[-1]) if r else []}
                except Exception as e:  # noqa: BLE001
                    res = {"k": "raise", "exc": type(e).__name__}
                dev.respond = respond
                vectors.append({"kind": "mutant", "mut": [3, -1], "payload": B(payload), "ctr": 9, "orig": B(pk), "oo": v3_oracle(skey, pk),
                                "q": B(q), "o": v3_oracle(skey, q), "o2": v2_oracle(_hs_or_frame(q, skey)), "res": res, "res2": res,
                                "via": "LAN.send, size-field bit altered in a response followed by another packet in the same segment"})
            await asyncio.sleep(3)
            if l._protocol:
                l._disconnect()
        # straddling the key lifetime
        for k in range(ctx.pick(4, 30)):
            l = LAN("10.0.0.1", 6444, 79)
            f = rbytes(rng, rng.choice([1, 20, 34]))
            await l.authenticate(tok, key)
            skey = dev.sess[net.conns[-1].cid]["key"]

            def respond_late(tr, packets, k=k):
                if packets[0][5] & 0xF == 1:
                    for q in packets:
                        loop.call_soon(tr.feed, q)
                    return
                vloop.VClock.offset += 12 * 3600 - (0.2 if k % 2 else -5)      # the 12 h since the handshake run out while the reply is on its way (or just do not)
                for q in packets:
                    loop.call_at(loop.time() + 0.5, tr.feed, q)
            dev.respond = respond_late
            try:
                r = await l.send(f, retries=1)
                res = {"k": "frame", "f": B(r[0]) if r else []}
            except Exception as e:  # noqa: BLE001 - code under test
                res = {"k": "raise", "exc": type(e).__name__}
            dev.respond = respond
            ref = landev.v3_enc_packet(skey, f, 0)
            vectors.append({"kind": "decresp", "payload": B(f), "ctr": 0, "p": B(ref), "o": v3_oracle(skey, ref), "res": res,
                            "via": "LAN.send, request sent under a valid key, response arriving " + ("just before" if k % 2 else "after") + " the end of the key's 12 h lifetime"})
            if l._protocol:
                l._disconnect()
    vloop.run(loop, go3())
    return vectors


def _hs_or_frame(q, key):
    """payload the read path hands to the V2 decoder according to the reference V3 parser (for the V2 oracle)."""
    if len(q) >= 8 and (q[5] & 0xF) == 1:
        return q[8:]
    d = landev.v3_dec_packet(key, q)
    return d.get("payload", b"")


def judge(ctx, vectors, canaries=True):
    cans = []
    if canaries:
        e = next(v for v in vectors if v["kind"] == "encreq" and len(v["payload"]) == 14)   # pad 0
        c = dict(e, ctr=(e["ctr"] + 1) % 4096)
        cans.append(c)
        d = next(v for v in vectors if v["kind"] == "decresp" and len(v["payload"]) == 30)
        cans.append(dict(d, res={"k": "frame", "f": []}))
        m = next(v for v in vectors if v["kind"] == "mutant")
        cans.append(dict(m, res={"k": "frame", "f": m["payload"]}, res2={"k": "frame", "f": m["payload"]}))
    rej = ctx.validate_vectors("Trace_V3", vectors + cans, heap="4g")
    n = len(vectors)
    if len({i for i, _ in rej if i >= n}) != len(cans):
        from ..tlc import MachineryError
        ctx.defer_machinery("Trace_V3 accepted a canary")
    ctx.extra["canaries_rejected"] = len(cans)
    for i, clause in rej:
        if i < n:
            v = vectors[i]
            small = {k: v[k] for k in v if k not in ("o", "oo", "o2")}
            ctx.violation(f"V3 {v['kind']} ({len(v['payload'])}-byte payload)" + (f" via {v['via']}" if v.get("via") else ""), clause, small)


def run(ctx: Ctx) -> int:
    ctx.mc("MC_V3", "INIT Init\nNEXT Next\nINVARIANT RoundTrip\nINVARIANT Tamper\nCONSTANT Full = %s\n" % ("FALSE" if ctx.quick else "TRUE"), timeout=1800)
    vectors = collect(ctx)
    for v in vectors:
        ctx.count_distinct((v["kind"], bytes(v.get("q", v.get("p", v["res"].get("f", []))))))
    judge(ctx, vectors)
    e = next(v for v in vectors if v["kind"] == "encreq" and len(v["payload"]) == 14)
    ctx.sample({"kind": "encreq", "payload": bytes(e["payload"]).hex(), "ctr": e["ctr"], "packet": bytes(e["res"].get("f", [])).hex()})
    return ctx.finish(
        rule="requests: every payload length 0..300 under one key, 16 pad residues x several random keys, counters 0..4095; responses "
             "from the independent implementation for every length 0..300; every single-bit flip of header, ciphertext and tag of "
             "responses covering the pad residues through the library's read path; wire bytes/results of LAN.send on an authenticated "
             "connection; distinct = distinct packets",
        assumptions=["pad bytes unconstrained (DESIGN 6.1 F1)", "AES-CBC/SHA-256 evaluated by harness/refcrypto.py on spans the spec re-derives"])


def replay(ctx: Ctx, path: str) -> int:
    import json
    c = json.load(open(path))["case"]
    ctx.notes.append("replay re-runs the quick collection and reports violations with the same kind/payload length")
    vectors = [v for v in collect(ctx) if v["kind"] == c["kind"] and len(v["payload"]) == len(c["payload"])]
    judge(ctx, vectors, canaries=False)
    return ctx.finish(rule="replay: all vectors of the recorded kind and payload length")
