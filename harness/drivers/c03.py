"""C03 - V2 packet integrity: altered or truncated packets are rejected, never mis-decoded.

(a) TLC MC_V2 (Tamper): under a model MAC that detects single-bit errors every single-bit flip and every truncation of
    authentic packets is an error for the V2Decode decision procedure (length-field arithmetic included).
(c) real code: _Packet.decode (and, sampled, LAN.send) on every single-bit flip, every truncation, byte substitutions and
    random multi-byte corruptions of authentic packets; TLC (Trace_V2 "mutant") validates the original, the mutation and
    decides the required outcome with V2Decode on reference-evaluated primitives.
"""
from __future__ import annotations

from ..common import B, Ctx
from .. import vloop, acdev, landev
from ..v2vec import v2_oracle, result_of


def mutants(ctx: Ctx, p: bytes, full: bool):
    rng = ctx.rng
    n = len(p)
    out = []
    positions = range(n) if full else sorted(set(list(range(0, 44)) + list(range(n - 20, n)) + rng.sample(range(n), min(n, 60))))
    for pos in positions:
        for bit in range(8):
            q = bytearray(p)
            q[pos] ^= 1 << bit
            out.append(("flip", pos, bit, bytes(q)))
    for ln in (range(n) if full else sorted(set(list(range(0, 60)) + list(range(n - 20, n)) + rng.sample(range(n), min(n, 40))))):
        out.append(("trunc", ln, 0, p[:ln]))
    nsub = ctx.pick(8, 255) if full else 3
    for pos in positions:
        vals = [x for x in range(256) if x != p[pos]]
        if nsub < 255:
            vals = sorted(set(rng.sample(vals, nsub - 2) + [x for x in (0xAA, 0x5A) if x != p[pos]]))
        for v in vals:
            q = bytearray(p)
            q[pos] = v
            out.append(("sub", pos, v, bytes(q)))
    for _ in range(ctx.pick(60, 2000)):
        q = bytearray(p)
        for _ in range(rng.randint(2, 6)):
            q[rng.randrange(n)] = rng.randrange(256)
        if bytes(q) != p:
            out.append(("multi", 0, 0, bytes(q)))
    # the length field set to small values (0..8) and to the values around the real length
    for v in list(range(0, 9)) + [n - 1, n + 1, n - 16, n + 16, 56]:
        if 0 <= v < 65536 and v != n:
            q = bytearray(p)
            q[4:6] = v.to_bytes(2, "little")
            out.append(("multi", 4, v & 0xFF, bytes(q)))
    # whole fields blanked (zero-filled / 0xFF-filled): the signature, the header tail, the payload - alone and with one more payload bit altered
    for a, b in ((n - 16, n), (6, 40), (40, n - 16), (20, 28), (0, n)):
        for fill in (0x00, 0xFF):
            q = bytearray(p)
            q[a:b] = bytes([fill]) * (b - a)
            if bytes(q) != p:
                out.append(("multi", a, fill, bytes(q)))
                if b - a < n and n - 16 > 40:
                    q2 = bytearray(q)
                    q2[40 + rng.randrange(n - 56)] ^= 1 << rng.randrange(8)
                    out.append(("multi", a, fill, bytes(q2)))
    return out


def collect(ctx: Ctx):
    from msmart.lan import _Packet, LAN
    vloop.install_clock()
    rng = ctx.rng
    vectors = []
    lens_full = [0, 1, 15, 16, 17, 34]
    lens_sampled = [255, 48] if ctx.quick else []
    if not ctx.quick:
        lens_full += [48]
    origs = []
    for n in lens_full + lens_sampled + ([255] if not ctx.quick else []):
        f = bytes(rng.randrange(256) for _ in range(n))
        devid = rng.getrandbits(64)
        ts = bytes(rng.randrange(256) for _ in range(8))
        p = landev.v2_wrap(f, devid, ts)
        origs.append((f, devid, p))
        oo = v2_oracle(p)
        full = (n in lens_full) or (not ctx.quick and n == 255)
        if n == 255 and not ctx.quick:
            ms = mutants(ctx, p, True)
        else:
            ms = mutants(ctx, p, full)
        for j, (kind, a, b, q) in enumerate(ms):
            if j % 2 == 0:
                # history: the authentic packet is received (and must decode) immediately before its altered copy
                pre = result_of(_Packet.decode, p)
                if pre != {"k": "frame", "f": B(f)}:
                    vectors.append({"kind": "decode", "frame": B(f), "devid": B(devid.to_bytes(8, "little")), "p": B(p), "o": oo,
                                    "res": pre, "mut": ["authentic", 0, 0], "orig": B(p), "q": B(p)})
            vectors.append({"kind": "mutant", "mut": [kind, a, b], "frame": B(f), "devid": B(devid.to_bytes(8, "little")),
                            "orig": B(p), "oo": oo, "q": B(q), "o": v2_oracle(q), "res": result_of(_Packet.decode, q)})
    # sampled: the corrupted packet as the device's reply to LAN.send
    loop = vloop.new_loop()
    net = vloop.Net(loop)
    state = {}

    def on_bytes(tr, data):
        loop.call_soon(tr.feed, state["reply"])
    net.on_bytes = on_bytes
    sample = rng.sample(vectors, ctx.pick(300, 4000))
    # every truncation length of two originals reaches the transport too (the framing layer sees what _Packet.decode never does)
    for f0 in {bytes(v["frame"]) for v in vectors if v["kind"] == "mutant" and len(v["frame"]) in (1, 34)}:
        sample += [v for v in vectors if v["kind"] == "mutant" and v["mut"][0] == "trunc" and bytes(v["frame"]) == f0 and (ctx.quick is False or v["mut"][1] < 48 or v["mut"][1] % 5 == 0)]
    via = []

    import logging
    lg = logging.getLogger("msmart")

    async def go():
        for vi, v in enumerate(sample):
            dbg = vi % 2 == 1                    # every second one with the library's debug logging switched on (as `msmart-ng --debug` does)
            if dbg:
                logging.disable(logging.NOTSET)
                lg.setLevel(logging.DEBUG)
                lg.propagate = False
                if not lg.handlers:
                    lg.addHandler(logging.NullHandler())
            else:
                lg.setLevel(logging.NOTSET)
                lg.propagate = True
                logging.disable(logging.CRITICAL)
            l = LAN("10.0.0.1", 6444, 1)
            if len(via) % 2 == 0 and v["mut"][0] != "authentic":
                state["reply"] = bytes(v["orig"])      # an authentic exchange first, on the same connection
                try:
                    await l.send(b"\xaa\x01", retries=1)
                except Exception:  # noqa: BLE001
                    pass
            state["reply"] = bytes(v["q"])
            try:
                r = await l.send(b"\xaa\x01", retries=1)
                res = {"k": "frame", "f": B(r[0]) if r else []}
            except TimeoutError:
                res = {"k": "raise", "exc": "ProtocolError" if len(v["q"]) == 0 else "TimeoutError"}   # empty segment: nothing arrives
            except Exception as e:  # noqa: BLE001
                res = {"k": "raise", "exc": type(e).__name__}
            if len(v["q"]) > 0:
                via.append(dict(v, res=res, via="LAN.send"))
            if l._protocol:
                l._disconnect()

    vloop.run(loop, go())
    lg.setLevel(logging.NOTSET)
    lg.propagate = True
    logging.disable(logging.CRITICAL)
    # ... and _Packet.decode itself under debug logging, on every truncation and a sample of the other alterations
    logging.disable(logging.NOTSET)
    lg.setLevel(logging.DEBUG)
    lg.propagate = False
    if not lg.handlers:
        lg.addHandler(logging.NullHandler())
    try:
        for v in [x for x in vectors if x["kind"] == "mutant" and (x["mut"][0] == "trunc" or rng.random() < 0.05)]:
            via.append(dict(v, res=result_of(_Packet.decode, bytes(v["q"])), via="_Packet.decode with debug logging on"))
    finally:
        lg.setLevel(logging.NOTSET)
        lg.propagate = True
        logging.disable(logging.CRITICAL)
    return vectors + via + placements(ctx, vectors)


def self_delimiting(v):
    """Alterations that leave start marker and length field alone: the framer still sees one packet of the original size."""
    kind, a, b = v["mut"]
    return kind in ("flip", "sub") and a not in (0, 1, 4, 5) and len(v["q"]) == len(v["orig"])


def placements(ctx, vectors):
    """The altered packet at other places of the conversation than 'the reply':
       after   - right behind the authentic reply of the same exchange (read by the non-blocking drain)
       idle    - delivered while the client is idle on a live connection; the NEXT exchange meets it first
       v3      - carried inside a correctly encrypted and tagged V3 packet on an authenticated V3 session
    In every case the exchange that reads the altered packet must end in a protocol error."""
    from msmart.lan import LAN
    from .. import sched
    rng = ctx.rng
    cand = [v for v in vectors if v["kind"] == "mutant" and self_delimiting(v)]
    sample = rng.sample(cand, min(len(cand), ctx.pick(240, 3000)))
    out = []
    loop = vloop.new_loop()
    net = vloop.Net(loop)
    state = {"replies": []}

    def on_bytes(tr, data):
        for r in state["replies"]:
            loop.call_soon(tr.feed, r)
    net.on_bytes = on_bytes

    async def one(l, coro_replies):
        state["replies"] = coro_replies
        try:
            r = await l.send(b"\xaa\x01", retries=1)
            return {"k": "frame", "f": B(r[-1]) if r else []}
        except Exception as e:  # noqa: BLE001 - code under test
            return {"k": "raise", "exc": type(e).__name__}

    async def go():
        for k, v in enumerate(sample[: 2 * len(sample) // 3]):
            l = LAN("10.0.0.1", 6444, 1)
            orig, q = bytes(v["orig"]), bytes(v["q"])
            if k % 2 == 0:
                res = await one(l, [orig, q])                       # after
                mode = "after the authentic reply"
            else:
                await one(l, [orig])                                # a normal exchange, connection stays up
                net.conns[-1].feed(q)                               # idle
                res = await one(l, [orig])
                mode = "while idle, before the next exchange"
            out.append(dict(v, res=res, via="LAN.send, " + mode))
            if l._protocol:
                l._disconnect()
    vloop.run(loop, go())

    # the altered packet sharing a TCP segment with an authentic one, and a truncated packet left behind by an exchange
    head = [v for v in vectors if v["kind"] == "mutant" and ((v["mut"][0] in ("flip", "sub") and v["mut"][1] < 6) or (v["mut"][0] == "multi" and v["mut"][1] == 4))]
    trunc = [v for v in vectors if v["kind"] == "mutant" and v["mut"][0] == "trunc" and 0 < len(v["q"]) < len(v["orig"])]
    anym = [v for v in vectors if v["kind"] == "mutant" and v["mut"][0] != "trunc" and len(v["q"]) > 0]
    n2 = ctx.pick(60, 800)
    coal = rng.sample(head, min(len(head), n2)) + rng.sample(anym, min(len(anym), n2)) + rng.sample(trunc, min(len(trunc), n2))
    tails = rng.sample(trunc, min(len(trunc), n2)) + [v for v in trunc if len(v["q"]) <= 8][:40]

    async def go2():
        for k, v in enumerate(coal + tails):
            l = LAN("10.0.0.1", 6444, 1)
            orig, q = bytes(v["orig"]), bytes(v["q"])
            if v["mut"][0] == "trunc" and (q + orig)[:len(orig)] == orig:
                continue          # the bytes that follow happen to complete the cut-off packet exactly (its last byte = 0x5A): the stream then CONTAINS the authentic packet
            if k >= len(coal) or (k % 2 == 1 and q[:2] == b"\x5a\x5a"):
                # (F14: bytes behind a complete packet in the same segment that do not begin with the start marker are line noise to the framer and
                #  are dropped, as upstream always did - so a packet whose marker was altered is only placed IN FRONT of an authentic one)
                # exchange 1 is answered by the authentic packet with the altered / cut-off one behind it in the SAME segment (or, for tails, the
                # next one); exchange 2 by an authentic packet.  The alteration has to surface as a protocol error in one of the two exchanges.
                res = await one(l, [orig + q] if k < len(coal) else [orig, q])
                mode = "behind the authentic reply in one segment, then a second exchange" if k < len(coal) else "cut-off packet behind the authentic reply, then a second exchange"
                if res["k"] == "frame":
                    res = await one(l, [orig]) if l._protocol else res
            else:
                res = await one(l, [q + orig])
                mode = "in front of an authentic packet in one segment"
            out.append(dict(v, res=res, via="LAN.send, " + mode))
            if l._protocol:
                l._disconnect()
    vloop.run(loop, go2())

    # with the default retry budget: the FIRST transmission is answered with the altered packet, any retransmission with the authentic one.
    # The alteration is not a lost packet: it must surface as a protocol error, it is not papered over by a resend
    seq = {"n": 0, "q": b"", "orig": b""}

    def on_bytes3(tr, data):
        seq["n"] += 1
        loop.call_soon(tr.feed, seq["q"] if seq["n"] == 1 else seq["orig"])
    net.on_bytes = on_bytes3
    rs = rng.sample(anym + trunc, min(len(anym) + len(trunc), ctx.pick(80, 1200)))

    async def go3():
        for v in rs:
            l = LAN("10.0.0.1", 6444, 1)
            seq.update(n=0, q=bytes(v["q"]), orig=bytes(v["orig"]))
            try:
                r = await l.send(b"\xaa\x01")                    # default retries
                res = {"k": "frame", "f": B(r[-1]) if r else []}
            except Exception as e:  # noqa: BLE001 - code under test
                res = {"k": "raise", "exc": type(e).__name__}
            out.append(dict(v, res=res, via="LAN.send with the default retry budget, altered reply to the first transmission, authentic replies afterwards"))
            if l._protocol:
                l._disconnect()
    vloop.run(loop, go3())

    # one client object with a history: an authentic packet decoded, an altered one rejected, then the SAME altered packet once more
    seq4 = {"reply": b""}

    def on_bytes4(tr, data):
        loop.call_later(0.0005, tr.feed, seq4["reply"])
    net.on_bytes = on_bytes4

    async def go4():
        for v in rng.sample(anym, min(len(anym), ctx.pick(40, 600))):
            l = LAN("10.0.0.1", 6444, 1)
            res = None
            for step, rep in enumerate((bytes(v["orig"]), bytes(v["q"]), bytes(v["q"]))):
                seq4["reply"] = rep
                try:
                    r = await l.send(b"\xaa\x01", retries=1)
                    res = {"k": "frame", "f": B(r[-1]) if r else []}
                except Exception as e:  # noqa: BLE001 - code under test
                    res = {"k": "raise", "exc": type(e).__name__}
            out.append(dict(v, res=res, via="LAN.send, the same altered packet a second time on a client that decoded the authentic one before"))
            if l._protocol:
                l._disconnect()
    vloop.run(loop, go4())
    net.on_bytes = on_bytes
    # inside a valid V3 packet
    s = sched.Session(version=3, retries=1, seed=ctx.seed)
    try:
        s.call_auth("good")
        s.settle()
        for v in sample[2 * len(sample) // 3:]:
            if s.lan._protocol is None or not s.lan._protocol.authenticated:
                s.call_send()
                s.settle()                                           # brings a fresh, authenticated connection up
            key = s.dev.sess[len(s.net.conns) - 1]["key"]
            pkt = landev.v3_enc_packet(key, bytes(v["q"]), 5)
            r = "raw:" + pkt.hex()
            s.call_send(reply=r)
            e = s.settle(data=r)
            res = {"k": "frame", "f": B(s.last_frames[-1]) if getattr(s, "last_frames", None) else []} if e["r"] == "frames" else \
                  {"k": "raise", "exc": {"proto": "ProtocolError", "timeout": "TimeoutError", "auth": "AuthenticationError"}.get(e["r"], e["r"])}
            out.append(dict(v, res=res, via="LAN.send, inside a valid V3 packet"))
    finally:
        s.close()
    return out


def judge(ctx, vectors, canaries=True):
    cans = []
    if canaries:
        m = next(v for v in vectors if v["mut"][0] == "flip" and v["mut"][1] == 50)
        cans.append(dict(m, res={"k": "frame", "f": m["frame"]}))            # altered payload "decoded" to the original frame
        cans.append(dict(m, res={"k": "raise", "exc": "ValueError"}))        # wrong exception class
        cans.append(dict(m, q=m["orig"], o=m["oo"]))                          # not a mutation
    rej = ctx.validate_vectors("Trace_V2", vectors + cans, heap="4g")
    n = len(vectors)
    if len({i for i, _ in rej if i >= n}) != len(cans):
        from ..tlc import MachineryError
        ctx.defer_machinery("Trace_V2 accepted a canary")
    ctx.extra["canaries_rejected"] = len(cans)
    for i, clause in rej:
        if i < n:
            v = vectors[i]
            ctx.violation(f"{v['mut'][0]} at {v['mut'][1]} ({v['mut'][2]}) of a packet carrying a {len(v['frame'])}-byte frame"
                          + ((" via " + v["via"]) if v.get("via") else ""), clause,
                          {"mut": v["mut"], "frame": v["frame"], "orig": v["orig"], "q": v["q"], "res": v["res"], "via": v.get("via", "")})


def run(ctx: Ctx) -> int:
    ctx.mc("MC_V2", "INIT Init\nNEXT Next\nINVARIANT RoundTrip\nINVARIANT Tamper\nCONSTANT Full = %s\n" % ("FALSE" if ctx.quick else "TRUE"),
           timeout=1800)
    vectors = collect(ctx)
    for v in vectors:
        ctx.count_distinct((bytes(v["q"]), v.get("via", "")))
    judge(ctx, vectors)
    ctx.sample({"mutation": vectors[0]["mut"], "orig": bytes(vectors[0]["orig"]).hex(), "altered": bytes(vectors[0]["q"]).hex(), "result": vectors[0]["res"]})
    return ctx.finish(
        rule="authentic packets for frame lengths 0,1,15,16,17,34 (+48,255): every single-bit flip at every position, every truncation "
             "length, byte substitutions (quick 8 values, thorough all 255), random multi-byte corruptions, fed to _Packet.decode and "
             "(sampled) delivered through LAN.send as the reply, right behind an authentic reply, while idle before the next exchange, sharing a TCP segment with an authentic packet (in front / behind), as a cut-off packet left behind by an exchange, and inside a valid V3 packet; every truncation length also at transport level; distinct = distinct altered byte strings (x entry point)",
        assumptions=["MD5 collisions are not considered: the reference MD5 of the altered packet decides whether a mutant is acceptable"])


def replay(ctx: Ctx, path: str) -> int:
    import json
    from msmart.lan import _Packet
    c = json.load(open(path))["case"]
    f, p, q = bytes(c["frame"]), bytes(c["orig"]), bytes(c["q"])
    devid = p[20:28]
    v = {"kind": "mutant", "mut": c["mut"], "frame": B(f), "devid": B(devid), "orig": B(p), "oo": v2_oracle(p), "q": B(q),
         "o": v2_oracle(q), "res": result_of(_Packet.decode, q)}
    judge(ctx, [v], canaries=False)
    return ctx.finish(rule="replay of one recorded altered packet through _Packet.decode")
