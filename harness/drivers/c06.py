"""C06 - V3 handshake: key agreement when the reply is genuine, sound rejection otherwise.

(a) TLC explores spec/LanSession.tla with every handshake reply class (valid, forged, error packet, other packet type, encrypted
    packet, silence) on first authentication, re-authentication after the 12 h expiry and explicit re-authentication of a live
    session, with good and unknown credentials; invariant: no C06 clause of spec/SessionMon.tla is ever violated.
(b) TLC-generated behaviours (authentication-centred) are replayed into the real LAN object.
(c) data-level sweep on the real code through Device.authenticate (and LAN.authenticate): for random 64-byte tokens / 32-byte keys
    (bytes and hex-string form) and device nonces: the genuine reply, every single-bit flip of the 64-byte reply, every reply length
    0..96, every other packet type nibble, a reply under a different key, an error packet, silence.  The recorded events carry
    reference-evaluated observations (type nibble, length, SHA-256 proof under the presented key); TLC (Trace_Mon!Ev) decides from
    them whether the reply was genuine and judges every C06 clause at every event: outcome class, stored token/key before/after,
    everything the device received, and whether the following send is accepted by the device.
"""
from __future__ import annotations

import copy
import random

from ..common import Ctx
from ..tlc import MachineryError
from .. import session, sched

PID = "C06"


def creds(rng):
    return (bytes(rng.randrange(256) for _ in range(64)), bytes(rng.randrange(256) for _ in range(32)),
            bytes(rng.randrange(256) for _ in range(64)), bytes(rng.randrange(256) for _ in range(32)))


def scenario(kind, cls, *, seed, hexform, level, rng):
    """One authentication scenario on a fresh client.  kind: first | expired | stored | live | genuine."""
    s = sched.Session(version=3, retries=3, seed=seed, target="ac", creds=creds(rng))
    try:
        if kind in ("expired", "stored", "live", "implicit_expired", "implicit_closed"):
            s.call_auth("good", hexform=hexform, level=level)
            s.settle()
            s.call_send()
            s.settle()
        if kind in ("expired", "implicit_expired"):
            s.jumpauth()
        if kind == "implicit_closed":
            s.peerclose()
        if kind.startswith("implicit"):
            # the next command re-authenticates on its own with the stored credentials; the reply to THAT handshake is the one under test
            s.call_send()
            s.settle(hs=cls)
            s.call_send()
            s.settle()
            s.call_send()
            s.settle()
            return {"events": s.trace, "steps": s.steps, "kind": kind, "cls": cls, "hex": hexform, "level": level}
        if kind == "genuine":
            if seed % 2:
                # the unit's random value shares its leading byte(s) with the key: the negotiated session key starts with zero byte(s)
                nz = 1 + (seed // 2) % 3
                s.dev.nonce_hook = lambda n, nz=nz, k=s.key_good: bytes(k[:nz]) + bytes(n[nz:])
            s.call_auth("good", hexform=hexform, level=level)
            s.settle()
            s.dev.nonce_hook = None
        elif kind == "stored":
            s.call_auth("bad", hexform=hexform, level=level, reply=cls)       # credentials the device does not know: error packet or silence
            s.settle(hs=cls)
        else:
            s.call_auth("good", hexform=hexform, level=level, reply=cls)
            s.settle(hs=cls)
        # what does the session look like afterwards?  one exchange, then one more with a prompt device
        s.call_send()
        s.settle()
        s.call_send()
        s.settle()
    finally:
        s.close()
    return {"events": s.trace, "steps": s.steps, "kind": kind, "cls": cls, "hex": hexform, "level": level}


def sweep(ctx: Ctx):
    rng = ctx.rng
    q = ctx.quick
    plan = []
    flips = [f"flip:{b}" for b in range(512)]
    lens = [f"len:{n}" for n in range(0, 97) if n != 64]
    types = [f"type:{t}" for t in range(16) if t != 1]
    others = ["otherkey", "error", "none", "enc", "encold", "garbage", "long", "short"]
    lentypes = [f"lentype:{64 + n}:{n}" for n in range(1, 16)] + [f"lentype:{64 + n}:{h}" for n, h in ((1, 2), (16, 1), (32, 2), (5, 15), (0, 5), (0, 15))]
    cuts = [f"cut:{n}" for n in range(1, 72)]
    for cls in flips + lens + types + others + lentypes + cuts:
        plan.append(("first", cls))
    for cls in (rng.sample(flips, 24) if q else flips) + (rng.sample(lens, 12) if q else lens) + types + others + (rng.sample(lentypes, 6) if q else lentypes) + (rng.sample(cuts, 8) if q else cuts):
        plan.append((rng.choice(["implicit_expired", "implicit_closed"]), cls))
    splits = [f"split:{n}" for n in range(1, 72)]
    for cls in (sorted(set(rng.sample(splits, 20) + ["split:1", "split:2", "split:7", "split:8", "split:9", "split:40", "split:71"])) if q else splits):
        plan.append((rng.choice(["first", "first", "expired", "live", "implicit_expired", "implicit_closed"]), cls))
        if cls == "split:1":
            plan.append(("first", cls))
    for cls in (rng.sample(flips, 48) if q else flips) + (rng.sample(lens, 24) if q else lens) + types + others + (rng.sample(lentypes, 5) if q else lentypes) + (rng.sample(cuts, 10) if q else cuts):
        plan.append(("expired", cls))
        if not q or rng.random() < 0.4:
            plan.append(("live", cls))
    for cls in ["error", "none"] * (3 if q else 20) + (rng.sample(cuts, 4) if q else cuts):
        plan.append(("stored", cls))
    for _ in range(ctx.pick(60, 1500)):
        plan.append(("genuine", "valid"))
    if not q:
        for _ in range(6000):
            plan.append((rng.choice(["first", "expired", "live"]), rng.choice(flips + lens + types + others)))
    runs = []
    for i, (kind, cls) in enumerate(plan):
        runs.append(scenario(kind, cls, seed=ctx.seed * 1000003 + i, hexform=[False, "both", "token", "key"][i % 4], level="dev" if i % 3 else "lan", rng=rng))
    return runs


def canaries(runs):
    out = []
    r = next(r for r in runs if r["kind"] == "first" and r["cls"].startswith("flip:"))
    ev = copy.deepcopy(r["events"])
    k = next(i for i, e in enumerate(ev) if e["e"] == "ret" and e["op"] == "auth")
    ev[k]["r"], ev[k]["stored"] = "authok", "good"                    # forged reply, yet authentication "succeeded"
    out.append(("accepted-forgery", ev[:k + 1]))
    ev = copy.deepcopy(r["events"])
    ev[k]["stored"] = "other"                                           # failure, but the stored credentials changed
    out.append(("stored-replaced", ev[:k + 1]))
    r = next(r for r in runs if r["kind"] == "expired" and r["cls"].startswith("flip:"))
    ev = copy.deepcopy(r["events"])
    k = next(i for i, e in enumerate(ev) if e["e"] == "jumpauth")
    k = next(i for i in range(k, len(ev)) if ev[i]["e"] == "ret" and ev[i]["op"] == "auth")
    j = next(i for i in range(k, len(ev)) if ev[i]["e"] == "tx" and ev[i]["t"] == "HS")
    d = next(i for i in range(j, len(ev)) if ev[i]["e"] == "deliver")
    ctr = ev[j]["ctr"]
    del ev[d], ev[j]                                                    # the send after the failed re-authentication goes out without a handshake
    for x in ev[j:]:
        if x["e"] == "tx":
            x["ctr"], ctr = ctr, (ctr + 1) % 4096
    out.append(("stays-authenticated", ev))
    r = next(r for r in runs if r["kind"] == "genuine")
    ev = copy.deepcopy(r["events"])
    k = next(i for i, e in enumerate(ev) if e["e"] == "ret" and e["op"] == "auth")
    ev[k]["r"] = "auth"                                                 # genuine reply rejected ... then the prompt device is not usable
    ev[k]["stored"] = "none"
    out.append(("genuine-rejected", ev[:k + 1]))
    return out


def judge(ctx, runs, name, devlevel_split=True):
    for lvl in ("dev", "lan"):
        sub = [r for r in runs if r.get("level", "lan") == lvl]
        if sub:
            session.validate(ctx, sub, ver=3, retries=3, name=f"{name}_{lvl}", what=f"authentication scenario ({lvl} level)",
                             conformance=False, devlevel=(lvl == "dev"))


def run(ctx: Ctx) -> int:
    q = ctx.quick
    session.clause_reachability(ctx, "C06")
    session.mc(ctx, 3, 2, name="C06_mc_v3_allhs", calls=2, hs="HSAll", data="DataSome", coverage=True)
    if not q:
        session.mc(ctx, 3, 2, name="C06_mc_v3_c3", calls=3, hs="HSAll", data="DataSome", keys=4, timeout=3400, heap="12g")
        session.mc(ctx, 3, 3, name="C06_mc_v3_r3", calls=2, hs="HSAll", data="DataSome", hsretries=3)
    scn = session.gen(ctx, 3, 2, name="C06_gen_sim", calls=3, keys=4, simulate=f"num={ctx.pick(300, 6000)}", depth=60, seed=ctx.seed + 11,
                      hs="HSAll", data="DataSome", hsretries=3, timeout=3000)
    runs = [session.replay(s, ver=3, retries=2, seed=ctx.seed * 31337 + i) for i, s in enumerate(scn)]
    session.validate(ctx, runs, ver=3, retries=2, name="C06_sim", what="TLC-simulated behaviour replayed into LAN")
    ctx.extra["tlc_generated_scenarios"] = len(scn)
    sw = sweep(ctx)
    judge(ctx, sw, "C06_sweep")
    for r in sw:
        ctx.count_distinct((r["kind"], r["cls"], r["hex"], r["level"]))
    cans = canaries(sw)
    bad = ctx.validate_chains("Trace_Mon", [{"events": c} for _, c in cans], name="C06_canary",
                              consts='CONSTANTS\nRetries = 3\nVer = 3\nCtrMod = 65536\nHSRetries = 3\nDevLevel = TRUE\nFocus = "C06"\n')
    ctx.traces_validated -= len(cans) - len(bad)
    ctx.evaluations -= len(cans)
    want = {"accepted-forgery", "stored-replaced", "stays-authenticated", "genuine-rejected"}
    got = {k for i, (k, _) in enumerate(cans) if i in bad}
    if not want <= got:
        ctx.defer_machinery(f"the monitor accepted a canary: {want - got}")
    ctx.extra["canaries_rejected"] = {k: bad.get(i, "accepted (C08 clause, not C06)") for i, (k, _) in enumerate(cans)}
    kinds = {}
    for r in sw:
        kinds[r["kind"]] = kinds.get(r["kind"], 0) + 1
    ctx.extra["sweep"] = kinds
    ctx.sample({"kind": sw[0]["kind"], "reply": sw[0]["cls"], "events": sw[0]["events"][:8]})
    return ctx.finish(
        rule="LanSession model with all handshake reply classes; TLC-simulated 3-call behaviours replayed; real-code sweep: random 64-byte tokens / "
             "32-byte keys (bytes and hex form) and nonces x {first authentication, re-authentication after the 12 h expiry, explicit "
             "re-authentication of a live session, unknown credentials over stored ones, the re-authentication a send performs on its own after key expiry / "
             "a closed connection} x {all 512 single-bit flips, lengths 0..96, type nibbles 0..15, over-long replies with a pad count in the type byte, "
             "replies cut off by the transport after 1..71 bytes, the genuine reply delivered in two segments cut at 1..71, reply under another key, error packet, encrypted packet, silence} through Device.authenticate and LAN.authenticate, "
             "each followed by two exchanges with a prompt device; distinct = (situation, reply class, credential form, API level)",
        assumptions=["reading F12 (DESIGN 6.1): 'stays unauthenticated' binds handshakes begun unauthenticated; on a live session the forged reply "
                     "must not yield a new key or replace credentials",
                     "whether a reply is genuine is decided by the spec from reference-evaluated observations (type, length, SHA-256 proof)"])


def replay(ctx: Ctx, path: str) -> int:
    import json
    c = json.load(open(path))["case"]
    session.validate(ctx, [{"events": c["events"], "steps": []}], ver=3, retries=c.get("retries", 3), name="C06_replay", what="recorded events",
                     conformance=False, devlevel=False)
    return ctx.finish(rule="replay of one recorded execution")
