"""C02 - V2 packet codec interoperates: every frame and device id round-trips.

(a) TLC MC_V2 (RoundTrip): model cipher/MAC, every frame length 0..255: V2PacketClause holds and V2Decode returns the frame.
(c) real code: _Packet.encode / LAN.send wire bytes judged by V2PacketClause with reference-evaluated primitives;
    packets built by the independent implementation (validated by the same clause) fed to _Packet.decode / LAN.send.
"""
from __future__ import annotations

import asyncio

import datetime as dt

from ..common import B, Ctx
from .. import vloop, acdev, landev
from ..v2vec import v2_oracle, result_of

BOUNDARY_IDS = [0, 1, 255, 256, 65535, 65536, 2**24 - 1, 2**24, 2**32 - 1, 2**32, 2**40 - 1, 2**40, 2**47, 2**48 - 1, 2**48,
                2**56 - 1, 2**56, 2**63 - 1, 2**63, 2**64 - 1]


def frames(ctx: Ctx):
    rng = ctx.rng
    out = []
    for n in range(256):
        reps = ctx.pick(2, 12)
        for k in range(reps):
            c = k % 6
            if c == 0:
                f = bytes(rng.randrange(256) for _ in range(n))
            elif c == 1:
                f = bytes(n)
            elif c == 2:
                f = bytes([0x10]) * n
            elif c == 3:     # ends in something that looks like valid padding
                pad = rng.randint(1, 16)
                f = (bytes(rng.randrange(256) for _ in range(max(0, n - pad))) + bytes([pad]) * pad)[:n]
            else:
                f = bytes(rng.randrange(256) for _ in range(n))
            out.append(f)
        # the frame's own last byte(s) equal the PKCS#7 pad byte its length calls for (and, for n = 16k, a frame that is one full block of 0x10)
        pad = 16 - n % 16
        for rep in (1, 2, pad):
            if 0 < rep <= n:
                out.append(bytes(rng.randrange(256) for _ in range(n - rep)) + bytes([pad]) * rep)
    return out


def collect(ctx: Ctx):
    import msmart.lan as lan
    from msmart.lan import _Packet, LAN
    vloop.install_clock()
    loop = vloop.new_loop()
    rng = ctx.rng
    vectors = []
    clocks = [dt.datetime(2024, 3, 9, 7, 5, 3, 120000), dt.datetime(1999, 12, 31, 23, 59, 59, 999999), dt.datetime(2000, 1, 1, 0, 0, 0, 0),
              dt.datetime(2099, 12, 31, 23, 59, 59, 990000), dt.datetime(2038, 1, 19, 3, 14, 7, 5000), dt.datetime(2100, 2, 28, 12, 0, 0, 10000)]
    fs = frames(ctx)
    for k, f in enumerate(fs):
        devid = BOUNDARY_IDS[k % len(BOUNDARY_IDS)] if k % 3 else rng.getrandbits(64)
        vloop.VClock.base = clocks[k % len(clocks)]
        d8 = devid.to_bytes(8, "little")
        # library encodes
        res = result_of(_Packet.encode, devid, f)
        vectors.append({"kind": "encode", "frame": B(f), "devid": B(d8), "res": res,
                        "o": v2_oracle(bytes(res["f"])) if res["k"] == "frame" else v2_oracle(b"")})
        # independent implementation encodes, library decodes
        ts = bytes(rng.randrange(256) for _ in range(8))
        p = landev.v2_wrap(f, devid, ts)
        vectors.append({"kind": "decode", "frame": B(f), "devid": B(d8), "p": B(p), "o": v2_oracle(p),
                        "res": result_of(_Packet.decode, p)})
        if k % 7 == 0:      # trailing bytes after the declared length are ignored by a receiver honouring the length field
            extra = p + bytes(rng.randrange(256) for _ in range(rng.randint(1, 20)))
            vectors.append({"kind": "raw", "q": B(extra), "o": v2_oracle(extra), "res": result_of(_Packet.decode, extra), "frame": B(f)})
    vloop.VClock.base = clocks[0]
    # a long life: more than 65,536 packets encoded by one process; every one must be produced, a sample of them is judged
    n_long = ctx.pick(70000, 200000)
    f = bytes(rng.randrange(256) for _ in range(20))
    devid = rng.getrandbits(64)
    d8 = devid.to_bytes(8, "little")
    for k in range(n_long):
        if k in (0, 255, 256, 65534, 65535, 65536, 65537, n_long - 1) or k % 9973 == 0:
            res = result_of(_Packet.encode, devid, f)
            vectors.append({"kind": "encode", "frame": B(f), "devid": B(d8), "res": res, "o": v2_oracle(bytes(res.get("f", []))), "via": f"encode #{k} of one process"})
        else:
            try:
                _Packet.encode(devid, f)
            except Exception as e:  # noqa: BLE001 - code under test
                vectors.append({"kind": "encode", "frame": B(f), "devid": B(d8), "res": {"k": "raise", "exc": type(e).__name__}, "o": v2_oracle(b""),
                                "via": f"encode #{k} of one process"})
                break
    # through LAN.send on a V2 connection: wire bytes + returned frames
    net = vloop.Net(loop)
    wire = []

    class Echo(acdev.ACModel):
        def handle(self, fr):
            return [bytes(fr)[::-1]]      # arbitrary "response frame": the LAN layer does not interpret it

    dev = landev.LanDevice(loop, net, Echo(), version=2)
    dev._v2_orig = dev._v2

    drop = {"n": 0}

    def spy(tr, data):
        wire.append(bytes(data))
        if drop["n"] > 0:                  # the device misses this transmission: the library will retransmit after its read timeout
            drop["n"] -= 1
            return
        # the device answers whatever frame the REFERENCE parser finds, reversed
        o = landev.v2_unwrap(data)
        if o["ok"]:
            loop.call_later(0.0005, tr.feed, landev.v2_wrap(o["frame"][::-1], int.from_bytes(o["devid"], "little")))       # half a millisecond of latency
    net.on_bytes = spy

    def packet_shaped(n):
        return b"\x5a\x5a\x01\x11" + n.to_bytes(2, "little") + bytes(rng.randrange(256) for _ in range(n - 6))

    async def go():
        shaped = {6: packet_shaped(6), 8: packet_shaped(8), 16: packet_shaped(16), 56: packet_shaped(56), 104: landev.v2_wrap(b"\xaa\x02" * 20, 0xC0FFEE), 255: packet_shaped(255)}
        for n, sh in [(n, False) for n in range(0, 256, ctx.pick(5, 1))] + [(n, True) for n in sorted(shaped)]:
            f = bytes(rng.randrange(256) for _ in range(n))
            if sh:
                f = shaped[n]                     # a frame that LOOKS like a packet (start marker, own length in the length field): it is a frame all the same
            devid = rng.choice(BOUNDARY_IDS + [rng.getrandbits(64)])
            l = LAN("10.0.0.1", 6444, devid)
            wire.clear()
            lost = (n // ctx.pick(5, 1)) % 4 if n % 2 == 0 else 0       # 0..3 transmissions go unanswered (3 = the whole budget)
            drop["n"] = lost
            try:
                resp = await l.send(f, retries=3 if lost else 1)
                res = {"k": "frame", "f": B(resp[0]) if resp else []}
                nresp = len(resp)
            except Exception as e:  # noqa: BLE001
                res = {"k": "raise", "exc": type(e).__name__}
                nresp = 0
            d8 = devid.to_bytes(8, "little")
            w = wire[0] if wire else b""
            vectors.append({"kind": "encode", "frame": B(f), "devid": B(d8), "res": {"k": "frame", "f": B(w)}, "o": v2_oracle(w), "via": "LAN.send"})
            for j, wj in enumerate(wire[1:]):      # every retransmission must be the same frame in a well-formed packet, too
                vectors.append({"kind": "encode", "frame": B(f), "devid": B(d8), "res": {"k": "frame", "f": B(wj)}, "o": v2_oracle(wj),
                                "via": f"LAN.send retransmission {j + 1}"})
            drop["n"] = 0
            if lost < 3:
                back = landev.v2_wrap(f[::-1], devid)
                vectors.append({"kind": "decode", "frame": B(f[::-1]), "devid": B(d8), "p": B(back), "o": v2_oracle(back), "res": res,
                                "via": "LAN.send", "nresp": nresp})
            if l._protocol:
                l._disconnect()

    vloop.run(loop, go())

    # multi-packet replies: every packet of the reply - whatever its frame length, the legal empty frame included, at whatever position -
    # is decoded and handed back, in order (separate segments / one coalesced segment; also a packet already waiting when the next send starts)
    multi = {"frames": []}

    def spy2(tr, data):
        o = landev.v2_unwrap(data)
        if o["ok"]:
            pk = [landev.v2_wrap(fr, int.from_bytes(o["devid"], "little")) for fr in multi["frames"]]
            if multi["coalesce"]:
                loop.call_soon(tr.feed, b"".join(pk))
            else:
                for q in pk:
                    loop.call_soon(tr.feed, q)
    net.on_bytes = spy2

    async def go2():
        lens = [0, 1, 15, 16, 17, 34]
        for k in range(ctx.pick(60, 600)):
            devid = rng.getrandbits(64)
            d8 = devid.to_bytes(8, "little")
            nf = rng.choice([2, 2, 3, 4])
            fl = [rng.choice(lens + [0, 0, rng.randrange(256)]) for _ in range(nf)]
            if k < 12:
                fl = [[0, 20], [20, 0], [20, 0, 20], [0, 0], [20, 0, 0, 20], [16, 0, 1]][k % 6]
            multi["frames"] = [bytes(rng.randrange(256) for _ in range(n)) for n in fl]
            multi["coalesce"] = k % 3 == 2
            waiting = k % 4 == 1
            l = LAN("10.0.0.1", 6444, devid)
            try:
                if waiting:
                    # first exchange answered by packet 1 only; the others arrive while the client is idle and are met by the next send
                    first, rest = multi["frames"][:1], multi["frames"][1:]
                    multi["frames"], multi["coalesce"] = first, False
                    r1 = list(await l.send(b"\xaa\x01", retries=1))
                    for q in rest:
                        net.conns[-1].feed(landev.v2_wrap(q, devid))
                    multi["frames"] = [b"\xbb\x02"]
                    r2 = list(await l.send(b"\xaa\x02", retries=1))
                    got_list, exp_list = r1 + r2, first + rest + [b"\xbb\x02"]
                else:
                    got_list = list(await l.send(b"\xaa\x01", retries=1))
                    exp_list = list(multi["frames"])
            except Exception as e:  # noqa: BLE001 - code under test
                got_list, exp_list = type(e).__name__, list(multi["frames"])
            for j, fr in enumerate(exp_list):
                back = landev.v2_wrap(fr, devid)
                if isinstance(got_list, str):
                    res = {"k": "raise", "exc": got_list}
                elif j < len(got_list):
                    res = {"k": "frame", "f": B(got_list[j])}
                else:
                    res = {"k": "raise", "exc": "nothing (frame %d of %d not returned)" % (j + 1, len(exp_list))}
                vectors.append({"kind": "decode", "frame": B(fr), "devid": B(d8), "p": B(back), "o": v2_oracle(back), "res": res,
                                "via": "LAN.send, packet %d of %d %s" % (j + 1, len(exp_list), "met by the next send" if waiting else ("in one segment" if multi["coalesce"] else "of one reply")), "nresp": len(exp_list)})
            if l._protocol:
                l._disconnect()
    vloop.run(loop, go2())

    # the reply stream cut in two at EVERY offset (segments at distinct instants, both within the read timeout): one packet, and a complete packet
    # followed by a second one, with header fields full of start-marker bytes (device id, message id, timestamp = 5A5A...)
    split = {"stream": b"", "cut": 0}

    def spy3(tr, data):
        if landev.v2_unwrap(data)["ok"]:
            c = split["cut"]
            loop.call_at(loop.time() + 0.01, tr.feed, split["stream"][:c])
            loop.call_at(loop.time() + 0.3, tr.feed, split["stream"][c:])
    net.on_bytes = spy3

    async def go3():
        five = dict(devid=int.from_bytes(b"\x5a" * 8, "little"), ts=b"\x5a" * 8, msgid=b"\x5a" * 4)
        plain = dict(devid=rng.getrandbits(64), ts=bytes(rng.randrange(256) for _ in range(8)), msgid=bytes(rng.randrange(256) for _ in range(4)))
        for hdr, tag in ((five, "marker-rich header"), (plain, "random header")):
            for fl in ([[20]] if ctx.quick and hdr is plain else [[20], [0, 20]] if ctx.quick else [[20], [0, 20], [34, 1, 16]]):
                frames = [bytes(rng.randrange(256) for _ in range(n)) for n in fl]
                pk = [landev.v2_wrap(fr, hdr["devid"], hdr["ts"], msgid=hdr["msgid"]) for fr in frames]
                stream = b"".join(pk)
                for c in range(1, len(stream)):
                    split.update(stream=stream, cut=c)
                    l = LAN("10.0.0.1", 6444, hdr["devid"])
                    try:
                        got = list(await l.send(b"\xaa\x01", retries=1))
                        await asyncio.sleep(0.5)
                        if len(got) < len(frames) and l._protocol is not None:
                            split.update(stream=landev.v2_wrap(b"\xbb\x02", hdr["devid"]), cut=1)
                            got += list(await l.send(b"\xaa\x02", retries=1))[:-1]       # packets completed after the first send returned are met by the next one
                    except Exception as e:  # noqa: BLE001 - code under test
                        got = type(e).__name__
                    for j, fr in enumerate(frames):
                        res = {"k": "raise", "exc": got} if isinstance(got, str) else ({"k": "frame", "f": B(got[j])} if j < len(got) else {"k": "raise", "exc": "nothing (frame %d of %d not returned)" % (j + 1, len(frames))})
                        vectors.append({"kind": "decode", "frame": B(fr), "devid": B(hdr["devid"].to_bytes(8, "little")), "p": B(pk[j]), "o": v2_oracle(pk[j]), "res": res,
                                        "via": f"LAN.send, stream of {len(frames)} packet(s) ({tag}) delivered in two segments cut at {c}", "nresp": len(frames)})
                    if l._protocol:
                        l._disconnect()
    vloop.run(loop, go3())
    return vectors


def judge(ctx, vectors, canaries=True):
    cans = []
    if canaries:
        e = next(v for v in vectors if v["kind"] == "encode" and len(v["frame"]) == 20)
        c = dict(e, res={"k": "frame", "f": list(e["res"]["f"])})
        c["res"]["f"][4] ^= 1                       # wrong length field (signature oracle recomputed -> clause must still fail)
        c["o"] = v2_oracle(bytes(c["res"]["f"]))
        cans.append(c)
        c = dict(e, devid=[(e["devid"][0] + 1) % 256] + e["devid"][1:])
        cans.append(c)
        d = next(v for v in vectors if v["kind"] == "decode" and len(v["frame"]) == 20)
        cans.append(dict(d, res={"k": "frame", "f": d["frame"][:-1]}))
        cans.append(dict(d, res={"k": "raise", "exc": "ProtocolError"}))
    rej = ctx.validate_vectors("Trace_V2", vectors + cans)
    n = len(vectors)
    if len({i for i, _ in rej if i >= n}) != len(cans):
        from ..tlc import MachineryError
        ctx.defer_machinery("Trace_V2 accepted a canary")
    ctx.extra["canaries_rejected"] = len(cans)
    for i, clause in rej:
        if i < n:
            v = vectors[i]
            ctx.violation(f"V2 {v['kind']} of a {len(v['frame'])}-byte frame" + (f" via {v['via']}" if v.get("via") else ""), clause, v)


def run(ctx: Ctx) -> int:
    ctx.mc("MC_V2", "INIT Init\nNEXT Next\nINVARIANT RoundTrip\nINVARIANT Tamper\nCONSTANT Full = %s\n" % ("FALSE" if ctx.quick else "TRUE"),
           timeout=1800)
    vectors = collect(ctx)
    for v in vectors:
        ctx.count_distinct((v["kind"], bytes(v["frame"]), bytes(v.get("devid", []))))
    judge(ctx, vectors)
    s = next(v for v in vectors if v["kind"] == "encode" and len(v["frame"]) == 5)
    ctx.sample({"kind": "encode", "frame": bytes(s["frame"]).hex(), "devid_le": bytes(s["devid"]).hex(), "packet": bytes(s["res"]["f"]).hex()})
    return ctx.finish(
        rule="frames of every length 0..255 (random / zeros / 0x10s / ending in valid-looking padding), device ids at all byte "
             "boundaries 0..2^64-1 plus random, wall clock at boundary instants; library encode judged by V2PacketClause, "
             "independently built packets (validated by the same clause) decoded by the library, both also through LAN.send; "
             "distinct = (direction, frame, id)",
        assumptions=["timestamp bytes unconstrained (DESIGN 6.1 F1)", "AES/MD5 evaluated by harness/refcrypto.py on spans the spec re-derives"])


def replay(ctx: Ctx, path: str) -> int:
    import json
    from msmart.lan import _Packet
    c = json.load(open(path))["case"]
    f = bytes(c["frame"])
    devid = int.from_bytes(bytes(c.get("devid", [0] * 8)), "little")
    res = result_of(_Packet.encode, devid, f)
    p = landev.v2_wrap(f, devid)
    vectors = [{"kind": "encode", "frame": B(f), "devid": c["devid"], "res": res, "o": v2_oracle(bytes(res.get("f", [])))},
               {"kind": "decode", "frame": B(f), "devid": c["devid"], "p": B(p), "o": v2_oracle(p), "res": result_of(_Packet.decode, p)}]
    judge(ctx, vectors, canaries=False)
    return ctx.finish(rule="replay of one recorded frame/id (encode and decode direction)")
