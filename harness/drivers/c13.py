"""C13 - corrupted responses are rejected and never change state.

(a) TLC MC_C13: every position x every substitute x {no fix-up, fix-up} on sample frames of all five kinds and both
    check styles, real CRC-8/sum arithmetic: nothing is accepted without fix-up; with fix-up only the two design classes.
(c) real code: AirConditioner.refresh() whose only reply is the corrupted frame; to_dict()/online/supported before and
    after are judged by TLC (Trace_C13) using ClientAccepts / AcceptClass.
"""
from __future__ import annotations

from ..common import B, Ctx
from .. import vloop, acdev, landev


class Scripted(acdev.ACModel):
    """Answers every command with self.replies; self.script (list of reply lists) takes precedence, one entry per exchange."""

    def __init__(self):
        super().__init__()
        self.replies = []
        self.script = []

    def handle(self, f):
        if self.script:
            return list(self.script.pop(0))
        return list(self.replies)


def sample_frames(rng):
    out = {}
    st = dict(acdev.DEFAULT_STATE, power=True, t2=rng.randrange(34, 61), mode=rng.randrange(1, 6), fan=rng.choice([40, 60, 80, 102]),
              eco=rng.random() < .5, indoor=rng.randrange(60, 130), outdoor=rng.randrange(60, 130), in_tenths=rng.randrange(10))
    for style in ("crc", "sum"):
        out["state", style] = acdev.resp_frame(3, acdev.encode_state(st, 24), style)
        out["caps", style] = acdev.resp_frame(3, bytes([0xB5, 2, 0x12, 0x02, 1, 1, 0x14, 0x02, 1, rng.randrange(4), 0, 0]), style)
        out["props", style] = acdev.resp_frame(3, bytes([0xB1, 2, 0x09, 0, 0, 1, 25, 0x42, 0, 0, 1, 2, rng.randrange(256)]), style)
        out["energy", style] = acdev.resp_frame(3, bytes([0xC1, 0x21, 0x01, 0x44, 0, 0, 0x12, 0x34, 0, 0, 0, 0, 0, 0, 0, 0x56, 0, 7, 0x89, 0]), style)
        out["humidity", style] = acdev.resp_frame(3, bytes([0xC1, 0x21, 0x01, 0x45, rng.randrange(1, 100), 0, 0, 0]), style)
    # the same kinds in frames of other types (0x02 control, 0x04 / 0x05 / 0x06 reports): the library dispatches on the response id whatever the type
    for ft in (2, 4, 5, 6):
        style = "crc" if ft % 2 == 0 else "sum"
        out["state", f"{style}/ftype{ft}"] = acdev.resp_frame(ft, acdev.encode_state(st, 24), style)
        out["humidity", f"{style}/ftype{ft}"] = acdev.resp_frame(ft, bytes([0xC1, 0x21, 0x01, 0x45, rng.randrange(1, 100), 0, 0, 0]), style)
        out["energy", f"{style}/ftype{ft}"] = acdev.resp_frame(ft, bytes([0xC1, 0x21, 0x01, 0x44, 0, 0, 0x12, 0x34, 0, 0, 0, 0, 0, 0, 0, 0x56, 0, 7, 0x89, 0]), style)
    # the same kinds once more with a body check byte at its boundary values 0x00 / 0xFF (searched for, not forced)
    for style in ("crc", "sum"):
        for want in (0x00, 0xFF):
            for _ in range(4000):
                st2 = dict(st, t2=rng.randrange(34, 61), indoor=rng.randrange(256), outdoor=rng.randrange(256), fan=rng.randrange(1, 103), hum=rng.randrange(101))
                f = acdev.resp_frame(3, acdev.encode_state(st2, 24), style)
                if f[-2] == want:
                    out["state", style + "/check%02x" % want] = f
                    break
            for _ in range(4000):
                f = acdev.resp_frame(3, bytes([0xC1, 0x21, 0x01, 0x45, rng.randrange(1, 100), rng.randrange(256), rng.randrange(256), rng.randrange(256)]), style)
                if f[-2] == want:
                    out["humidity", style + "/check%02x" % want] = f
                    break
    return out


def corrupt(f, pos, sub, fix):
    g = bytearray(f)
    g[pos] = sub
    if fix:
        g[-1] = acdev.csum(g[1:-1])
    return bytes(g)


def subs_for(ctx, orig, all255):
    if all255:
        return [x for x in range(256) if x != orig]
    s = {orig ^ 0x80, orig ^ 0x01, (orig + 1) & 0xFF, (orig - 1) & 0xFF, 0x00, 0xFF, orig ^ 0xFF, 0xB0, 0xB1, 0xC0, 0xC1, 0xB5}
    while len(s) < 17:
        s.add(ctx.rng.randrange(256))
    s.discard(orig)
    return sorted(s)


def cases(ctx: Ctx):
    frames = sample_frames(ctx.rng)
    out = []
    for (kind, style), f in frames.items():
        all255 = (not ctx.quick)
        n = len(f)
        for pos in range(1, n):
            for sub in subs_for(ctx, f[pos], all255):
                out.append((kind, style, f, pos, sub, False))
        if kind != "props":
            for pos in range(10, n - 2):
                subs = set(subs_for(ctx, f[pos], all255))
                # add the substitute the dual-check rule lets through, if any (found by brute force; judged by TLC)
                for x in range(256):
                    if x != f[pos]:
                        g = corrupt(f, pos, x, True)
                        p = g[10:-1]
                        if acdev.crc8(p[:-1]) == p[-1] or acdev.csum(p[:-1]) == p[-1]:
                            subs.add(x)
                for sub in sorted(subs):
                    out.append((kind, style, f, pos, sub, True))
    # the length byte set to every smaller / slightly larger value, on many different valid frames (no fix-up)
    rng = ctx.rng
    for j in range(ctx.pick(70, 600)):
        st = dict(acdev.DEFAULT_STATE, power=rng.random() < .5, t2=rng.randrange(34, 61), mode=rng.randrange(1, 6), fan=rng.randrange(1, 103),
                  indoor=rng.randrange(256), outdoor=rng.randrange(256), in_tenths=rng.randrange(10), hum=rng.randrange(101))
        style = "crc" if j % 2 else "sum"
        f = acdev.resp_frame(3, acdev.encode_state(st, rng.choice([20, 22, 24, 24, 30])), style)
        for sub in range(0, f[1] + 4):
            if sub != f[1]:
                out.append(("state", style, f, 1, sub, False))
    return out


RICH_CAPS = bytes([0xB5, 8, 0x16, 0x02, 1, 3, 0x1F, 0x02, 1, 2, 0x09, 0x00, 1, 1, 0x0A, 0x00, 1, 1, 0x39, 0x00, 1, 1, 0x48, 0x00, 1, 1, 0xE3, 0x00, 1, 1, 0x42, 0x00, 1, 1])
GOOD_ENERGY = bytes([0xC1, 0x21, 0x01, 0x44, 0, 0, 0x12, 0x34, 0, 0, 0, 0, 0, 0, 0, 0x56, 0, 7, 0x89, 0])
GOOD_HUMID = bytes([0xC1, 0x21, 0x01, 0x45, 47, 0, 0, 0])
GOOD_PROPS = bytes([0xB1, 2, 0x09, 0, 0, 1, 25, 0x0A, 0, 0, 1, 50])


def expose(d):
    """Everything the object exposes: to_dict() without the two liveness flags, plus every supports_* / supported_* / min / max attribute."""
    out = {a: b for a, b in d.to_dict().items() if a not in ("online", "supported")}
    for n in sorted(dir(type(d))):
        if n.startswith(("supports_", "supported_", "min_target", "max_target")) or n == "enable_energy_usage_requests":
            try:
                v = getattr(d, n)
            except Exception as e:  # noqa: BLE001
                v = "raised " + type(e).__name__
            if not callable(v):
                out["attr:" + n] = str(sorted(str(x) for x in v)) if isinstance(v, (list, set, tuple, frozenset)) else str(v)
    return out


def collect(ctx: Ctx, cs, ver=2):
    from msmart.device import AirConditioner as AC
    vloop.install_clock()
    loop = vloop.new_loop()
    net = vloop.Net(loop)
    ac = Scripted()
    TOK, KEY = bytes(range(64)), bytes(range(100, 132))
    landev.LanDevice(loop, net, ac, version=ver, token=TOK, key=KEY)
    rng = ctx.rng
    vectors = []
    good_state = acdev.resp_frame(3, acdev.encode_state(dict(acdev.DEFAULT_STATE, power=True, t2=45, mode=4, fan=80, turbo=True,
                                                             indoor=99, outdoor=77, hum=66, freeze=True)), "crc")

    async def go():
        for k, (kind, style, f, pos, sub, fix) in enumerate(cs):
            d = AC(ip="10.0.0.1", port=6444, device_id=k)
            if ver == 3:
                await d.authenticate(TOK, KEY)          # (the exposed state then includes the credentials the object holds)
            hist = k % 3 != 0
            rich = k % 7 in (5, 6)
            if rich:
                # the object has learned from a valid capabilities response that the appliance has energy / humidity polling and property settings,
                # and has refreshed them once (four exchanges)
                ac.script = [[acdev.resp_frame(3, RICH_CAPS, "crc")]]
                await d.get_capabilities()
                ac.script = [[good_state], [acdev.resp_frame(3, GOOD_ENERGY, "crc")], [acdev.resp_frame(3, GOOD_HUMID, "crc")], [acdev.resp_frame(3, GOOD_PROPS, "crc")]]
                await d.refresh()
                ac.script = []
            if k % 3 == 2:                 # history: the ORIGINAL of the corrupted frame was accepted earlier by this very device object ...
                ac.replies = [f]
                await d.refresh()
            if hist:                       # ... and a different valid exchange after it (so state/online/supported are non-default)
                ac.replies = [good_state]
                await d.refresh()
            before = expose(d)
            g = corrupt(f, pos, sub, fix)
            ac.replies = [g]
            if rich and k % 14 in (5, 13) and (ctx.quick or k % 9 == 0):       # (thorough: a ninth of them - each costs nine read timeouts of loop steps)
                # only SOME of the refresh's queries are answered (with the corrupted frame), the others not at all - the last one among them
                pat = ["gggs", "gsss", "sggs", "ggss"][(k // 14) % 4]
                ac.script = [e for c in pat for e in ([[g]] if c == "g" else [[], [], []])]      # an unanswered query is transmitted three times
            raised = "none"
            entry = "refresh"
            try:
                if rich and k % 7 == 6:
                    await d.get_capabilities()          # a capability re-query whose only reply is the corrupted frame, then the refresh
                if not hist and not rich and k % 5 == 4:
                    # the object is offline (nothing valid was ever received); another operation than refresh gets the corrupted frame as its only reply
                    entry = ["get_capabilities", "apply", "start_self_clean", "toggle_display"][(k // 5) % 4]
                    await getattr(d, entry)()
                    if entry == "toggle_display":
                        entry = "toggle_display (ends with a refresh)"
                else:
                    await d.refresh()
            except Exception as e:  # noqa: BLE001
                raised = type(e).__name__
            after = expose(d)
            ac.script = []
            vectors.append({"ver": ver,"kind": kind, "style": style, "orig": B(f), "frame": B(g), "pos": pos, "sub": sub, "fix": fix,
                            "same": before == after, "online": bool(d.online), "supported": bool(d.supported),
                            "raised": raised, "history": hist, "learned_capabilities": rich, "requery": bool(rich and k % 7 == 6), "entry": entry})
            if d._lan._protocol:
                d._lan._disconnect()

    vloop.run(loop, go(), timeout_steps=max(2_000_000, 400 * len(cs)))      # one loop for all cases: the step budget scales with them
    return vectors


def judge(ctx, vectors, canaries=True):
    cans = []
    if canaries:
        a = dict(next(v for v in vectors if not v["fix"]))
        a["online"] = True
        cans.append(a)
        b = dict(next(v for v in vectors if not v["fix"]))
        b["same"] = False
        cans.append(b)
        c = dict(vectors[0])
        c["frame"] = list(c["orig"])
        cans.append(c)
    rej = ctx.validate_vectors("Trace_C13", vectors + cans)
    n = len(vectors)
    if len({i for i, _ in rej if i >= n}) != len(cans):
        from ..tlc import MachineryError
        ctx.defer_machinery("Trace_C13 accepted a canary")
    ctx.extra["canaries_rejected"] = len(cans)
    for i, clause in rej:
        if i < n:
            v = vectors[i]
            ctx.violation(f"{v['kind']} response, byte {v['pos']} -> 0x{v['sub']:02X}, fixup={v['fix']}", clause, v)


def run(ctx: Ctx) -> int:
    step = 8 if ctx.quick else 1
    ctx.mc("MC_C13", "INIT Init\nNEXT Next\nINVARIANT OrigValid\nINVARIANT NoFixNeverAccepted\nINVARIANT FixOnlyDesignClasses\n"
                     f"INVARIANT CollisionCount\nCONSTANT SubStep = {step}\n", timeout=1200)
    cs = cases(ctx)
    vectors = collect(ctx, cs)
    vectors += collect(ctx, cs[3::ctx.pick(11, 41)], ver=3)        # ... and on authenticated V3 objects (the exposed state includes the credentials held)
    for v in vectors:
        ctx.count_distinct((v["kind"], v["style"], v["pos"], v["sub"], v["fix"]))
    judge(ctx, vectors)
    ctx.sample({k: (bytes(x).hex() if isinstance(x, list) else x) for k, x in vectors[0].items()})
    ctx.sample({k: (bytes(x).hex() if isinstance(x, list) else x) for k, x in vectors[-1].items()})
    return ctx.finish(
        rule="valid responses of the five kinds x 2 check styles; every byte position after the start byte x substitutes "
             "(quick: 17 boundary/random values per position, thorough: all 255) without fix-up, every body position with fix-up "
             "(plus every substitute the dual-check rule lets through); each fed as the only reply to refresh() on a fresh device "
             "and on a device with history (a valid exchange before; the original accepted before; capabilities with energy / humidity / property "
             "polling learned and refreshed before, with and without a capability re-query answered by the corrupted frame, with all or only some of "
             "the refresh's queries answered); V2 and authenticated V3 objects; exposed state = to_dict() + "
             "every supports_* / supported_* / min / max attribute; distinct = (kind, style, position, substitute, fixup)",
        assumptions=["property responses with fix-up are exempt from the body check by design and are not enumerated",
                     "known finding D6: accepted corruptions of class dual-check-collision / becomes-property-id (see known_findings.json)"])


def replay(ctx: Ctx, path: str) -> int:
    import json
    c = json.load(open(path))["case"]
    vectors = collect(ctx, [(c["kind"], c["style"], bytes(c["orig"]), c["pos"], c["sub"], c["fix"])] * 3)
    judge(ctx, vectors, canaries=False)
    return ctx.finish(rule="replay of one recorded corruption (fresh and with history)")
