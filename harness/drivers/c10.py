"""C10 - control command encodes exactly the requested state (vendor bit layout).

(a) TLC: MC_C10 - VendorDecode40 is a left inverse of SetStateBody on exhaustive per-field slices.
(c) real code: AirConditioner.apply() against the simulated device; every 0x40 frame the device
    received is judged by TLC (Trace_C10) against the state the user requested.
"""
from __future__ import annotations

import asyncio

import itertools

from ..common import B, Ctx
from .. import vloop, acdev, landev

FIELDS = {
    "beep": [False, True], "power": [False, True], "t2": list(range(26, 88)), "mode": list(range(1, 7)),
    "fan": list(range(1, 103)), "swing": [0, 3, 12, 15], "follow": [False, True], "turbo": [False, True],
    "eco": [False, True], "purifier": [False, True], "aux": [0, 1, 2], "sleep": [False, True],
    "fahr": [False, True], "hum": list(range(0, 101)), "freeze": [False, True],
}


def rand_state(rng):
    return {k: rng.choice(v) for k, v in FIELDS.items()}


def cases(ctx: Ctx):
    rng = ctx.rng
    out = []
    # every value of every field, others random (k completions each)
    k = ctx.pick(3, 40)
    for f, dom in FIELDS.items():
        for v in dom:
            for _ in range(k):
                s = rand_state(rng)
                s[f] = v
                out.append(s)
    # all setpoints x all modes
    for t2 in FIELDS["t2"]:
        for m in FIELDS["mode"]:
            for _ in range(ctx.pick(1, 6)):
                s = rand_state(rng)
                s["t2"], s["mode"] = t2, m
                out.append(s)
    # all flag combinations sharing a byte: (follow,turbo,aux) byte 8/9/22; (eco,purifier,aux) byte 9; (sleep,turbo,fahr) byte 10
    for grp in (("follow", "turbo", "aux"), ("eco", "purifier", "aux"), ("sleep", "turbo", "fahr"), ("beep", "power")):
        for combo in itertools.product(*[FIELDS[g] for g in grp]):
            for _ in range(ctx.pick(2, 20)):
                s = rand_state(rng)
                s.update(dict(zip(grp, combo)))
                out.append(s)
    # pairwise: all pairs of values for all pairs of boolean/small fields
    small = [f for f, d in FIELDS.items() if len(d) <= 6]
    for f1, f2 in itertools.combinations(small, 2):
        for v1 in FIELDS[f1]:
            for v2 in FIELDS[f2]:
                s = rand_state(rng)
                s[f1], s[f2] = v1, v2
                out.append(s)
    for _ in range(ctx.pick(1500, 60000)):
        out.append(rand_state(rng))
    return out


def apply_state(AC, d, s, rng=None):
    """Set every attribute through the PUBLIC setters, in a random order when an rng is given (setters must not interfere)."""
    try:
        fan = AC.FanSpeed(s["fan"])
    except ValueError:
        fan = s["fan"]
    sets = [("beep", s.get("beep", False)), ("power_state", s["power"]), ("target_temperature", s["t2"] / 2), ("operational_mode", AC.OperationalMode(s["mode"])),
            ("fan_speed", fan), ("swing_mode", AC.SwingMode(s["swing"])), ("follow_me", s["follow"]), ("turbo", s["turbo"]), ("eco", s["eco"]),
            ("purifier", s["purifier"]), ("aux_mode", AC.AuxHeatMode(s["aux"])), ("sleep", s["sleep"]), ("fahrenheit", s["fahr"]),
            ("target_humidity", s["hum"]), ("freeze_protection", s["freeze"])]
    if "beep" not in s:
        sets = sets[1:]
    if rng is not None:
        rng.shuffle(sets)
        # enumerated settings may be given as plain integers (a state restored from JSON, a home-automation integration): same meaning
        if rng.random() < 0.3:
            sets = [(n, int(v)) if n in ("operational_mode", "swing_mode", "aux_mode", "fan_speed") and not isinstance(v, bool) else (n, v) for n, v in sets]
        # the deprecated spellings are public setters too (eco_mode, turbo_mode, sleep_mode, freeze_protection_mode): used for a quarter of the calls
        alias = {"eco": "eco_mode", "turbo": "turbo_mode", "sleep": "sleep_mode", "freeze_protection": "freeze_protection_mode"}
        sets = [(alias[n], v) if n in alias and rng.random() < 0.25 else (n, v) for n, v in sets]
    for name, value in sets:
        setattr(d, name, value)


def collect(ctx: Ctx, states):
    from msmart.device import AirConditioner as AC
    vloop.install_clock()
    loop = vloop.new_loop()
    net = vloop.Net(loop)
    ac = acdev.ACModel()
    dev = landev.LanDevice(loop, net, ac, version=2)
    d = AC(ip="10.0.0.1", port=6444, device_id=ctx.rng.getrandbits(48))
    vectors = []

    async def go():
        for s in states:
            apply_state(AC, d, s, ctx.rng)
            n0 = len(dev.rx)
            ac.log.clear()
            try:
                await d.apply()
                exc = None
            except Exception as e:  # noqa: BLE001 - the code under test may raise anything
                exc = type(e).__name__
            frames = [r["frame"] for r in dev.rx[n0:] if r.get("ok") and r["frame"][10:11] == b"\x40"]
            devst = [i for k, i in ac.log if k == "set_state"]
            vectors.append({"req": s, "frame": B(frames[0]) if frames else [],
                            "devstate": devst[0] if devst else {}, "exc": exc or "none", "n40": len(frames)})

    vloop.run(loop, go())
    return vectors


CAPS_PLAIN = bytes([0xB5, 4, 0x10, 0x02, 1, 0, 0x14, 0x02, 1, 1, 0x15, 0x02, 1, 1, 0x1F, 0x02, 1, 0])       # no custom fan speeds, cool-only modes, one swing axis, no humidity
CAPS_PROPS = bytes([0xB5, 7, 0x10, 0x02, 1, 1, 0x09, 0x00, 1, 1, 0x0A, 0x00, 1, 1, 0x48, 0x00, 1, 1, 0xE3, 0x00, 1, 1, 0x42, 0x00, 1, 1, 0x18, 0x00, 1, 1])


def collect_contexts(ctx: Ctx, states):
    """The same requests in other situations of the client object: after get_capabilities() of an appliance that advertises little (no custom fan
    speeds, few modes, ...), and with property-backed settings (swing angles, rate select, iECO, breeze) pending in the same apply() while the
    appliance adds a state report to its answer to the property command."""
    from msmart.device import AirConditioner as AC
    vloop.install_clock()
    rng = ctx.rng
    vectors = []
    for cname in ("caps_plain", "props_pending"):
        loop = vloop.new_loop()
        net = vloop.Net(loop)

        class Reporting(acdev.ACModel):
            def handle(self, f):
                out = super().handle(f)
                if len(f) > 10 and f[10] == 0xB0 and f[9] == 2 and out:
                    out = out + [self.state_frame(ftype=5)]          # a state report behind the acknowledgement of the property command
                if len(f) > 10 and f[10] == 0xB5 and out and getattr(self, "stray_report", False):
                    out = [self.state_frame(ftype=5)] + out          # an unsolicited state report ahead of the capabilities reply
                return out
        ac = Reporting(caps_pages=[CAPS_PLAIN if cname == "caps_plain" else CAPS_PROPS],
                       props={} if cname == "caps_plain" else {0x09: b"\x00", 0x0A: b"\x00", 0x48: b"\x64", 0xE3: b"\x00\x00", 0x42: b"\x01", 0x18: b"\x00"})
        dev = landev.LanDevice(loop, net, ac, version=2)
        d = AC(ip="10.0.0.1", port=6444, device_id=rng.getrandbits(48))

        async def go():
            await d.get_capabilities()
            for si, s in enumerate(states):
                pending = []
                if cname == "props_pending":
                    for name, dom in rng.sample([("vertical_swing_angle", list(AC.SwingAngle)), ("horizontal_swing_angle", list(AC.SwingAngle)),
                                                 ("rate_select", list(AC.RateSelect)), ("ieco", [True, False]), ("breeze_away", [True, False]),
                                                 ("breezeless", [True, False])], rng.randint(1, 3)):
                        v = rng.choice(dom)
                        setattr(d, name, v)
                        pending.append(name)
                apply_state(AC, d, s, rng)
                requery = si % 4 == 2
                if requery:
                    # the capabilities are queried (again) between setting the state and applying it; the unit pushes a report of its CURRENT state
                    # ahead of the capabilities reply - the request stands
                    ac.stray_report = True
                    try:
                        await d.get_capabilities()
                    except Exception:  # noqa: BLE001
                        pass
                    ac.stray_report = False
                n0 = len(dev.rx)
                ac.log.clear()
                try:
                    await d.apply()
                    exc = None
                except Exception as e:  # noqa: BLE001 - the code under test may raise anything
                    exc = type(e).__name__
                frames = [r["frame"] for r in dev.rx[n0:] if r.get("ok") and r["frame"][10:11] == b"\x40"]
                devst = [i for k, i in ac.log if k == "set_state"]
                vectors.append({"req": s, "frame": B(frames[0]) if frames else [], "devstate": devst[0] if devst else {}, "exc": exc or "none", "n40": len(frames),
                                "context": cname + (", capabilities queried between set and apply with a stray state report" if requery else ""), "pending": pending})
                if exc is None and si % 3 == 0 and cname == "props_pending":       # (a unit without custom fan speeds has raw speeds coerced by the poll: finding D12's mechanism)
                    # the unit is now in the requested state; the client polls it (state, and property values such as the unit's iECO switch) and the
                    # same request is applied once more: the command still carries the requested state
                    n1 = len(dev.rx)
                    ac.log.clear()
                    try:
                        await d.refresh()
                        await d.apply()
                        exc = None
                    except Exception as e:  # noqa: BLE001
                        exc = type(e).__name__
                    frames = [r["frame"] for r in dev.rx[n1:] if r.get("ok") and r["frame"][10:11] == b"\x40"]
                    devst = [i for k, i in ac.log if k == "set_state"]
                    vectors.append({"req": dict(s, display=None) if False else s, "frame": B(frames[0]) if frames else [], "devstate": devst[0] if devst else {}, "exc": exc or "none",
                                    "n40": len(frames), "context": cname + ", applied again after a refresh", "pending": []})
                elif exc is None and si % 3 == 1:
                    # overlapping applies: a second request is made and applied while the first apply() is still waiting for the unit's answer; each
                    # command carries the state requested when ITS apply() was called
                    s2 = dict(rand_state(rng), beep=s.get("beep", False))
                    slow = {"on": True}
                    orig_respond = dev.respond
                    dev.respond = lambda tr, packets: [loop.call_later(0.05, tr.feed, q) for q in packets]
                    n1 = len(dev.rx)
                    ac.log.clear()
                    try:
                        apply_state(AC, d, s, rng)
                        t1 = asyncio.ensure_future(d.apply())
                        await asyncio.sleep(0.01)
                        apply_state(AC, d, s2, rng)
                        t2 = asyncio.ensure_future(d.apply())
                        await asyncio.gather(t1, t2, return_exceptions=True)
                        await asyncio.sleep(1)
                    finally:
                        dev.respond = orig_respond
                    frames = [r["frame"] for r in dev.rx[n1:] if r.get("ok") and r["frame"][10:11] == b"\x40"]
                    devst = [i for k, i in ac.log if k == "set_state"]
                    for j, want in enumerate((s, s2)):
                        vectors.append({"req": want, "frame": B(frames[j]) if j < len(frames) else [], "devstate": devst[j] if j < len(devst) else {}, "exc": "none",
                                        "n40": 1 if j < len(frames) else 0, "context": cname + f", apply {j + 1} of two overlapping applies", "pending": []})
                    if d._lan._protocol:
                        d._lan._disconnect()
        vloop.run(loop, go())
    return vectors


def collect_cli(ctx: Ctx, states):
    """Another entry point to the same encoder: `msmart-ng control` with every setting of the requested state on the command line (and the display
    toggled when it has to be): the 0x40 command the unit receives carries exactly that state."""
    from .c20 import run_cli
    rng = ctx.rng
    MODE = {1: "auto", 2: "cool", 3: "dry", 4: "heat", 5: "fan_only", 6: "smart_dry"}
    vectors = []
    for s in states:
        disp = rng.random() < 0.5
        model = acdev.ACModel(state=dict(rand_state(rng), display=disp), state_len=24)
        model.state.pop("beep", None)
        want_disp = rng.choice([disp, not disp])
        args = [f"power_state={s['power']}", f"target_temperature={s['t2'] / 2}", f"operational_mode={rng.choice([MODE[s['mode']], str(s['mode'])])}",
                f"fan_speed={s['fan']}", f"swing_mode={s['swing']}", f"follow_me={s['follow']}", f"turbo={s['turbo']}", f"eco={s['eco']}",
                f"purifier={s['purifier']}", f"aux_mode={s['aux']}", f"sleep={s['sleep']}", f"fahrenheit={s['fahr']}", f"target_humidity={s['hum']}",
                f"freeze_protection={s['freeze']}", f"beep={s.get('beep', False)}"]
        rng.shuffle(args)
        args.insert(rng.randrange(len(args) + 1), f"display_on={want_disp}")
        model.log.clear()
        obs = run_cli(["control", "10.0.0.50"] + args, model, 2)
        devst = [i for k, i in model.log if k == "set_state"]
        frames = obs["frames40"]
        vectors.append({"req": s, "frame": frames[0] if frames else [], "devstate": devst[0] if devst else {}, "exc": obs["exc"] or ("none" if obs["exit"] == 0 else f"exit {obs['exit']}"),
                        "n40": len(frames), "context": "msmart-ng control" + (" with a display toggle" if want_disp != disp else ""), "pending": []})
    return vectors


def run(ctx: Ctx) -> int:
    ctx.mc("MC_C10", "INIT Init\nNEXT Next\nINVARIANT RoundTrip\nINVARIANT Shape\nINVARIANT DeviceAccepts\n")
    states = cases(ctx)
    vectors = collect(ctx, states)
    sub = [dict(st) for st in ctx.rng.sample(states, min(len(states), ctx.pick(400, 6000)))]
    for st in sub[:len(sub) // 2]:
        st["beep"] = True
    vectors += collect_contexts(ctx, sub)
    vectors += collect_cli(ctx, [dict(st) for st in ctx.rng.sample(states, min(len(states), ctx.pick(150, 2500)))])
    for v in vectors:
        ctx.count_distinct((v.get("context", "fresh"),) + tuple(sorted(v["req"].items())))
    tlc_in = []
    for v in vectors:
        if v["exc"] != "none" or v["n40"] != 1:
            ctx.violation("apply() did not put exactly one 0x40 command on the wire",
                          f"exc={v['exc']} n40={v['n40']}", v)
        else:
            tlc_in.append(v)
    # canaries: corrupted copies must be rejected by the spec (binding demonstration)
    canaries = []
    for j in range(4):
        c = dict(tlc_in[j])
        fr = list(c["frame"])
        c["frame"] = fr
        if j == 0:
            c["req"] = dict(c["req"], eco=not c["req"]["eco"])
            c["devstate"] = dict(c["devstate"], eco=c["req"]["eco"])
        elif j == 1:
            c["req"] = dict(c["req"], t2=c["req"]["t2"] + (1 if c["req"]["t2"] < 87 else -1))
            c["devstate"] = dict(c["devstate"], t2=c["req"]["t2"])
        elif j == 2:
            fr[11 + 9] ^= 0x04      # dry-clean bit: unrequested feature
            fr[-2] = acdev.crc8(bytes(fr[10:-2]))
            fr[-1] = acdev.csum(bytes(fr[1:-1]))
        else:
            fr[-2] ^= 0xFF          # broken CRC
            fr[-1] = acdev.csum(bytes(fr[1:-1]))
        canaries.append(c)
    rej = ctx.validate_vectors("Trace_C10", tlc_in + canaries)
    n = len(tlc_in)
    can_rej = {i for i, _ in rej if i >= n}
    if len(can_rej) != len(canaries):
        from ..tlc import MachineryError
        raise MachineryError(f"canaries accepted by Trace_C10: {set(range(n, n + len(canaries))) - can_rej}")
    ctx.traces_validated -= 0
    ctx.extra["canaries_rejected"] = len(canaries)
    for i, clause in rej:
        if i < n:
            ctx.violation("0x40 body received by the device", clause, tlc_in[i])
    ctx.sample({"requested": vectors[0]["req"], "frame": bytes(vectors[0]["frame"]).hex()})
    ctx.sample({"requested": vectors[-1]["req"], "frame": bytes(vectors[-1]["frame"]).hex()})
    return ctx.finish(
        rule="each settable field takes every value of its domain (others seeded-random), all 62 setpoints x 6 modes, "
             "all flag combinations sharing a byte, all value pairs of small fields, plus seeded random states; "
"a sample of them again after get_capabilities() of an appliance advertising little (no custom fan speeds, few modes) and with "
             "property-backed settings pending in the same apply() while the appliance reports its state behind the property acknowledgement; "
             "distinct = distinct (situation, requested state); every one goes through AirConditioner.apply() to a simulated V2 device "
             "and TLC judges the received frame with VendorDecode40/Vendor40Shape/VendorNeutral",
        assumptions=["setpoint domain 13.0-43.5 C with alternate code = T-12 (DESIGN 6.1 F8)",
                     "follow-me bit position taken from 0xC0/0x40 symmetry (absent from the pinned Lua)"])


def replay(ctx: Ctx, path: str) -> int:
    import json
    case = json.load(open(path))["case"]
    vectors = collect(ctx, [case["req"]])
    rej = ctx.validate_vectors("Trace_C10", vectors)
    for i, clause in rej:
        ctx.violation("0x40 body received by the device", clause, vectors[i])
    return ctx.finish(rule="replay of one recorded case")
