"""C10 - control command encodes exactly the requested state (vendor bit layout).

(a) TLC: MC_C10 - VendorDecode40 is a left inverse of SetStateBody on exhaustive per-field slices.
(c) real code: AirConditioner.apply() against the simulated device; every 0x40 frame the device
    received is judged by TLC (Trace_C10) against the state the user requested.
"""
from __future__ import annotations

import itertools

from ..common import B, Ctx
from .. import vloop, acdev, landev

FIELDS = {
    "beep": [False, True], "power": [False, True], "t2": list(range(26, 88)), "mode": list(range(1, 7)),
    "fan": list(range(1, 103)), "swing": [0, 3, 12, 15], "follow": [False, True], "turbo": [False, True],
    "eco": [False, True], "purifier": [False, True], "aux": [0, 1, 2], "sleep": [False, True],
    "fahr": [False, True], "hum": list(range(0, 101)), "freeze": [False, True],
}


def rand_state(rng):
    return {k: rng.choice(v) for k, v in FIELDS.items()}


def cases(ctx: Ctx):
    rng = ctx.rng
    out = []
    # every value of every field, others random (k completions each)
    k = ctx.pick(3, 40)
    for f, dom in FIELDS.items():
        for v in dom:
            for _ in range(k):
                s = rand_state(rng)
                s[f] = v
                out.append(s)
    # all setpoints x all modes
    for t2 in FIELDS["t2"]:
        for m in FIELDS["mode"]:
            for _ in range(ctx.pick(1, 6)):
                s = rand_state(rng)
                s["t2"], s["mode"] = t2, m
                out.append(s)
    # all flag combinations sharing a byte: (follow,turbo,aux) byte 8/9/22; (eco,purifier,aux) byte 9; (sleep,turbo,fahr) byte 10
    for grp in (("follow", "turbo", "aux"), ("eco", "purifier", "aux"), ("sleep", "turbo", "fahr"), ("beep", "power")):
        for combo in itertools.product(*[FIELDS[g] for g in grp]):
            for _ in range(ctx.pick(2, 20)):
                s = rand_state(rng)
                s.update(dict(zip(grp, combo)))
                out.append(s)
    # pairwise: all pairs of values for all pairs of boolean/small fields
    small = [f for f, d in FIELDS.items() if len(d) <= 6]
    for f1, f2 in itertools.combinations(small, 2):
        for v1 in FIELDS[f1]:
            for v2 in FIELDS[f2]:
                s = rand_state(rng)
                s[f1], s[f2] = v1, v2
                out.append(s)
    for _ in range(ctx.pick(1500, 60000)):
        out.append(rand_state(rng))
    return out


def apply_state(AC, d, s, rng=None):
    """Set every attribute through the PUBLIC setters, in a random order when an rng is given (setters must not interfere)."""
    try:
        fan = AC.FanSpeed(s["fan"])
    except ValueError:
        fan = s["fan"]
    sets = [("beep", s.get("beep", False)), ("power_state", s["power"]), ("target_temperature", s["t2"] / 2), ("operational_mode", AC.OperationalMode(s["mode"])),
            ("fan_speed", fan), ("swing_mode", AC.SwingMode(s["swing"])), ("follow_me", s["follow"]), ("turbo", s["turbo"]), ("eco", s["eco"]),
            ("purifier", s["purifier"]), ("aux_mode", AC.AuxHeatMode(s["aux"])), ("sleep", s["sleep"]), ("fahrenheit", s["fahr"]),
            ("target_humidity", s["hum"]), ("freeze_protection", s["freeze"])]
    if "beep" not in s:
        sets = sets[1:]
    if rng is not None:
        rng.shuffle(sets)
    for name, value in sets:
        setattr(d, name, value)


def collect(ctx: Ctx, states):
    from msmart.device import AirConditioner as AC
    vloop.install_clock()
    loop = vloop.new_loop()
    net = vloop.Net(loop)
    ac = acdev.ACModel()
    dev = landev.LanDevice(loop, net, ac, version=2)
    d = AC(ip="10.0.0.1", port=6444, device_id=ctx.rng.getrandbits(48))
    vectors = []

    async def go():
        for s in states:
            apply_state(AC, d, s, ctx.rng)
            n0 = len(dev.rx)
            ac.log.clear()
            try:
                await d.apply()
                exc = None
            except Exception as e:  # noqa: BLE001 - the code under test may raise anything
                exc = type(e).__name__
            frames = [r["frame"] for r in dev.rx[n0:] if r.get("ok") and r["frame"][10:11] == b"\x40"]
            devst = [i for k, i in ac.log if k == "set_state"]
            vectors.append({"req": s, "frame": B(frames[0]) if frames else [],
                            "devstate": devst[0] if devst else {}, "exc": exc or "none", "n40": len(frames)})

    vloop.run(loop, go())
    return vectors


def run(ctx: Ctx) -> int:
    ctx.mc("MC_C10", "INIT Init\nNEXT Next\nINVARIANT RoundTrip\nINVARIANT Shape\nINVARIANT DeviceAccepts\n")
    states = cases(ctx)
    vectors = collect(ctx, states)
    for v in vectors:
        ctx.count_distinct(tuple(sorted(v["req"].items())))
    tlc_in = []
    for v in vectors:
        if v["exc"] != "none" or v["n40"] != 1:
            ctx.violation("apply() did not put exactly one 0x40 command on the wire",
                          f"exc={v['exc']} n40={v['n40']}", v)
        else:
            tlc_in.append(v)
    # canaries: corrupted copies must be rejected by the spec (binding demonstration)
    canaries = []
    for j in range(4):
        c = dict(tlc_in[j])
        fr = list(c["frame"])
        c["frame"] = fr
        if j == 0:
            c["req"] = dict(c["req"], eco=not c["req"]["eco"])
            c["devstate"] = dict(c["devstate"], eco=c["req"]["eco"])
        elif j == 1:
            c["req"] = dict(c["req"], t2=c["req"]["t2"] + (1 if c["req"]["t2"] < 87 else -1))
            c["devstate"] = dict(c["devstate"], t2=c["req"]["t2"])
        elif j == 2:
            fr[11 + 9] ^= 0x04      # dry-clean bit: unrequested feature
            fr[-2] = acdev.crc8(bytes(fr[10:-2]))
            fr[-1] = acdev.csum(bytes(fr[1:-1]))
        else:
            fr[-2] ^= 0xFF          # broken CRC
            fr[-1] = acdev.csum(bytes(fr[1:-1]))
        canaries.append(c)
    rej = ctx.validate_vectors("Trace_C10", tlc_in + canaries)
    n = len(tlc_in)
    can_rej = {i for i, _ in rej if i >= n}
    if len(can_rej) != len(canaries):
        from ..tlc import MachineryError
        raise MachineryError(f"canaries accepted by Trace_C10: {set(range(n, n + len(canaries))) - can_rej}")
    ctx.traces_validated -= 0
    ctx.extra["canaries_rejected"] = len(canaries)
    for i, clause in rej:
        if i < n:
            ctx.violation("0x40 body received by the device", clause, tlc_in[i])
    ctx.sample({"requested": vectors[0]["req"], "frame": bytes(vectors[0]["frame"]).hex()})
    ctx.sample({"requested": vectors[-1]["req"], "frame": bytes(vectors[-1]["frame"]).hex()})
    return ctx.finish(
        rule="each settable field takes every value of its domain (others seeded-random), all 62 setpoints x 6 modes, "
             "all flag combinations sharing a byte, all value pairs of small fields, plus seeded random states; "
             "distinct = distinct requested states; every one goes through AirConditioner.apply() to a simulated V2 device "
             "and TLC judges the received frame with VendorDecode40/Vendor40Shape/VendorNeutral",
        assumptions=["setpoint domain 13.0-43.5 C with alternate code = T-12 (DESIGN 6.1 F8)",
                     "follow-me bit position taken from 0xC0/0x40 symmetry (absent from the pinned Lua)"])


def replay(ctx: Ctx, path: str) -> int:
    import json
    case = json.load(open(path))["case"]
    vectors = collect(ctx, [case["req"]])
    rej = ctx.validate_vectors("Trace_C10", vectors)
    for i, clause in rej:
        ctx.violation("0x40 body received by the device", clause, vectors[i])
    return ctx.finish(rule="replay of one recorded case")
