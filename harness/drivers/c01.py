"""C01 - end-to-end fidelity: an applied state reaches the device; the device's state is what any client's refresh reports.

(a) TLC: spec/AcE2E.tla - clients x appliance x one in-order stream per connection, unsolicited reports / duplicates / other frames at
    any time, the client applying every frame of an exchange in order: after an exchange the client's copy is never older than the
    state the appliance had when it answered (Fresh) and never invented (NeverInvented); plus the codec round trips of C10/C11
    (VendorDecode40 o SetStateBody = id, StateView o StateBody = id) re-checked on this check's domain (MC_C10).
(c) real code, whole stack: client A (AirConditioner) sets every attribute and apply()s to a simulated V2 / V3 appliance with random
    token / key / device id over real framing + encryption (+ handshake); a FRESH client B refresh()es.  The appliance's byte stream is
    cut into TCP segments at arbitrary points (V3: anywhere; V2: see DESIGN D7) and padded with unsolicited state reports, duplicates and
    frames of other kinds, before and after the solicited reply and while the clients are idle.  TLC (Trace_C01) judges with the vendor
    layouts: device received = requested; device state = requested; A and B report = requested.
"""
from __future__ import annotations

import asyncio

from ..common import B, Ctx
from ..tlc import MachineryError
from .. import vloop, acdev, landev
from .c10 import FIELDS, rand_state, apply_state
from .c11 import observe

PID = "C01"
EXTRAS = ["dup", "report", "a1", "b5n", "stale"]


class Chatty(acdev.ACModel):
    """Appliance that surrounds its replies with extra frames according to self.plan = (before, after)."""

    def __init__(self, **kw):
        super().__init__(**kw)
        self.plan = ((), ())
        self.tx_log = []
        self.stale = None

    def extra(self, kind, reply):
        if kind == "dup" and reply:
            return reply[0]
        if kind == "report":
            return self.state_frame(ftype=5)
        if kind == "stale" and self.stale is not None:
            return self.stale
        if kind == "a1":
            return acdev.resp_frame(5, bytes([0xA1, 0, 0, 0, 0, 0, 0, 0, 0, 0, 0, 0, 0, 0x55, 0x50, 0, 0, 0, 0]), self.style)
        if kind == "b5n":
            return acdev.resp_frame(5, bytes([0xB5, 1, 0x12, 0x02, 1, 1]), self.style)
        return None

    def handle(self, f):
        reply = super().handle(f)
        before, after = self.plan
        pre = [x for x in (self.extra(k, reply) for k in before if k != "stale") if x]
        # behind the reply an OLD-state report is only placed when the reply is repeated after it (the last frame of the exchange is the current state)
        post = [x for x in (self.extra(k, reply) for j, k in enumerate(after) if k != "stale" or "dup" in after[j + 1:]) if x]
        out = pre + reply + post
        self.tx_log += out
        return out


def cutter(rng, mode):
    def cuts(L):
        if L < 2 or mode == "none":
            return ()
        if mode == "bytewise":
            return tuple(range(1, L))
        if mode == "one":
            return (rng.randrange(1, L),)
        return tuple(sorted(rng.sample(range(1, L), min(L - 1, rng.randint(2, 4)))))
    return cuts


RICH_CAPS = bytes([0xB5, 5, 0x16, 0x02, 1, 3, 0x1F, 0x02, 1, 2, 0x42, 0x00, 1, 1, 0x14, 0x02, 1, 0, 0x10, 0x02, 1, 1])   # energy, humidity, breeze away, modes, custom fan speeds
ENERGY = bytes([0xC1, 0x21, 0x01, 0x44, 0, 0, 0x12, 0x34, 0, 0, 0, 0, 0, 0, 0, 0x56, 0, 7, 0x89, 0])
HUMID = bytes([0xC1, 0x21, 0x01, 0x45, 47, 0, 0, 0])


HISTORIES = ["plain", "idle_close", "lifetime", "reapply_after_other", "reapply_after_other_refreshed", "reapply_same", "rejected_reauth", "reauth_with_queued_report", "two_lost", "caps_learned"]


def scenario(ctx, ver, want, *, extras, cutmode, seed, stale_first, v2_split, rich=False, history="plain"):
    """One A-applies / B-refreshes scenario.  Returns the vector for TLC."""
    from msmart.device import AirConditioner as AC
    import random
    rng = random.Random(seed)
    vloop.install_clock()
    loop = vloop.new_loop()
    net = vloop.Net(loop)
    init = rand_state(rng)
    init.pop("beep")
    ac = Chatty(state=dict(init, display=rng.random() < 0.5, indoor=rng.randrange(40, 130), outdoor=rng.randrange(40, 130)),
                style=rng.choice(["crc", "sum"]), state_len=rng.choice([22, 23, 24, 24, 30]),
                **(dict(caps_pages=[RICH_CAPS], energy=ENERGY, humidity=HUMID, props={0x42: b"\x01"}) if rich else {}))
    tok, key = bytes(rng.randrange(256) for _ in range(64)), bytes(rng.randrange(256) for _ in range(32))
    devid = rng.choice([0, 1, 2 ** 48 - 1, rng.getrandbits(48), rng.getrandbits(48)])
    dev = landev.LanDevice(loop, net, ac, version=ver, token=tok, key=key, seed=seed)
    cuts = cutter(rng, cutmode)
    spread = rng.random() < 0.6 and "stale" not in extras[1]      # an old-state report in the middle of the reply stream: the whole stream arrives at one instant
    busy_until = {}

    def respond(tr, packets):
        if ver == 2 and not v2_split:
            segs = list(packets)                     # V2: one packet per segment unless splitting/coalescing is requested
        else:
            data = b"".join(packets)
            segs, prev = [], 0
            for c in list(cuts(len(data))) + [len(data)]:
                segs.append(data[prev:c])
                prev = c
        if len(segs) > 1 and spread:
            # segments reach the client at distinct (virtual) instants: the client runs in between, as with a real TCP stream
            t0 = max(loop.time(), busy_until.get(tr.cid, 0.0))        # one in-order byte stream per connection: never overtake earlier bytes
            for j, s in enumerate(segs):
                loop.call_at(t0 + 0.0005 * (j + 1), tr.feed, s)
            busy_until[tr.cid] = t0 + 0.0005 * len(segs)
        else:
            t0 = busy_until.get(tr.cid, 0.0)
            for s in segs:
                if t0 > loop.time():
                    loop.call_at(t0, tr.feed, s)
                else:
                    loop.call_soon(tr.feed, s)
    dev.respond = respond
    vec = {"seed": seed, "early_extra": False, "ver": ver, "want": want, "raised": "", "apply_rx": [], "tx": [], "online": False, "extras": [list(extras[0]), list(extras[1])],
           "cutmode": cutmode, "stale_first": stale_first, "v2_split": v2_split, "rich": rich, "history": history}

    async def go():
        a = AC(ip="10.0.0.5", port=6444, device_id=devid)
        b = AC(ip="10.0.0.5", port=6444, device_id=devid)
        try:
            if ver == 3:
                await a.authenticate(tok, key)
            if history == "lifetime":
                a.set_max_connection_lifetime(rng.choice([5, 30, 90]))
            await a.refresh()
            if history == "idle_close":
                # the appliance closes the idle connection between two operations (V3: the negotiated key is still valid)
                await asyncio.sleep(rng.choice([0.5, 20, 300]))
                net.conns[-1].peer_close()
                await asyncio.sleep(rng.choice([0, 0.5, 3]))
            elif history == "lifetime":
                await asyncio.sleep(rng.choice([91, 200]))          # the configured connection lifetime elapses while the client is idle
            elif history == "rejected_reauth" and ver == 3:
                # the user tries another token/key pair, the unit rejects it; the connection is lost; the next command goes on with the pair that worked
                try:
                    await a.authenticate(bytes(rng.randrange(256) for _ in range(64)), bytes(rng.randrange(256) for _ in range(32)))
                except Exception:  # noqa: BLE001 - AuthenticationError expected
                    pass
                if net.conns and not net.conns[-1]._closing and rng.random() < 0.7:
                    net.conns[-1].peer_close()
                await asyncio.sleep(0.5)
            elif history == "reauth_with_queued_report" and ver == 3:
                # the unit pushes a state report while the client is idle, then the client authenticates again on the open connection (as it does by
                # itself when the session key expires)
                tr = net.conns[-1]
                ss = dev.sess[tr.cid]
                ss["ctr"] = (ss["ctr"] + 1) & 0xFFFF
                tr.feed(landev.v3_enc_packet(ss["key"], landev.v2_wrap(ac.state_frame(ftype=5), devid), ss["ctr"]))
                await asyncio.sleep(0.2)
                if rng.random() < 0.5:
                    await a.authenticate(tok, key)
                else:
                    vloop.VClock.offset += 12 * 3600 + 5
            elif history.startswith("reapply"):
                # A applies the requested state once; then somebody else (another client instance / the remote control) changes the appliance
                # (or nobody does: reapply_same); A - with or without refreshing - requests the same state again
                apply_state(AC, a, want, rng)
                await a.apply()
                await asyncio.sleep(1)
                if history != "reapply_same":
                    other = rand_state(rng)
                    c = AC(ip="10.0.0.5", port=6444, device_id=devid)
                    if ver == 3:
                        await c.authenticate(tok, key)
                    apply_state(AC, c, other, rng)
                    await c.apply()
                    await asyncio.sleep(1)
                if history == "reapply_after_other_refreshed":
                    await a.refresh()
                    await asyncio.sleep(1)
            if stale_first and history in ("plain", "reapply_same"):
                # an unsolicited report of the OLD state reaches A while it is idle and sits in its queue
                ac.stale = ac.state_frame(ftype=5)
                tr = net.conns[-1]
                s = dev.sess[tr.cid]
                if ver == 3:
                    s["ctr"] = (s["ctr"] + 1) & 0xFFFF
                    tr.feed(landev.v3_enc_packet(s["key"], landev.v2_wrap(ac.stale, devid), s["ctr"]))
                else:
                    tr.feed(landev.v2_wrap(ac.stale, devid))
            if history == "caps_learned" and rich:         # (a unit without custom fan speeds has raw speeds coerced: finding D12's mechanism, not this check's subject)
                await a.get_capabilities()          # the unit advertises little (no display control among it): every setting is sent all the same
                await asyncio.sleep(0.5)
            apply_state(AC, a, want, rng)
            ac.plan = extras
            if history == "two_lost":
                # the unit misses the first two copies of the next request and answers the third
                lost = {"n": 2}
                orig_on_bytes = net.on_bytes

                def lossy(tr, data, lost=lost):
                    if lost["n"] > 0:
                        lost["n"] -= 1                  # this copy never reaches the unit
                        return
                    orig_on_bytes(tr, data)
                net.on_bytes = lossy
            if ac.stale is None:
                ac.stale = ac.state_frame(ftype=rng.choice([2, 3, 5]))      # the state before the apply, as the appliance would have reported it
            n0 = len(ac.rx_frames)
            await a.apply()
            vec["apply_rx"] = [B(f) for f in ac.rx_frames[n0:] if acdev.parse_command(f).get("ok") and f[10:11] == b"\x40"]
            await asyncio.sleep(1)        # idle: whatever the appliance still had in flight arrives and is queued
            ac.plan = (tuple(k for k in extras[0] if k != "stale"), tuple(k for k in extras[1] if k != "stale"))     # old-state reports only surround the apply
            toggled = bool(a.display_on) != want["display"]
            if toggled:
                await a.toggle_display()
                await asyncio.sleep(1)
            # finding D11 applies when a complete extra frame can reach the client at an earlier instant than a solicited reply: extras in front
            # of the reply, or extras behind the reply of an exchange that is followed at once by another one (toggle + refresh, multi-command refresh)
            vec["early_extra"] = bool(spread and (len(extras[0]) > 0 or (len(extras[1]) > 0 and (rich or toggled))))
            st = dict(ac.state)
            vec["dev_after"] = {k: (int(st[k]) if k == "freeze" else st[k]) for k in
                                ("power", "t2", "mode", "fan", "swing", "follow", "turbo", "eco", "purifier", "aux", "sleep", "fahr", "hum", "freeze", "display")}
            vec["attrs_a"] = observe(a)
            if ver == 3:
                await b.authenticate(tok.hex(), key.hex())
            if rich:
                await b.get_capabilities()      # the refresh below then also queries energy, humidity and properties
                await asyncio.sleep(1)
            n1 = len(ac.tx_log)
            await b.refresh()
            vec["tx"] = [B(f) for f in ac.tx_log[n1:]]
            vec["attrs_b"] = observe(b)
            vec["online"] = bool(b.online)
        except Exception as ex:  # noqa: BLE001 - code under test
            vec["raised"] = type(ex).__name__
            vec.setdefault("dev_after", {k: 0 for k in ("power", "t2", "mode", "fan", "swing", "follow", "turbo", "eco", "purifier", "aux", "sleep", "fahr", "hum", "freeze", "display")})
            vec.setdefault("attrs_a", vec["dev_after"])
            vec.setdefault("attrs_b", vec["dev_after"])
    vloop.run(loop, go())
    return vec


def v2_stream_traces(ctx: Ctx):
    """(stream, cuts) stepped through the real _LanProtocol.data_received (V2 framing added by fix D7); a final read that times out."""
    import itertools
    from msmart.lan import _LanProtocol
    rng = ctx.rng
    traces = []

    def run(parts, cuts):
        stream = b"".join(bytes(x["g"]) + bytes(x["p"]) for x in parts)
        loop = vloop.new_loop()
        pr = _LanProtocol()
        evs = []
        prev = 0
        for c in list(cuts) + [len(stream)]:
            if c == prev:
                continue
            pr.data_received(stream[prev:c])
            out = []
            while not pr._queue.empty():
                out.append(B(pr._queue.get_nowait()))
            evs.append({"n": c - prev, "flush": False, "out": out})
            prev = c
        # a read with nothing queued: times out; a partial packet is handed over
        try:
            item = loop.run_until_complete(pr.read(timeout=1))
            evs.append({"n": 0, "flush": True, "out": [B(item)]})
        except Exception:  # noqa: BLE001 - TimeoutError: nothing buffered
            evs.append({"n": 0, "flush": True, "out": []})
        return {"parts": parts, "cuts": list(cuts), "events": evs}

    def small_pkt():
        fill = bytes(rng.choice([0x5A, 0x00, 0x06, 0x01]) for _ in range(rng.randint(0, 4)))
        return b"\x5a\x5a\x01\x11" + (6 + len(fill)).to_bytes(2, "little") + fill

    for _ in range(ctx.pick(30, 400)):
        k = rng.randint(1, 3)
        junk = rng.random() < 0.4
        parts = []
        for j in range(k):
            g = b""
            if junk and rng.random() < 0.5:
                g = bytes(rng.choice([0x00, 0x5A, 0x5B, 0xAA]) for _ in range(rng.randint(1, 3)))
                if g[:1] == b"\x5a" and rng.random() < 0.5:
                    g = b"\x00" + g
            parts.append({"g": B(g), "p": B(small_pkt() if rng.random() < 0.85 else small_pkt()[:rng.randint(1, 5)])})
        L = sum(len(x["g"]) + len(x["p"]) for x in parts)
        cs = [()] + [(c,) for c in range(1, L)] + [tuple(range(1, L))]
        if L <= 16:
            cs += list(itertools.combinations(range(1, L), 2))
        else:
            cs += [tuple(sorted(rng.sample(range(1, L), 2))) for _ in range(20)]
        for cuts in cs:
            traces.append(run(parts, cuts))
    for _ in range(ctx.pick(10, 150)):
        frames = [bytes(rng.randrange(256) for _ in range(rng.choice([1, 20, 34]))) for _ in range(rng.randint(1, 3))]
        parts = [{"g": [], "p": B(landev.v2_wrap(f, rng.getrandbits(40)))} for f in frames]
        L = sum(len(x["p"]) for x in parts)
        bounds = sorted({b for x in [0] + list(itertools.accumulate(len(y["p"]) for y in parts) ) for b in (x - 1, x, x + 1, x + 2, x + 5, x + 6, x + 40) if 0 < b < L})
        for cuts in [()] + [(b,) for b in bounds] + [tuple(sorted(rng.sample(range(1, L), rng.randint(2, 4)))) for _ in range(10)] + [tuple(range(1, L, rng.choice([1, 3, 7])))]:
            traces.append(run(parts, cuts))
    return traces


def wants(ctx: Ctx):
    rng = ctx.rng
    out = []
    k = ctx.pick(1, 6)
    for f, dom in FIELDS.items():
        for v in dom:
            for _ in range(k):
                s = rand_state(rng)
                s[f] = v
                out.append(s)
    for t2 in FIELDS["t2"]:
        for m in FIELDS["mode"]:
            if ctx.quick and (t2 + m) % 3:
                continue
            s = rand_state(rng)
            s["t2"], s["mode"] = t2, m
            out.append(s)
    for _ in range(ctx.pick(300, 12000)):
        out.append(rand_state(rng))
    for s in out:
        s["display"] = rng.random() < 0.5
    return out


def plan(ctx, k, rng):
    ver = 2 + (k % 2)
    nb, na = rng.choice([0, 0, 1, 2]), rng.choice([0, 0, 1, 2])
    extras = (tuple(rng.choice(EXTRAS) for _ in range(nb)), tuple(rng.choice(EXTRAS) for _ in range(na)))
    cutmode = rng.choice(["none", "one", "one", "few", "few", "bytewise"]) if ver == 3 else "none"
    if rng.random() < 0.15:
        extras = (extras[0], tuple(rng.choice([("stale", "dup"), ("dup", "stale", "dup"), ("report", "stale", "dup")])))
    return dict(ver=ver, extras=extras, cutmode=cutmode, stale_first=rng.random() < 0.35, v2_split=False, rich=rng.random() < 0.3,
                history=rng.choice(HISTORIES) if rng.random() < 0.4 else "plain")


def run(ctx: Ctx) -> int:
    ctx.mc("AcE2E", "SPECIFICATION ESpec\nCONSTANTS\nClients = {1, 2}\nVals = {10, 20}\nMaxVer = %d\nMaxQ = %d\nEarlyCompletion = FALSE\nPROPERTY Fresh\nINVARIANT NeverInvented\n"
           "CHECK_DEADLOCK FALSE\n" % ctx.pick((3, 3), (4, 4)), name="C01_mc_e2e", timeout=3000, heap="10g")
    # design-level witness of known finding D11: with the code's real completion rule (first frame ends the exchange) TLC must find a behaviour
    # in which a client's copy is older than the state the appliance answered with
    from ..tlc import run_tlc
    w = run_tlc("AcE2E", "SPECIFICATION ESpec\nCONSTANTS\nClients = {1}\nVals = {10, 20}\nMaxVer = 2\nMaxQ = 3\nEarlyCompletion = TRUE\nPROPERTY Fresh\nCHECK_DEADLOCK FALSE\n",
                name="C01_mc_e2e_early", workers=4, timeout=600)
    if "Fresh" not in w.violated:
        raise MachineryError("AcE2E with EarlyCompletion did not reproduce the design-level witness of finding D11")
    ctx.extra["design_level_witness_of_D11"] = {"found": True, "trace_states": len(w.error_states)}
    ctx.mc("MC_C10", "INIT Init\nNEXT Next\nINVARIANT RoundTrip\nINVARIANT Shape\nINVARIANT DeviceAccepts\n", name="C01_mc_codec")
    ctx.mc("MC_V2Stream", "INIT MCInit\nNEXT Next\nINVARIANT Delivered\nINVARIANT NoLoss\nINVARIANT AllDeliveredAtEnd\nCHECK_DEADLOCK FALSE\nCONSTANT MaxPackets = %d\n" % ctx.pick(3, 4),
           name="C01_mc_v2stream", timeout=3000, heap="8g")
    st = v2_stream_traces(ctx)
    import copy as _copy
    can = _copy.deepcopy(next(t for t in st if any(e["out"] for e in t["events"])))
    k0 = next(i for i, e in enumerate(can["events"]) if e["out"])
    can["events"][k0]["out"] = []
    badst = ctx.validate_chains("Trace_V2Stream", [{"parts": t["parts"], "events": t["events"]} for t in st] + [{"parts": can["parts"], "events": can["events"]}], name="C01_v2stream")
    if len(st) not in badst:
        ctx.defer_machinery("Trace_V2Stream accepted a canary")
    for i, clause in sorted(badst.items()):
        if i < len(st):
            ctx.violation(f"V2 stream cut at {st[i]['cuts'][:12]}", "V2 reassembly: " + clause, {"parts": st[i]["parts"], "cuts": st[i]["cuts"], "clause": clause, "v2stream": True})
    ctx.extra["v2_stream_segmentations"] = len(st)
    ws = wants(ctx)
    vectors = []
    for k, w in enumerate(ws):
        p = plan(ctx, k, ctx.rng)
        vectors.append(scenario(ctx, want=w, seed=ctx.seed * 1000003 + k, **p))
        ctx.count_distinct((p["ver"], p["extras"], p["cutmode"], p["stale_first"], p["history"], tuple(sorted(w.items()))))
    # V2 segmentation (DESIGN D7): replies split across segments and coalesced with extra frames
    v2seg = []
    for k in range(ctx.pick(200, 3000)):
        w = rand_state(ctx.rng)
        w["display"] = ctx.rng.random() < 0.5
        p = plan(ctx, 0, ctx.rng)
        p.update(ver=2, cutmode=ctx.rng.choice(["one", "few", "bytewise", "none"]), v2_split=True, rich=False)
        if k % 2 == 0:        # a reply followed by further frames, cut anywhere: the reply is complete while a later frame is still partial
            p["extras"] = ((), tuple(ctx.rng.choice(EXTRAS[:4]) for _ in range(ctx.rng.randint(1, 2))))
        v2seg.append(scenario(ctx, want=w, seed=ctx.seed * 7919 + k, **p))
    # canaries
    import copy
    cans = []
    c = copy.deepcopy(vectors[0]); c["attrs_b"]["eco"] = not c["attrs_b"]["eco"]; cans.append(c)
    c = copy.deepcopy(vectors[1]); c["want"]["t2"] += 1 if c["want"]["t2"] < 87 else -1; cans.append(c)
    c = copy.deepcopy(vectors[2]); c["dev_after"]["fan"] = (c["dev_after"]["fan"] % 100) + 1; cans.append(c)
    c = copy.deepcopy(vectors[3]); c["online"] = False; cans.append(c)
    allv = vectors + v2seg
    rej = ctx.validate_vectors("Trace_C01", allv + cans)
    n = len(allv)
    if len([i for i, _ in rej if i >= n]) != len(cans):
        ctx.defer_machinery("Trace_C01 accepted a canary")
    ctx.extra["canaries_rejected"] = len(cans)
    ctx.extra["scenarios"] = {"main": len(vectors), "v2_segmentation": len(v2seg)}
    for i, clause in rej:
        if i >= n:
            continue
        v = allv[i]
        if clause.startswith("harness"):
            raise MachineryError(f"Trace_C01: {clause} (vector {i})")
        ctx.violation(f"V{v['ver']} extras={v['extras']} cuts={v['cutmode']} stale_first={v['stale_first']} v2_split={v['v2_split']} history={v.get('history', 'plain')}", clause,
                      {"ver": v["ver"], "want": v["want"], "extras": v["extras"], "cutmode": v["cutmode"], "stale_first": v["stale_first"], "v2_split": v["v2_split"],
                       "clause": clause, "history": v.get("history", "plain"), "seed_index": i, "scenario_seed": v.get("seed", 0), "rich": v.get("rich", False), "early_extra": v.get("early_extra", False), "v2_no_reassembly": bool(v["ver"] == 2 and v["v2_split"])})
    ctx.sample({"ver": vectors[0]["ver"], "want": vectors[0]["want"], "extras": vectors[0]["extras"], "frame_0x40": bytes(vectors[0]["apply_rx"][0]).hex() if vectors[0]["apply_rx"] else ""})
    return ctx.finish(
        rule="every value of every settable field (others seeded-random), setpoints x modes, random states, display via toggle; V2 and V3 alternating; "
             "random token/key/device id; V3 byte stream cut at one / a few / every byte; 0-2 extra frames before and after the solicited reply from "
             "{duplicate, unsolicited state report, 0xA1, 0xB5 notification}; an old-state report queued at the idle client; a second, fresh client "
             "instance refreshes; V2 replies split / coalesced across segments; distinct = (version, extras, cuts, requested state)",
        assumptions=["F8: setpoint domain 13.0-43.5 C", "the appliance's own codecs are not trusted: its reports are re-decoded by the spec (harness clauses)"])


def replay(ctx: Ctx, path: str) -> int:
    import json
    c = json.load(open(path))["case"]
    if c.get("v2stream"):
        ctx.notes.append("V2 stream cases are re-run by the full check (v2_stream_traces); this replay only re-validates the recorded stream")
        return ctx.finish(rule="replay of one recorded V2 stream case (see note)")
    v = scenario(ctx, c["ver"], c["want"], extras=(tuple(c["extras"][0]), tuple(c["extras"][1])), cutmode=c["cutmode"], seed=c.get("scenario_seed", ctx.seed),
                 stale_first=c["stale_first"], v2_split=c["v2_split"], rich=c.get("rich", False), history=c.get("history", "plain"))
    for i, clause in ctx.validate_vectors("Trace_C01", [v]):
        ctx.violation("replayed scenario", clause, c)
    return ctx.finish(rule="replay of one recorded scenario")
