"""C09 - transport containment: whatever bytes the peer sends, an exchange or authentication ends in decoded frames, a
protocol/authentication error, or a timeout; nothing else escapes the transport layer and device-level operations do not raise.

(a) TLC: spec/LanSession.tla with every reply class at every phase: the outcome alphabet of the design is closed (monitor clause C09).
(c) real code under a byte-level adversarial peer: grammar-aware mutations of valid V2 and V3 traffic (every header field at boundary
    values, every type and pad nibble, ciphertext lengths = 1..15 mod 16, valid tags/signatures over wrong padding / random / empty /
    misaligned ciphertext, truncations, bit flips, packets under another key, random bytes) delivered at every protocol phase
    (handshake wait, read wait, queued before the next exchange) to LAN.send, LAN.authenticate, Device.authenticate and
    AirConditioner.refresh.  The recorded events (exception TYPE of every call) are judged by TLC with the monitor.
"""
from __future__ import annotations

import copy

from ..common import Ctx
from ..tlc import MachineryError
from .. import session, sched, landev, acdev, refcrypto as rc

PID = "C09"


def rb(rng, n):
    return bytes(rng.randrange(256) for _ in range(n))


# ---- V2 grammar -----------------------------------------------------------------------------------------------------------

def v2_signed(ct: bytes, *, lenfield=None, marker=b"\x5a\x5a", mtype=b"\x01\x11", magic=b"\x20\x00") -> bytes:
    n = 40 + len(ct) + 16
    h = marker + mtype + (n if lenfield is None else lenfield).to_bytes(2, "little") + magic + bytes(32)
    p = h + ct
    return p + rc.md5(p + rc.SIGN_KEY)


def v2_mutations(rng, frame: bytes, full=False):
    """Grammar-aware mutations of a valid V2 packet carrying `frame`."""
    p = landev.v2_wrap(frame, 5)
    L = len(p)
    out = []
    for n in list(range(0, 7)) + [39, 40, 41, 55, 56, 57, L - 17, L - 16, L - 1] + ([*range(7, L)] if full else rng.sample(range(7, L), 6)):
        out.append(p[:n])                                                   # truncations
    for v in (0, 5, 6, 39, 40, 41, 55, 56, 57, L - 1, L + 1, 0xFFFF, 0x8000):
        q = bytearray(p)
        q[4:6] = v.to_bytes(2, "little")
        out.append(bytes(q))                                                # length field, signature stale
        out.append(v2_signed(p[40:-16], lenfield=v))                        # length field, correctly signed
    for i in (0, 1):
        for v in (0x00, 0xFF, 0x5B, 0xAA):
            q = bytearray(p)
            q[i] = v
            out.append(bytes(q))
    out.append(v2_signed(b""))                                              # correctly signed, empty ciphertext
    for n in list(range(1, 16)) + [17, 31, 33]:
        out.append(v2_signed(rb(rng, n)))                                   # correctly signed, misaligned ciphertext
    for n in (16, 32, 48):
        out.append(v2_signed(rb(rng, n)))                                   # correctly signed random blocks (padding almost surely invalid)
    for tail in (b"\x00", b"\x11", b"\x10" * 15 + b"\x0f", b"\x02\x01"):
        pt = (rb(rng, 16) + tail)[-16:] if len(tail) < 16 else tail
        out.append(v2_signed(rc.ecb_encrypt(rc.ENC_KEY, pt)))               # correctly signed, invalid PKCS7
    out.append(v2_signed(rc.ecb_encrypt(rc.ENC_KEY, bytes([16]) * 16)))    # correctly signed, valid padding, empty frame
    out.append(v2_signed(p[40:-16], mtype=b"\x00\x00"))
    out.append(v2_signed(p[40:-16], magic=b"\xff\xff"))
    for _ in range(24 if full else 6):
        q = bytearray(p)
        q[rng.randrange(L)] ^= 1 << rng.randrange(8)
        out.append(bytes(q))
    out.append(p + rb(rng, 5))                                              # trailing bytes
    out.append(p + p)                                                       # two packets in one segment
    for n in (0, 1, 5, 6, 30, 56, 200):
        out.append(rb(rng, n))
        out.append(b"\x5a\x5a" + rb(rng, n))
    return out


# ---- V3 grammar -----------------------------------------------------------------------------------------------------------

def v3_enc_custom(key, payload, ctr, *, padnib=None, typ=3, tagflip=False, cut=0):
    pad = landev.v3_pad(len(payload))
    nib = pad if padnib is None else padnib
    plain = ctr.to_bytes(2, "big") + payload + bytes(range(pad))
    ct = rc.cbc_encrypt(key, plain)
    if cut:
        ct = ct[:-cut]
    hdr = b"\x83\x70" + (len(ct) - 2 + 32).to_bytes(2, "big") + b"\x20" + bytes([nib << 4 | typ])
    tag = rc.sha256(hdr + plain)
    if tagflip:
        tag = tag[:-1] + bytes([tag[-1] ^ 1])
    return hdr + ct + tag


def v3_header_mutations(rng, p: bytes, full=False):
    L = len(p)
    size = int.from_bytes(p[2:4], "big")
    out = []
    for i in (0, 1):
        for v in (0x00, 0xFF, p[i] ^ 1):
            q = bytearray(p)
            q[i] = v
            out.append(bytes(q))
    for v in {0, 1, 7, 8, 24, 31, 32, 33, max(size - 16, 0), max(size - 1, 0), size + 1, size + 16, 0x7FFF, 0xFFFF}:
        q = bytearray(p)
        q[2:4] = v.to_bytes(2, "big")
        out.append(bytes(q))
    for v in (0x00, 0x21, 0xFF):
        q = bytearray(p)
        q[4] = v
        out.append(bytes(q))
    for t in range(16):
        q = bytearray(p)
        q[5] = (q[5] & 0xF0) | t
        out.append(bytes(q))
    for n in range(16):
        q = bytearray(p)
        q[5] = (q[5] & 0x0F) | (n << 4)
        out.append(bytes(q))
    for n in [0, 1, 2, 5, 6, 7, 8, 9, L - 33, L - 32, L - 31, L - 1] + ([*range(10, L - 33)] if full else rng.sample(range(10, max(11, L - 33)), 4)):
        if 0 <= n < L:
            out.append(p[:n])
    for _ in range(24 if full else 6):
        q = bytearray(p)
        q[rng.randrange(L)] ^= 1 << rng.randrange(8)
        out.append(bytes(q))
    out.append(p + rb(rng, 3))
    out.append(rb(rng, 3) + p)
    return out


def v3_data_mutations(rng, key, frame: bytes, full=False):
    inner = landev.v2_wrap(frame, 5)
    p = landev.v3_enc_packet(key, inner, 7)
    out = v3_header_mutations(rng, p, full)
    for r in range(1, 16):
        out.append(v3_enc_custom(key, inner, 7, cut=r))                      # ciphertext length = 16k - r, size field consistent
    for nib in range(16):
        out.append(v3_enc_custom(key, inner, 7, padnib=nib))                 # correct tag over a wrong pad nibble
        out.append(v3_enc_custom(key, b"", 7, padnib=nib))                   # ... pad larger than the plaintext
        out.append(v3_enc_custom(key, rb(rng, 3), 7, padnib=nib))
    for t in (0, 1, 2, 6, 15):
        out.append(v3_enc_custom(key, inner, 7, typ=t))
    for ctr in (0, 1, 0x0FFF, 0x1000, 0x7FFF, 0x8000, 0xFFFE, 0xFFFF):       # authentic responses whose counter field sits at a boundary (the next exchange follows on the same connection)
        out.append(landev.v3_enc_packet(key, inner, ctr))
    for size in range(0, 50):                                                 # every short well-framed "encrypted response": total length 8..57
        out.append(b"\x83\x70" + size.to_bytes(2, "big") + b"\x20\x03" + rb(rng, size + 2))
    for typ in (0, 1, 2, 6, 15):
        for size in (0, 1, 14, 24, 30, 31, 32, 33):
            out.append(b"\x83\x70" + size.to_bytes(2, "big") + b"\x20" + bytes([typ]) + rb(rng, size + 2))
    out.append(v3_enc_custom(key, inner, 7, tagflip=True))
    out.append(landev.v3_enc_packet(rb(rng, 32), inner, 7))                  # under another key
    for m in v2_mutations(rng, frame, full):                                 # every V2 mutation wrapped in a valid encrypted packet
        out.append(landev.v3_enc_packet(key, m, 9))
    for n in (0, 1, 13, 14, 15, 16, 30, 300):
        out.append(landev.v3_enc_packet(key, rb(rng, n), 9))
    out.append(landev.v3_plain_packet(1, 0, rb(rng, 64)))                    # handshake reply in place of data
    out.append(landev.v3_error_packet())
    for n in (0, 1, 5, 6, 8, 60, 200):
        out.append(rb(rng, n))
        out.append(b"\x83\x70" + rb(rng, n))
    return out


def v3_floods(rng):
    """Long runs of minimal well-framed packets delivered back to back (a few KB, no key needed)."""
    out = []
    for typ, n in ((1, 1500), (0, 1200), (6, 1200), (15, 1100), (2, 1100), (1, 300)):
        out.append(b"".join(landev.v3_plain_packet(typ, j & 0xFFFF, b"") for j in range(n)))
    out.append(b"".join(landev.v3_plain_packet(1, 0, rb(rng, 64)) for _ in range(1100)))
    return out


def v3_hs_mutations(rng, key, sesskey, full=False):
    nonce = rb(rng, 32)
    p = landev.v3_plain_packet(1, 0, landev.hs_reply_payload(key, nonce))
    out = v3_header_mutations(rng, p, full)
    for n in [0, 1, 15, 16, 31, 32, 33, 47, 48, 63, 65, 79, 80, 81, 95, 96, 97, 128]:
        out.append(landev.v3_plain_packet(1, 0, (landev.hs_reply_payload(key, nonce) + rb(rng, 70))[:n]))
    out.append(landev.v3_plain_packet(1, 0, landev.hs_reply_payload(rb(rng, 32), nonce)))
    out.append(landev.v3_plain_packet(1, 0, rb(rng, 64)))
    # encrypted data before / instead of authentication: valid-looking encrypted responses under various keys
    inner = landev.v2_wrap(b"\xaa\x0b\xac" + bytes(8), 5)
    for k in (key, sesskey or rb(rng, 32), rb(rng, 32)):
        out.append(landev.v3_enc_packet(k, inner, 1))
        out.append(v3_enc_custom(k, inner, 1, cut=5))
    out.append(landev.v3_error_packet())
    for n in (0, 1, 5, 6, 8, 60, 200):
        out.append(rb(rng, n))
        out.append(b"\x83\x70" + rb(rng, n))
    return out


# ---- driving ---------------------------------------------------------------------------------------------------------------

def raw(b):
    return "raw:" + bytes(b).hex()


def batch(ver, phase, muts, *, seed, target="lan", level="lan"):
    """One client, a series of adversarial replies at one phase; a prompt exchange after each (recovery is C08's business,
    here it only brings the client back to a defined phase)."""
    s = sched.Session(version=ver, retries=3, seed=seed, target=target, ac=acdev.ACModel() if target == "ac" else None)
    if ver == 3 and phase != "hs":
        # the appliance's random value is its own choice: all zero, so that the session key is the configured key and the crafted packets of
        # v3_data_mutations (built under that key) are packets of THIS session - what follows the tag check is reached, not only the tag check
        s.dev.nonce_hook = lambda nonce: bytes(32)
    n = 0
    try:
        for m in muts:
            r = raw(m)
            if ver == 3 and phase == "hs":
                s.call_auth("good", reply=r, level=level)
                s.settle(hs=r)
                if n % 3 == 0:
                    s.call_send()
                    s.settle(hs=r, data=r)
            else:
                if ver == 3 and s.lan._protocol_version != 3:
                    s.call_auth("good")
                    s.settle()
                if phase == "read":
                    if target == "ac":
                        s.call_op("refresh", reply=r)
                    else:
                        s.call_send(reply=r)
                    s.settle(data=r)
                elif phase == "queued_silent":
                    # a VALID unsolicited frame reaches the idle client; the next request then goes unanswered for the whole retry budget
                    if s.lan._protocol is None or not s.lan._alive:
                        s.call_send()
                        s.settle()
                    fr = acdev.ACModel().state_frame(ftype=5)
                    if ver == 3:
                        cid = len(s.net.conns) - 1
                        if cid < 0 or not s.dev.sess.get(cid, {}).get("key"):
                            break                                  # the client never got a session up (judged from the events so far)
                        pkt = landev.v3_enc_packet(s.dev.sess[cid]["key"], landev.v2_wrap(fr, 7), 900 + n)
                    else:
                        pkt = landev.v2_wrap(fr, 7)
                    for _ in range(1 + n % 2):
                        if s.inject(pkt):
                            s.deliver(len(s.parked) - 1)
                    if target == "ac":
                        s.call_op("refresh", reply="none")
                    else:
                        s.call_send(reply="none")
                    s.settle(data="none")
                elif phase == "queued":
                    if s.lan._protocol is None or not s.lan._alive:
                        s.call_send()
                        s.settle()
                    if s.inject(m):
                        s.deliver(len(s.parked) - 1)
                    if target == "ac":
                        s.call_op("refresh")
                    else:
                        s.call_send()
                    s.settle()
                # back to a defined state
                if target == "ac":
                    s.call_op("refresh")
                else:
                    s.call_send()
                s.settle()
            n += 1
    finally:
        s.close()
    return {"events": s.trace, "steps": s.steps, "ver": ver, "phase": phase, "target": target, "level": level, "n": n}


def delivered(evs):
    return any(e.get("e") == "deliver" for e in evs)


def hangup_runs(ctx: Ctx):
    """The peer's byte stream ENDS (FIN / reset) in the middle of an exchange or handshake: after nothing, after a cut-off packet, after a complete
    (valid or malformed) reply, and right after a valid handshake reply of the handshake a send performs on its own."""
    rng = ctx.rng
    frame = acdev.ACModel().state_frame()
    runs = []
    k = 0
    for rep in range(ctx.pick(2, 30)):
        for ver in (2, 3):
            for target, level in (("lan", "lan"), ("ac", "dev" if ver == 3 else "lan")):
                k += 1
                s = sched.Session(version=ver, retries=3, seed=ctx.seed * 29 + k, target=target, ac=acdev.ACModel() if target == "ac" else None)
                n = 0
                try:
                    good = landev.v2_wrap(frame, 5)
                    streams = [b"", b"", good[:1], good[:5], good[:6], good[:40], good[:-1], rb(rng, 3), b"\x83", b"\x83\x70", b"\x83\x70\x00\x40\x20", None]
                    for st in streams:
                        for reset in (False, True):
                            if ver == 3 and s.lan._protocol_version != 3:
                                s.call_auth("good", level=level)
                                s.settle()
                            if ver == 3 and st is not None and st[:1] == b"\x5a":
                                cid = len(s.net.conns) - 1
                                full = landev.v3_enc_packet(s.dev.sess[cid]["key"], good, 7) if cid >= 0 and s.dev.sess.get(cid, {}).get("key") else good
                                st = full[:len(st)]
                            r = raw(st) if st is not None else None
                            if target == "ac":
                                s.call_op("refresh", reply=r)
                            else:
                                s.call_send(reply=r)
                            s.settle(data=r, hs=None, until=delivered)
                            if s.task is not None:
                                s.peerclose(reset=reset)              # the stream ends here; the call is still waiting
                                s.settle()
                            n += 1
                            # V3: the next command re-authenticates by itself; the peer answers that handshake properly and hangs up at once
                            if ver == 3:
                                if target == "ac":
                                    s.call_op("refresh")
                                else:
                                    s.call_send()
                                s.settle(until=lambda evs: any(e.get("e") == "deliver" and e.get("m") == "HSR" for e in evs))
                                if s.task is not None:
                                    s.peerclose(reset=reset)
                                    s.settle()
                                n += 1
                            if target == "ac":
                                s.call_op("refresh")
                            else:
                                s.call_send()
                            s.settle()
                finally:
                    s.close()
                runs.append({"events": s.trace, "steps": s.steps, "ver": ver, "phase": "hangup", "target": target, "level": level, "n": n, "muts": []})
    return runs


class _Scripted(acdev.ACModel):
    """An appliance whose answer to the n-th request of an operation is replaced by scripted frames (valid transport, adversarial frames)."""

    def __init__(self, **kw):
        super().__init__(**kw)
        self.script = {}          # request index within the operation -> list of frames
        self.count = 0

    def handle(self, f):
        normal = super().handle(f)
        k = self.count
        self.count += 1
        return self.script.get(k, normal)


def frame_catalogue(rng):
    """Well-formed frames in the wrong place / of the wrong type, and frames broken below the transport layer."""
    caps = bytes([0xB5, 2, 0x14, 0x02, 1, 0, 0x10, 0x02, 1, 1, 0, 0])
    state = acdev.encode_state(acdev.DEFAULT_STATE)
    props = bytes([0xB1, 1, 0x09, 0x00, 0x00, 1, 0x00])
    out = []
    for body in (caps, state, props, bytes([0xB0, 0]), bytes([0xC1, 0x21, 0x01, 0x44] + [0] * 16), bytes([0xB5]), bytes([0xB5, 9]), bytes([0xB5, 1, 0x14]),
                 bytes([0xB1]), bytes([0xB1, 3]), bytes([0xC0]), bytes([0xC0, 1, 2]), b"", rb(rng, 1), rb(rng, 7), rb(rng, 30)):
        for ftype in (2, 3, 4, 5, 6, 0xA0):
            out.append([acdev.resp_frame(ftype, body)])
    good = acdev.resp_frame(3, caps)
    out += [[good[:-1] + bytes([good[-1] ^ 1])], [good[:-2] + bytes([good[-2] ^ 1, good[-1]])], [good[:5]], [b"\xaa"], [bytes([0xAA, 200]) + good[2:]], [good, good], [good, acdev.resp_frame(5, caps)]]
    return out


def frame_level_runs(ctx: Ctx):
    """Device-level operations against an appliance that answers one of the operation's requests with frames of the wrong kind / type or broken
    frames (the transport delivers them intact): no operation raises."""
    rng = ctx.rng
    cat = frame_catalogue(rng)
    ops = ["get_capabilities", "refresh", "apply", "toggle_display", "start_self_clean"]
    runs = []
    k = 0
    for ver in (2, 3):
        for op in ops:
            for pos in (0, 1, 2):
                picks = cat if not ctx.quick else rng.sample(cat, 26)
                for ch in chunks(picks, 13):
                    k += 1
                    ac = _Scripted(caps_pages=[bytes([0xB5, 2, 0x14, 0x02, 1, 0, 0x10, 0x02, 1, 1, 1, 0]), bytes([0xB5, 1, 0x12, 0x02, 1, 1, 0, 0])],
                                   props={0x09: b"\x00", 0x0A: b"\x00", 0x42: b"\x01"})
                    s = sched.Session(version=ver, retries=3, seed=ctx.seed * 31 + k, target="ac", ac=ac)
                    n = 0
                    try:
                        if ver == 3:
                            s.call_auth("good", level="dev")
                            s.settle()
                        for frames in ch:
                            ac.count = 0
                            ac.script = {pos: frames}
                            s.call_op(op)
                            s.settle()
                            ac.script = {}
                            if n % 4 == 3:
                                s.call_op("get_capabilities")       # a sane exchange in between: later operations run on an object that has learned capabilities
                                s.settle()
                            n += 1
                    finally:
                        s.close()
                    runs.append({"events": s.trace, "steps": s.steps, "ver": ver, "phase": f"frames:{op}:{pos}", "target": "ac", "level": "dev" if ver == 3 else "lan", "n": n,
                                 "muts": [b"".join(fs).hex() for fs in ch]})
    return runs


def rehandshake_runs(ctx: Ctx):
    """Re-authentication of a session that already holds a key (explicitly, or by a send after the 12 h expiry) answered with wrong-phase traffic that
    is perfectly valid under the CURRENT session key: encrypted responses with payloads of every short length, a handshake reply under the session key."""
    rng = ctx.rng
    runs = []
    k = 0
    lens = list(range(0, 34)) + [47, 48, 63, 64, 65, 72]
    for rep in range(ctx.pick(1, 12)):
        for target, level in (("lan", "lan"), ("ac", "dev")):
            for mode in ("explicit", "expired"):
                k += 1
                s = sched.Session(version=3, retries=3, seed=ctx.seed * 31 + k, target=target, ac=acdev.ACModel() if target == "ac" else None)
                n = 0
                try:
                    for ln in (lens if not ctx.quick else rng.sample(lens, 14) + [1, 15, 17, 31]):
                        if s.lan._protocol is None or not s.lan._alive or not s.lan._protocol.authenticated:
                            s.call_auth("good", level=level)
                            s.settle()
                            if target == "ac":
                                s.call_op("refresh")
                            else:
                                s.call_send()
                            s.settle()
                        cid = len(s.net.conns) - 1
                        sk = s.dev.sess.get(cid, {}).get("key") if cid >= 0 else None
                        if not sk:
                            break                                  # no session could be brought up (judged from the events so far)
                        m = landev.v3_enc_packet(sk, rb(rng, ln), 40 + n) if ln != 64 or n % 2 else landev.v3_plain_packet(1, 0, landev.hs_reply_payload(sk, rb(rng, 32)))
                        r = raw(m)
                        if mode == "explicit":
                            s.call_auth("good", reply=r, level=level)
                            s.settle(hs=r)
                        else:
                            s.jumpauth()
                            if target == "ac":
                                s.call_op("refresh", reply=r)
                            else:
                                s.call_send(reply=r)
                            s.settle(hs=r)
                        n += 1
                        if target == "ac":
                            s.call_op("refresh")
                        else:
                            s.call_send()
                        s.settle()
                finally:
                    s.close()
                runs.append({"events": s.trace, "steps": s.steps, "ver": 3, "phase": "rehandshake_" + mode, "target": target, "level": level, "n": n, "muts": []})
    return runs


def chunks(xs, n):
    return [xs[i:i + n] for i in range(0, len(xs), n)]


def collect(ctx: Ctx):
    rng = ctx.rng
    full = not ctx.quick
    frame = acdev.ACModel().state_frame()
    key = sched.GOOD_KEY
    runs = []
    k = 0
    reps = ctx.pick(3, 40)
    for rep in range(reps):
        plans = [
            (3, "hs", v3_hs_mutations(rng, key, None, full), "lan", "lan"),
            (3, "hs", v3_hs_mutations(rng, key, None, full), "ac", "dev"),
            (3, "read", v3_data_mutations(rng, key, frame, full), "lan", "lan"),
            (3, "read", v3_data_mutations(rng, key, frame, False), "ac", "lan"),
            (3, "queued", v3_data_mutations(rng, key, frame, False), "lan", "lan"),
            (3, "read", v3_floods(rng), "lan", "lan"),
            (3, "read", v3_floods(rng)[:3], "ac", "lan"),
            (3, "queued", v3_floods(rng)[:3], "lan", "lan"),
            (2, "read", v2_mutations(rng, frame, full), "lan", "lan"),
            (2, "read", v2_mutations(rng, frame, False), "ac", "lan"),
            (2, "queued", v2_mutations(rng, frame, False), "lan", "lan"),
            (2, "queued", v2_mutations(rng, frame, False), "ac", "lan"),
            (2, "queued_silent", [b""] * 6, "lan", "lan"),
            (2, "queued_silent", [b""] * 4, "ac", "lan"),
            (3, "queued_silent", [b""] * 6, "lan", "lan"),
            (3, "queued_silent", [b""] * 4, "ac", "lan"),
        ]
        for ver, phase, muts, target, level in plans:
            for ch in chunks(muts, 12):
                k += 1
                r = batch(ver, phase, ch, seed=ctx.seed * 13 + k, target=target, level=level)
                r["muts"] = [m.hex() for m in ch]
                runs.append(r)
                for m in ch:
                    ctx.count_distinct((ver, phase, target, m))
    extra = hangup_runs(ctx) + rehandshake_runs(ctx) + frame_level_runs(ctx)
    for j, r in enumerate(extra):
        ctx.count_distinct((r["ver"], r["phase"], r["target"], j))
    return runs + extra


def run(ctx: Ctx) -> int:
    session.clause_reachability(ctx, "C09")
    session.mc(ctx, 3, 2, name="C09_mc_v3_all", calls=2, hs="HSAll", data="DataAll", coverage=True)
    session.mc(ctx, 2, 3, name="C09_mc_v2_all", calls=3, fly=3)
    # liveness: with an environment that keeps resolving what is pending, every call returns (FairSpec => EveryCallReturns)
    session.live(ctx, 3, 2, name="C09_live_v3_c1_all", calls=1, hs="HSAll", data="DataNoise", life=True)
    session.live(ctx, 3, 2, name="C09_live_v3_c2", calls=2, hs="HSValid" if ctx.quick else "HSSome", data="DataValid" if ctx.quick else "DataSome", life=True)
    session.live(ctx, 2, 3, name="C09_live_v2_c2", calls=2, data="V2All", life=True)
    if not ctx.quick:
        session.live(ctx, 3, 3, name="C09_live_v3_r3_c2", calls=2, hs="HSValid", data="DataValid", life=True)      # (HSSome x DataNoiseSome: 8.6 M states, 22 min - passed once, too slow to keep)
        session.live(ctx, 3, 3, name="C09_live_v3_r3_c1_all", calls=1, hs="HSAll", data="DataNoise", life=True)
    runs = collect(ctx)
    tot = 0
    for ver in (2, 3):
        for dev in (False, True):
            sub = [r for r in runs if r["ver"] == ver and (r["level"] == "dev") == dev]
            if sub:
                session.validate(ctx, sub, ver=ver, retries=3, name=f"C09_v{ver}_{'dev' if dev else 'lan'}", what=f"adversarial peer (V{ver})",
                                 conformance=False, devlevel=dev)
                tot += sum(r["n"] for r in sub)
    ctx.extra["peer_scripts"] = tot
    outcomes = {}
    for r in runs:
        for e in r["events"]:
            if e["e"] == "ret":
                outcomes[e["r"]] = outcomes.get(e["r"], 0) + 1
            if e["e"] == "devret":
                outcomes["dev:" + ("raised " + e.get("exc", "") if e["raised"] else "returned")] = outcomes.get("dev:" + ("raised " + e.get("exc", "") if e["raised"] else "returned"), 0) + 1
    ctx.extra["outcomes_seen"] = outcomes
    # canaries: an outcome outside the alphabet / a raising device-level call must be rejected
    r = next(r for r in runs if r["target"] == "lan")
    ev = copy.deepcopy(r["events"])
    k = next(i for i, e in enumerate(ev) if e["e"] == "ret" and e["r"] in ("proto", "timeout", "auth"))
    ev[k]["r"] = "other:ValueError"
    r2 = next(r for r in runs if r["target"] == "ac" and any(e["e"] == "devret" for e in r["events"]))
    ev2 = copy.deepcopy(r2["events"])
    k2 = next(i for i, e in enumerate(ev2) if e["e"] == "devret")
    ev2[k2]["raised"] = True
    cans = [{"events": ev[:k + 1]}, {"events": ev2[:k2 + 1]}]
    bad = ctx.validate_chains("Trace_Mon", cans, name="C09_canary",
                              consts=f'CONSTANTS\nRetries = 3\nVer = {r["ver"]}\nCtrMod = 65536\nHSRetries = 3\nDevLevel = FALSE\nFocus = "C09"\n')
    ctx.traces_validated -= len(cans) - len(bad)
    ctx.evaluations -= len(cans)
    if len(bad) != 2:
        raise MachineryError("the monitor accepted a C09 canary")
    ctx.extra["canaries_rejected"] = {str(i): v for i, v in bad.items()}
    ctx.evaluations = tot
    ctx.sample({"ver": runs[0]["ver"], "phase": runs[0]["phase"], "peer_bytes": runs[0]["muts"][:4],
                "outcomes": [e["r"] for e in runs[0]["events"] if e["e"] == "ret"][:8]})
    return ctx.finish(
        rule="grammar-aware mutations of valid V2 and V3 traffic (header fields at boundary values, all type/pad nibbles, ciphertext lengths 1..15 mod "
             "16, valid tag/signature over wrong padding / random / empty / misaligned ciphertext, truncations, bit flips, other key, random bytes) at "
             "the phases {handshake wait, read wait, queued before the next exchange}; the peer's stream ENDING (FIN / reset) after nothing / a cut-off packet / a "
             "complete reply and right after the valid reply to a handshake a send performs on its own; re-authentication (explicit / after expiry) answered with "
             "encrypted responses of every short payload length valid under the current session key; through LAN.send, LAN.authenticate, Device.authenticate, "
             "AirConditioner.refresh; distinct = (version, phase, API, peer bytes)",
        assumptions=["F3: for malformed input the outcome may be any of ProtocolError / AuthenticationError / Timeout",
                     "an exception raised inside data_received is handled as asyncio's transports do (connection dropped), so it surfaces as a timeout"])


def replay(ctx: Ctx, path: str) -> int:
    import json
    c = json.load(open(path))["case"]
    session.validate(ctx, [{"events": c["events"], "steps": []}], ver=c.get("ver", 3), retries=c.get("retries", 3), name="C09_replay", what="recorded events",
                     conformance=False)
    return ctx.finish(rule="replay of one recorded execution")
