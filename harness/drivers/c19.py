"""C19 - cloud token retrieval follows the API contract and returns only matching credentials.

(a) TLC explores spec/Cloud.tla: login-id -> login -> getToken with every sequence of per-attempt outcomes {ok, timeout, HTTP error, API
    error} and token lists with the match absent / first / middle / last / duplicated / among near misses: Budget (<= Retries
    attempts per request), OnlyMatching, AbsentIsError.
(b) the behaviours of the model (Gen_Cloud) are replayed on the real NetHomePlusCloud talking to a model server injected through
    get_async_client (harness/cloudsrv.py: httpx.MockTransport, verification with hashlib only).
(c) TLC (Trace_Cloud) judges every request the server received (endpoint, signature over path + key-sorted query + app key, account,
    password derivation from the issued login id, session id issued by login, udpid) - the SHA-256 inputs are re-derived by the spec -
    and every call outcome (attempt budget, error mapping, returned token/key = the matching entry).  End to end:
    Discover.discover(auto_connect=True) against a V3 appliance whose credentials are registered under the udpid of its id in little- or
    big-endian byte order; Device.token/key and the refreshed state are compared.
"""
from __future__ import annotations

import asyncio
import copy
import json
import string

from ..common import B, Ctx
from ..tlc import MachineryError, run_tlc, run_apalache
from .. import vloop, cloudsrv, disc, landev, acdev, refcrypto as rc
from .c17 import rand_identity, build

PID = "C19"
CH = string.ascii_letters + string.digits + "+@._- &=%#/:!"


def scenarios(ctx, name, calls, lists, cap, outcomes="AllOutcomes"):
    cfg = (f"INIT GInit\nNEXT GNext\nCONSTANTS\nRetries = 3\nOutcomes <- {outcomes}\nTokenLists <- {lists}\nMaxCalls = {calls}\n"
           "CONSTRAINT GEmit\nCHECK_DEADLOCK FALSE\n")
    r = run_tlc("Gen_Cloud", cfg, name=name, workers=1, timeout=1800, heap="6g")
    ctx.checker_cmds.append(r.cmd)
    seen, out = set(), []
    for pr in r.prints:
        if isinstance(pr, list) and pr and pr[0] == "SCN" and pr[1] not in seen:
            seen.add(pr[1])
            out.append(json.loads(pr[1]))
    if not out:
        raise MachineryError("Gen_Cloud produced no scenario")
    total = len(out)
    if len(out) > cap:
        out = ctx.rng.sample(out, cap)
    return out, total


def rand_text(rng, n):
    return "".join(rng.choice(CH) for _ in range(n))


def concrete_list(rng, abstract, udpid):
    out = []
    for e in abstract:
        if e["udpId"] == 1:
            u = udpid
        else:
            u = rng.choice([udpid[:-1] + ("0" if udpid[-1] != "0" else "1"), udpid.upper() if udpid.upper() != udpid else udpid + "0", udpid[1:], rc.sha256(bytes([rng.randrange(256)])).hex()[:32]])
        out.append({"udpId": u, "token": rc.sha256(rng.randbytes(8)).hex() * 2, "key": rc.sha256(rng.randbytes(8)).hex()})
    return out


def replay(ctx, scn, seed, region_mode):
    """One client lifetime: the scenario's calls against the model server; returns the trace for Trace_Cloud."""
    from msmart.cloud import NetHomePlusCloud, CloudError
    import random
    rng = random.Random(seed)
    if region_mode:
        region = rng.choice(["DE", "KR", "US"])
        account, password = NetHomePlusCloud.CLOUD_CREDENTIALS[region]
        kw = {}
    else:
        region = "US"
        account, password = rand_text(rng, rng.randrange(3, 30)), rand_text(rng, rng.randrange(1, 24))
        kw = dict(account=account, password=password)
    vloop.install_clock()
    loop = vloop.new_loop()
    vloop.Net(loop)
    srv = cloudsrv.ModelCloud(account, password, rng=rng)
    srv.verify = False           # the scripted outcome stands; whether the request was verifiable is decided by the spec
    events = srv.events

    async def go():
        cloud = NetHomePlusCloud(region, get_async_client=srv.client, **kw)
        k = 0
        while k < len(scn):
            st = scn[k]
            k += 1
            script = []
            while k < len(scn) and scn[k]["a"] == "att":
                script.append(scn[k]["out"])
                k += 1
            srv.script = script
            if st["a"] == "login":
                events.append({"ev": "call", "op": "login", "udpid": [], "list": []})
                try:
                    await asyncio.wait_for(cloud.login(), 600)
                    events.append({"ev": "ret", "r": "ok", "token": [], "key": []})
                except CloudError:
                    events.append({"ev": "ret", "r": "cloud_error", "token": [], "key": []})
                except Exception as ex:  # noqa: BLE001 - code under test
                    events.append({"ev": "ret", "r": "other:" + type(ex).__name__, "token": [], "key": []})
            else:
                udpid = rc.sha256(rng.randbytes(6)).hex()[:32]
                lst = concrete_list(rng, st["lst"], udpid)
                srv.token_list = lst
                events.append({"ev": "call", "op": "tok", "udpid": B(udpid.encode()),
                               "list": [{"udpId": B(e["udpId"].encode()), "token": B(e["token"].encode()), "key": B(e["key"].encode())} for e in lst]})
                try:
                    t, key = await asyncio.wait_for(cloud.get_token(udpid), 600)       # (a call that never returns is an outcome, too: TimeoutError here)
                    events.append({"ev": "ret", "r": "ok", "token": B(str(t).encode()), "key": B(str(key).encode())})
                except CloudError:
                    events.append({"ev": "ret", "r": "cloud_error", "token": [], "key": []})
                except Exception as ex:  # noqa: BLE001
                    events.append({"ev": "ret", "r": "other:" + type(ex).__name__, "token": [], "key": []})
    vloop.run(loop, go())
    return {"account": B(account.encode()), "password": B(password.encode()), "events": events, "scn": scn, "region_mode": region_mode}


def auto_connect_runs(ctx):
    """Discover.discover(auto_connect=True): V3 appliance registered in the cloud under udpid(id LE) or udpid(id BE)."""
    from msmart.device import AirConditioner
    rng = ctx.rng
    bad = []
    traces = []
    n = 0
    for k in range(ctx.pick(16, 400)):
        endian = "little" if k % 2 == 0 else "big"
        ident = rand_identity(rng, typ=0xAC, port=6444, devid=[rng.getrandbits(48) | 1, rng.getrandbits(40) | 1, rng.getrandbits(16) | 1, (rng.getrandbits(40) << 8) | 1][k % 4])
        ip = "10.7.%d.%d" % (rng.randrange(256), rng.randrange(1, 255))
        tok, key = rng.randbytes(64), rng.randbytes(32)
        other_tok, other_key = rng.randbytes(64), rng.randbytes(32)
        reg = landev.udpid(ident["devid"].to_bytes(6, endian)).hex()
        oth = landev.udpid(ident["devid"].to_bytes(6, "big" if endian == "little" else "little")).hex()
        account, password = rand_text(rng, 12), rand_text(rng, 10)
        srv = cloudsrv.ModelCloud(account, password, rng=rng)
        faults = rng.choice([[], [], ["timeout"], ["timeout", "timeout"]])
        srv.script = list(faults)

        def token_for(u, reg=reg, oth=oth, tok=tok, key=key, other_tok=other_tok, other_key=other_key):
            # the cloud answers for whatever udpid is asked (F11): the registered credentials or somebody else's
            lst = [{"udpId": "0" * 32, "token": "00" * 64, "key": "11" * 32}]
            if u == reg:
                lst.append({"udpId": u, "token": tok.hex(), "key": key.hex()})
            elif u == oth:
                lst.append({"udpId": u, "token": other_tok.hex(), "key": other_key.hex()})
            return lst
        srv.token_for = token_for
        state = dict(power=True, t2=rng.randrange(34, 61), mode=rng.randrange(1, 6))

        def tcp(loop, net, state=state, tok=tok, key=key, k=k):
            d = landev.LanDevice(loop, net, acdev.ACModel(state=state), version=3, token=tok, key=key, seed=k)
            if k % 3 == 2:
                d.reply_filter = lambda kind, tr, packets: [] if kind == "hs_bad" else packets      # this unit stays silent when it does not know the token
            elif k % 6 == 1:
                # this unit answers an unknown token with its error packet only after 2.5 s: the request and its retransmission are both answered late
                seen_bad = {}

                def late(kind, tr, packets, loop=loop, seen_bad=seen_bad):
                    if kind == "hs_bad":
                        n = seen_bad.get(tr.cid, 0)
                        seen_bad[tr.cid] = n + 1
                        for q in packets:
                            loop.call_later(2.5 if n == 0 else 0.5, tr.feed, q)       # the answers to the request and to its retransmission arrive together
                        return []
                    return packets
                d.reply_filter = late
        v = disc.run_discovery([(0.3, ip, 6445, build(rng, ident, ip, 3))], auto_connect=True, tcp_devices=tcp, cloud_client=srv.client,
                               account=account, password=password)
        n += 1
        devs = v.pop("devices", [])
        d0 = devs[0] if devs else None
        e2e = {"ev": "e2e", "exc": v["exc"], "found": bool(d0 is not None and isinstance(d0, AirConditioner)),
               "dev_token": B(bytes.fromhex(d0.token)) if d0 is not None and d0.token else [], "dev_key": B(bytes.fromhex(d0.key)) if d0 is not None and d0.key else [],
               "reg_token": B(tok), "reg_key": B(key), "online": bool(d0 is not None and d0.online and int(round(d0.target_temperature * 2)) == state["t2"]),
               "endian": endian, "faults": faults}
        # the requests of this flow are judged by the spec as well: login, getToken(LE) [, getToken(BE)]
        evs = [{"ev": "call", "op": "login", "udpid": [], "list": []}]
        reqs = list(srv.events)
        i = 0
        while i < len(reqs) and bytes(reqs[i]["path"]).decode() != "/v1/iot/secure/getToken":
            evs.append(reqs[i])
            i += 1
        evs.append({"ev": "ret", "r": "ok", "token": [], "key": []})
        for u in (landev.udpid(ident["devid"].to_bytes(6, "little")).hex(), landev.udpid(ident["devid"].to_bytes(6, "big")).hex()):
            if i >= len(reqs):
                break
            lst = token_for(u)
            evs.append({"ev": "call", "op": "tok", "udpid": B(u.encode()),
                        "list": [{"udpId": B(e["udpId"].encode()), "token": B(e["token"].encode()), "key": B(e["key"].encode())} for e in lst]})
            while i < len(reqs):
                evs.append(reqs[i])
                done = reqs[i]["out"] != "timeout"
                i += 1
                if done:
                    break
            evs.append({"ev": "ret", "r": "ok", "token": B(lst[-1]["token"].encode()), "key": B(lst[-1]["key"].encode())})
        evs.append(e2e)
        traces.append({"account": B(account.encode()), "password": B(password.encode()), "events": evs, "scn": [("auto_connect", endian)] + [("att", f) for f in faults], "region_mode": False})
    traces += retry_after_failed_login(ctx)
    traces += region_sequence_runs(ctx)
    traces += auto_connect_fault_runs(ctx)
    traces += concurrent_token_runs(ctx)
    traces += multi_device_runs(ctx)
    return n, bad, traces


def multi_device_runs(ctx):
    """ONE Discover.discover(auto_connect=True) answered by two or three V3 units while the cloud is slow and keeps one live session per account: every
    unit ends up authenticated with the credentials registered for it."""
    from msmart.device import AirConditioner
    rng = ctx.rng
    out = []
    for k in range(ctx.pick(6, 60)):
        n = rng.choice([2, 3])
        account, password = rand_text(rng, 12), rand_text(rng, 10)
        srv = cloudsrv.ModelCloud(account, password, rng=rng)
        srv.single_session = True
        srv.delay = rng.choice([0.3, 0.8])
        units, plan, regs = [], [], {}
        for j in range(n):
            ident = rand_identity(rng, typ=0xAC, port=6444 + j, devid=rng.getrandbits(48) | 1)
            ip = "10.6.%d.%d" % (k % 250, j + 1)
            tok, key = rng.randbytes(64), rng.randbytes(32)
            endian = rng.choice(["little", "big"])
            regs[landev.udpid(ident["devid"].to_bytes(6, endian)).hex()] = (tok, key)
            units.append((ident, ip, tok, key))
            plan.append((0.2 + 0.05 * j, ip, 6445, build(rng, ident, ip, 3)))
        junk_tok, junk_key = rng.randbytes(64).hex(), rng.randbytes(32).hex()
        srv.token_for = lambda u, regs=regs: [{"udpId": u, "token": regs[u][0].hex(), "key": regs[u][1].hex()}] if u in regs else [{"udpId": u, "token": junk_tok, "key": junk_key}]

        def tcp(loop, net, units=units, k=k):
            # one appliance per address behind the simulated network: the LanDevice answers on whatever connection reaches it, told apart by the token
            devs = [landev.LanDevice(loop, net, acdev.ACModel(), version=3, token=t, key=ky, seed=k * 10 + j) for j, (_, _, t, ky) in enumerate(units)]
            first = devs[0]
            orig = [d.on_bytes for d in devs]

            def on_bytes(tr, data):
                # route by the token carried in handshake requests; data packets go to the device that owns the connection
                owner = getattr(tr, "_owner", None)
                if owner is None and len(data) > 8 and data[5] & 0xF == 0:
                    for d in devs:
                        if data[8:] == d.token:
                            owner = d
                            tr._owner = d
                            break
                (owner or first).on_bytes(tr, data) if False else (orig[devs.index(owner)] if owner else orig[0])(tr, data)
            net.on_bytes = on_bytes

            def on_connect(tr):
                for d in devs:
                    d.on_connect(tr)
            net.on_connect = on_connect
        v = disc.run_discovery(plan, auto_connect=True, tcp_devices=tcp, cloud_client=srv.client, account=account, password=password, timeout=3)
        devs = v.pop("devices", [])
        evs = []
        for ident, ip, tok, key in units:
            d0 = next((d for d in devs if str(d.ip) == ip), None)
            evs.append({"ev": "e2e", "exc": v["exc"], "found": bool(d0 is not None and isinstance(d0, AirConditioner)),
                        "dev_token": B(bytes.fromhex(d0.token)) if d0 is not None and d0.token else [], "dev_key": B(bytes.fromhex(d0.key)) if d0 is not None and d0.key else [],
                        "reg_token": B(tok), "reg_key": B(key), "online": bool(d0 is not None and d0.online), "endian": "", "faults": []})
        out.append({"account": B(account.encode()), "password": B(password.encode()), "events": evs, "scn": [("multi_device_auto_connect", n)], "region_mode": False})
    return out


def concurrent_token_runs(ctx):
    """Several get_token() calls in flight on ONE cloud object while the cloud is slow (seconds pass between building a request and sending it):
    every request that reaches the server still verifies.  The lock serialises the requests, so each call's requests are judged as one call."""
    from msmart.cloud import NetHomePlusCloud, CloudError
    import random
    out = []
    for k in range(ctx.pick(6, 80)):
        rng = random.Random(ctx.seed * 131 + k)
        account, password = rand_text(rng, rng.randrange(3, 20)), rand_text(rng, rng.randrange(1, 16))
        vloop.install_clock()
        loop = vloop.new_loop()
        vloop.Net(loop)
        srv = cloudsrv.ModelCloud(account, password, rng=rng)
        srv.verify = False
        delays = [rng.choice([0, 0.4, 1.3, 2.6]) for _ in range(8)]

        async def slow(request, srv=srv, delays=delays):
            import asyncio
            if request.url.path.endswith("getToken") and delays:
                await asyncio.sleep(delays.pop(0))
            return srv.handle(request)
        import httpx
        client = lambda slow=slow: httpx.AsyncClient(transport=httpx.MockTransport(slow))
        udpids = [rc.sha256(rng.randbytes(6)).hex()[:32] for _ in range(rng.choice([2, 3]))]
        lists = {u: concrete_list(rng, [{"udpId": 2}, {"udpId": 1}], u) for u in udpids}
        srv.token_for = lambda u, lists=lists: lists.get(u, [])
        results = {}

        async def go():
            import asyncio
            cloud = NetHomePlusCloud("US", account=account, password=password, get_async_client=client)
            await cloud.login()

            async def one(u):
                try:
                    t, key = await cloud.get_token(u)
                    results[u] = {"ev": "ret", "r": "ok", "token": B(str(t).encode()), "key": B(str(key).encode())}
                except CloudError:
                    results[u] = {"ev": "ret", "r": "cloud_error", "token": [], "key": []}
                except Exception as ex:  # noqa: BLE001
                    results[u] = {"ev": "ret", "r": "other:" + type(ex).__name__, "token": [], "key": []}
            await asyncio.gather(*(one(u) for u in udpids))
        vloop.run(loop, go())
        reqs = list(srv.events)
        evs = [{"ev": "call", "op": "login", "udpid": [], "list": []}]
        evs += [r for r in reqs if not bytes(r["path"]).endswith(b"getToken")]
        evs.append({"ev": "ret", "r": "ok", "token": [], "key": []})
        for u in udpids:
            lst = lists[u]
            evs.append({"ev": "call", "op": "tok", "udpid": B(u.encode()),
                        "list": [{"udpId": B(e["udpId"].encode()), "token": B(e["token"].encode()), "key": B(e["key"].encode())} for e in lst]})
            evs += [r for r in reqs if bytes(r["path"]).endswith(b"getToken") and any(bytes(f["k"]) == b"udpid" and bytes(f["v"]) == u.encode() for f in r["fields"])]
            evs.append(results.get(u, {"ev": "ret", "r": "other:missing", "token": [], "key": []}))
        out.append({"account": B(account.encode()), "password": B(password.encode()), "events": evs, "scn": [("concurrent_get_token", len(udpids))], "region_mode": False})
    return out


def auto_connect_fault_runs(ctx):
    """Discover.discover(auto_connect=True) of a V3 device while the cloud fails at one chosen step of login-id -> login -> getToken(LE) -> getToken(BE)
    with an API error code, an HTTP failure or a timeout on every attempt: the failure surfaces as a cloud error (it is not swallowed)."""
    rng = ctx.rng
    out = []
    steps = ["login-id", "login", "getToken", "second getToken"]
    k = 0
    for rep in range(ctx.pick(1, 12)):
        for si, step in enumerate(steps):
            for fault in ("api", "http", "timeout"):
                k += 1
                ident = rand_identity(rng, typ=0xAC, port=6444, devid=rng.getrandbits(48) | 1)
                ip = "10.8.%d.%d" % (rng.randrange(256), rng.randrange(1, 255))
                tok, key = rng.randbytes(64), rng.randbytes(32)
                account, password = rand_text(rng, 12), rand_text(rng, 10)
                srv = cloudsrv.ModelCloud(account, password, rng=rng)
                srv.script = ["ok"] * si + ([fault] if fault != "timeout" else ["timeout"] * 3)
                wrong = rng.randbytes(64).hex(), rng.randbytes(32).hex()
                # the first udpid is answered with credentials the device rejects, so that a second getToken is needed
                srv.token_for = lambda u, wrong=wrong: [{"udpId": u, "token": wrong[0], "key": wrong[1]}]

                def tcp(loop, net, tok=tok, key=key, k=k):
                    landev.LanDevice(loop, net, acdev.ACModel(), version=3, token=tok, key=key, seed=k)
                v = disc.run_discovery([(0.3, ip, 6445, build(rng, ident, ip, 3))], auto_connect=True, tcp_devices=tcp, cloud_client=srv.client,
                                       account=account, password=password)
                v.pop("devices", None)
                out.append({"account": B(account.encode()), "password": B(password.encode()),
                            "events": [{"ev": "e2ef", "exc": v["exc"], "fault": fault, "step": step}],
                            "scn": [("auto_connect_cloud_fault", step, fault)], "region_mode": False})
    return out


def region_sequence_runs(ctx):
    """Several discoveries in ONE process, with the built-in credentials of different regions and the same client factory: every discovery
    must log in with the account of ITS region (the device is registered in that account only)."""
    from msmart.cloud import NetHomePlusCloud
    rng = ctx.rng
    out = []
    accounts = {a: p for a, p in NetHomePlusCloud.CLOUD_CREDENTIALS.values()}
    srv = cloudsrv.ModelCloud("", "", rng=rng)
    srv.accounts = accounts
    cur = {}

    def token_for(u, account):
        lst = [{"udpId": "e" * 32, "token": "00" * 64, "key": "11" * 32}]
        if u == cur["reg"] and account == cur["account"]:
            lst.append({"udpId": u, "token": cur["tok"].hex(), "key": cur["key"].hex()})
        else:
            lst.append({"udpId": u, "token": "44" * 64, "key": "55" * 32})
        return lst
    srv.token_for = token_for
    client = srv.client                      # the SAME factory object for every discovery
    seq = ["US", "US", "DE", "KR", "US", "DE"] if ctx.quick else ["US", "US", "DE", "KR", "US", "DE"] * 6
    for k, region in enumerate(seq):
        ident = rand_identity(rng, typ=0xAC, port=6444, devid=rng.getrandbits(48) | (1 << 47))
        ip = "10.11.%d.%d" % (k % 250, rng.randrange(1, 255))
        tok, key = rng.randbytes(64), rng.randbytes(32)
        endian = rng.choice(["little", "big"])
        cur.update(reg=landev.udpid(ident["devid"].to_bytes(6, endian)).hex(), account=NetHomePlusCloud.CLOUD_CREDENTIALS[region][0], tok=tok, key=key)
        state = dict(power=True, t2=rng.randrange(34, 61), mode=3)

        def tcp(loop, net, state=state, tok=tok, key=key):
            landev.LanDevice(loop, net, acdev.ACModel(state=state), version=3, token=tok, key=key, seed=k)
        v = disc.run_discovery([(0.3, ip, 6445, build(rng, ident, ip, 3))], auto_connect=True, tcp_devices=tcp, cloud_client=client, region=region)
        devs = v.pop("devices", [])
        d0 = devs[0] if devs else None
        e2e = {"ev": "e2e", "exc": v["exc"], "found": bool(d0 is not None),
               "dev_token": B(bytes.fromhex(d0.token)) if d0 is not None and d0.token else [], "dev_key": B(bytes.fromhex(d0.key)) if d0 is not None and d0.key else [],
               "reg_token": B(tok), "reg_key": B(key), "online": bool(d0 is not None and d0.online), "endian": endian, "faults": []}
        out.append({"account": B(b""), "password": B(b""), "events": [e2e], "scn": [("discovery_in_region", region, k)], "region_mode": True})
    return out


def retry_after_failed_login(ctx):
    """discover(auto_connect=False) finds two V3 devices; connect(dev1) meets a failing cloud login; connect(dev2) afterwards, with the
    cloud healthy again, must log in afresh and authenticate the device."""
    from msmart.discover import Discover
    from msmart.device import AirConditioner
    rng = ctx.rng
    out = []
    for k in range(ctx.pick(8, 120)):
        fail = rng.choice([["api"], ["http"], ["timeout", "timeout", "timeout"], ["ok", "api"], ["ok", "timeout", "timeout", "timeout"]])
        idents = [rand_identity(rng, typ=0xAC, port=6444, devid=rng.getrandbits(48) | 1) for _ in range(2)]
        ips = ["10.8.%d.%d" % (k % 250, 1 + j) for j in range(2)]
        creds = [(rng.randbytes(64), rng.randbytes(32)) for _ in range(2)]
        endian = rng.choice(["little", "big"])
        reg = {landev.udpid(idents[j]["devid"].to_bytes(6, endian)).hex(): creds[j] for j in range(2)}
        account, password = rand_text(rng, 12), rand_text(rng, 10)
        srv = cloudsrv.ModelCloud(account, password, rng=rng)

        def token_for(u, reg=reg):
            lst = [{"udpId": "f" * 32, "token": "00" * 64, "key": "11" * 32}]
            if u in reg:
                lst.append({"udpId": u, "token": reg[u][0].hex(), "key": reg[u][1].hex()})
            else:
                lst.append({"udpId": u, "token": "22" * 64, "key": "33" * 32})
            return lst
        srv.token_for = token_for
        vloop.install_clock()
        loop = vloop.new_loop()
        net = vloop.Net(loop)
        state = dict(power=True, t2=rng.randrange(34, 61), mode=2)
        devs_by_tok = {}

        class Multi(landev.LanDevice):
            pass
        # one TCP endpoint object serves both appliances: it accepts either token (each with its own key)
        dev = landev.LanDevice(loop, net, acdev.ACModel(state=state), version=3, token=creds[1][0], key=creds[1][1], seed=k)
        plan = [(0.2 + 0.1 * j, ips[j], 6445, build(rng, idents[j], ips[j], 3)) for j in range(2)]
        res = {}

        async def go():
            armed = {"x": False}

            def on_udp(tr, data, addr):
                if armed["x"]:
                    return
                armed["x"] = True
                for (delay, ip, port, d) in plan:
                    loop.call_later(delay, tr.inject, d, (ip, port))
            net.on_udp = on_udp
            Discover._lock = None
            found = await Discover.discover(auto_connect=False, timeout=2, account=account, password=password, get_async_client=srv.client)
            by_ip = {str(d.ip): d for d in found}
            d1, d2 = by_ip.get(ips[0]), by_ip.get(ips[1])
            srv.script = list(fail)
            try:
                await Discover.connect(d1)
                res["first"] = "returned"
            except Exception as ex:  # noqa: BLE001
                res["first"] = type(ex).__name__
            srv.script = []
            try:
                r = await Discover.connect(d2)
                res["exc"] = "" if r else "connect returned False"
            except Exception as ex:  # noqa: BLE001
                res["exc"] = type(ex).__name__
            res["d2"] = d2
        vloop.run(loop, go())
        d2 = res.get("d2")
        e2e = {"ev": "e2e", "exc": res.get("exc", "no result"), "found": bool(d2 is not None and isinstance(d2, AirConditioner)),
               "dev_token": B(bytes.fromhex(d2.token)) if d2 is not None and d2.token else [], "dev_key": B(bytes.fromhex(d2.key)) if d2 is not None and d2.key else [],
               "reg_token": B(creds[1][0]), "reg_key": B(creds[1][1]), "online": bool(d2 is not None and d2.online), "endian": endian, "faults": fail}
        out.append({"account": B(account.encode()), "password": B(password.encode()), "events": [e2e],
                    "scn": [("connect_after_failed_login", endian)] + [("att", f) for f in fail], "region_mode": False})
    return out


def judge(ctx, traces, what, canaries=True):
    cans = []
    src = next((t for t in traces if sum(1 for e in t["events"] if e["ev"] == "req" and e["out"] == "ok") >= 3
                and any(e["ev"] == "req" and bytes(e["path"]).endswith(b"getToken") for e in t["events"])
                and any(e["ev"] == "req" and bytes(e["path"]).endswith(b"/v1/user/login") for e in t["events"])), None) if canaries else None
    if canaries and src is None:
        ctx.notes.append(f"{what}: no execution with a complete login + getToken flow to build canaries from")
    if src is not None:
        k = next(i for i, e in enumerate(src["events"]) if e["ev"] == "req" and bytes(e["path"]).endswith(b"getToken"))
        c = copy.deepcopy(src)
        f = next(x for x in c["events"][k]["fields"] if bytes(x["k"]) == b"sessionId")
        f["v"] = B(b"stale-session")                    # wrong session id (signature oracle no longer matches either)
        cans.append(c)
        c = copy.deepcopy(src)
        f = next(x for x in c["events"][k]["fields"] if bytes(x["k"]) == b"sign")
        f["v"][0] = 48 if f["v"][0] != 48 else 49       # signature altered
        cans.append(c)
        r = next((i for i, e in enumerate(src["events"]) if e["ev"] == "ret" and e["r"] == "ok" and e["token"]), None)
        if r is not None:
            c = copy.deepcopy(src)
            c["events"][r]["token"][0] ^= 1             # token of another entry
            cans.append(c)
        j = next(i for i, e in enumerate(src["events"]) if e["ev"] == "req" and bytes(e["path"]).endswith(b"/v1/user/login"))
        c = copy.deepcopy(src)
        f = next(x for x in c["events"][j]["fields"] if bytes(x["k"]) == b"password")
        f["v"][3] = 48 if f["v"][3] != 48 else 49       # password hash altered
        cans.append(c)
    bad = ctx.validate_chains("Trace_Cloud", [{"account": t["account"], "password": t["password"], "events": t["events"]} for t in traces + cans],
                              name=f"C19_{what}", consts="CONSTANTS\nRetries = 3\nOutcomes <- AllOutcomes\nTokenLists <- MCLists\nMaxCalls = 1000\n")
    n = len(traces)
    for i, clause in sorted(bad.items()):
        if i >= n:
            continue
        if clause.startswith("harness") or clause.startswith("stuck"):
            raise MachineryError(f"Trace_Cloud could not judge trace {i} ({what}): {clause}")
        t = traces[i]
        cl = clause.split(" @event ")[0]
        at = int(clause.split(" @event ")[1])
        ctx.violation(f"{what}: {[tuple(s.values()) if isinstance(s, dict) else s for s in t['scn']][:12]}", cl,
                      {"clause": cl, "scn": t["scn"], "at_event": at, "region_mode": t["region_mode"],
                       "event": {k: (bytes(v).decode("latin1") if isinstance(v, list) and v and isinstance(v[0], int) else v) for k, v in t["events"][at - 1].items()
                                 if k in ("ev", "path", "out", "r", "op")}})
    if canaries:
        if len([i for i in bad if i >= n]) != len(cans):
            ctx.defer_machinery("Trace_Cloud accepted a canary")
        if not cans and not any(i < n for i in bad):
            raise MachineryError("no canary could be built and nothing was rejected: the binding of Trace_Cloud is not demonstrated")
        ctx.extra["canaries_rejected"] = ctx.extra.get("canaries_rejected", 0) + len(cans)


# ---------------------------------------------------------------------------------------------------------------
# spec growth beyond C19: the SmartHome cloud client (spec/SmartHome.tla) - conformance drift only, never a verdict
# ---------------------------------------------------------------------------------------------------------------
def smarthome_replay(scn, seed):
    from msmart.cloud import SmartHomeCloud, CloudError
    from msmart.const import DeviceType
    import random
    rng = random.Random(seed)
    cn = seed % 4 == 3
    region_mode = seed % 5 == 0
    if region_mode:
        region = rng.choice(["DE", "KR", "US"])
        account, password = SmartHomeCloud.CLOUD_CREDENTIALS[region]
        kw = {}
    else:
        region = "US"
        account, password = rand_text(rng, rng.randrange(3, 30)), rand_text(rng, rng.randrange(1, 24))
        kw = dict(account=account, password=password)
    vloop.install_clock()
    loop = vloop.new_loop()
    vloop.Net(loop)
    srv = cloudsrv.ModelSmartHome(account, password, rng=rng, cn=cn)
    events = srv.events

    async def go():
        cloud = SmartHomeCloud(region, use_china_server=cn, get_async_client=srv.client, **kw)
        k = 0
        while k < len(scn):
            st = scn[k]
            k += 1
            script = []
            while k < len(scn) and scn[k]["a"] in ("att", "file"):
                script.append(scn[k]["out"])
                k += 1
            srv.script = script
            none = {"name": [], "data": []}
            try:
                if st["a"] in ("login", "loginf"):
                    events.append({"ev": "call", "op": "login", "force": st["a"] == "loginf", "sn": [], "dtype": 0})
                    await cloud.login(force=st["a"] == "loginf")
                    events.append({"ev": "ret", "r": "ok", **none})
                else:
                    sn = "".join(rng.choice(string.ascii_uppercase + string.digits) for _ in range(rng.choice([32, 32, 22, 17, 12, 40])))
                    dt = rng.choice(list(DeviceType))
                    srv.sn = sn
                    events.append({"ev": "call", "op": st["a"], "force": False, "sn": B(sn.encode()), "dtype": int(dt)})
                    name, data = await (cloud.get_protocol_lua(dt, sn) if st["a"] == "lua" else cloud.get_plugin(dt, sn))
                    events.append({"ev": "ret", "r": "ok", "name": B(str(name).encode()), "data": B(data.encode("utf-8") if isinstance(data, str) else bytes(data))})
            except CloudError:
                events.append({"ev": "ret", "r": "cloud_error", **none})
            except Exception as ex:  # noqa: BLE001 - code under test
                events.append({"ev": "ret", "r": "other:" + type(ex).__name__, **none})
    vloop.run(loop, go())
    return {"account": B(account.encode()), "password": B(password.encode()), "cn": cn, "events": events, "scn": scn}


def smarthome_runs(ctx):
    consts = "CONSTANTS\nRetries = 3\nOutcomes <- AllOutcomes\nMaxCalls = %d\n"
    ctx.mc("MC_SmartHome", "SPECIFICATION SSpec\n" + consts % ctx.pick(4, 6) +
           "INVARIANT Budget\nINVARIANT SessNeedsLid\nPROPERTY SessOnlyByLogin\nPROPERTY FileAfterApi\nCHECK_DEADLOCK FALSE\n", name="C19_sh_mc", timeout=1200)
    r = run_tlc("Gen_SmartHome", "INIT GInit\nNEXT GNext\n" + consts % 2 + "CONSTRAINT GEmit\nCHECK_DEADLOCK FALSE\n", name="C19_sh_gen", workers=1, timeout=1200, heap="4g")
    ctx.checker_cmds.append(r.cmd)
    scn = sorted({pr[1] for pr in r.prints if isinstance(pr, list) and pr and pr[0] == "SCN"})
    if not scn:
        raise MachineryError("Gen_SmartHome produced no scenario")
    total = len(scn)
    scn = [json.loads(x) for x in (ctx.rng.sample(scn, ctx.pick(250, 6000)) if total > ctx.pick(250, 6000) else scn)]
    traces = [smarthome_replay(s, ctx.seed * 17 + k) for k, s in enumerate(scn)]
    cans = []
    src = next(t for t in traces if any(e["ev"] == "req" and e["out"] == "ok" and bytes(e["alias"]).endswith(b"/mj/user/login") for e in t["events"]))
    j = next(i for i, e in enumerate(src["events"]) if e["ev"] == "req" and e["out"] == "ok" and bytes(e["alias"]).endswith(b"/mj/user/login"))
    c = copy.deepcopy(src); c["events"][j]["hdr"]["sign"][5] ^= 1; cans.append(c)                    # signature altered
    c = copy.deepcopy(src); c["events"][j]["body"]["iampwd"][7] ^= 1; cans.append(c)                # iam password hash altered
    src2 = next((t for t in traces if any(e["ev"] == "ret" and e["r"] == "ok" and e["data"] for e in t["events"])), None)
    if src2 is not None:
        j = next(i for i, e in enumerate(src2["events"]) if e["ev"] == "ret" and e["r"] == "ok" and e["data"])
        c = copy.deepcopy(src2); c["events"][j]["data"][0] ^= 1; cans.append(c)                     # other file contents
    bad = ctx.validate_chains("Trace_SmartHome", [{k: t[k] for k in ("account", "password", "cn", "events")} for t in traces + cans],
                              name="C19_sh", consts=consts % 1000)
    n = len(traces)
    if len([i for i in bad if i >= n]) != len(cans):
        ctx.defer_machinery("Trace_SmartHome accepted a canary")
    for i, clause in sorted(bad.items()):
        if i >= n:
            continue
        if clause.startswith("harness") or clause.startswith("stuck"):
            raise MachineryError(f"Trace_SmartHome could not judge trace {i}: {clause}")
        ctx.drift.append({"what": "SmartHome cloud (beyond the listed properties): " + clause, "scn": [(s["a"], s["out"]) for s in traces[i]["scn"]]})
    ctx.extra["smarthome_cloud_growth"] = {"tlc_generated_behaviours": total, "replayed": n, "accepted": n - len([i for i in bad if i < n]),
                                           "canaries_rejected": len(cans)}


def unbounded(ctx: Ctx):
    """Budget / OnlyMatching / AbsentIsError for ANY number of calls and any token list: an inductive invariant of the abstract flow discharged by
    Apalache (Init => IndInv, IndInv /\\ Next => IndInv', IndInv => Safety), and TLC checking that every step of Cloud!CNext (resp. SmartHome!SNext)
    is a step of the abstract flow."""
    cmds = []
    for mod, init, nxt in (("Apa_CloudFlow", "CInit", "CNext"), ("Apa_SmartHomeFlow", "SInit", "SNext")):
        cmds.append(run_apalache(mod, init=init, nxt=nxt, inv="IndInv", length=0, name=f"C19_apa_{mod}_init"))
        cmds.append(run_apalache(mod, init="IndInv", nxt=nxt, inv="IndInv", length=1, name=f"C19_apa_{mod}_step"))
        cmds.append(run_apalache(mod, init="IndInv", nxt=nxt, inv="Safety", length=0, name=f"C19_apa_{mod}_safe"))
    ctx.checker_cmds += cmds
    ctx.mc("MC_ApaRefine_Cloud", "SPECIFICATION CSpec\nCONSTANTS\nRetries = 3\nOutcomes <- AllOutcomes\nTokenLists <- MCLists\nMaxCalls = 3\n"
           "PROPERTY StepRefines\nINVARIANT IdxBounded\nCHECK_DEADLOCK FALSE\n", name="C19_refine_cloud", timeout=1200)
    ctx.mc("MC_ApaRefine_SmartHome", "SPECIFICATION SSpec\nCONSTANTS\nRetries = 3\nOutcomes <- AllOutcomes\nMaxCalls = 4\nPROPERTY StepRefines\nCHECK_DEADLOCK FALSE\n",
           name="C19_refine_smarthome", timeout=1200)
    ctx.extra["unbounded_flow_invariants"] = {"tool": "Apalache 0.58 (inductive invariant IndInv, 3 obligations per flow) + TLC step refinement",
                                             "established": ["Cloud: Budget, OnlyMatching, AbsentIsError", "SmartHome: Budget, SessNeedsLid"]}


def run(ctx: Ctx) -> int:
    unbounded(ctx)
    ctx.mc("MC_Cloud", "SPECIFICATION CSpec\nCONSTANTS\nRetries = 3\nOutcomes <- AllOutcomes\nTokenLists <- MCLists\nMaxCalls = %d\n"
           "INVARIANT Budget\nINVARIANT OnlyMatching\nINVARIANT AbsentIsError\nCHECK_DEADLOCK FALSE\n" % ctx.pick(3, 5), name="C19_mc", timeout=3000)
    scn, total = scenarios(ctx, "C19_gen", 2, "FewLists", ctx.pick(500, 20000))
    scn3, total3 = scenarios(ctx, "C19_gen3", 3, "TwoLists", ctx.pick(300, 20000), outcomes="SomeOutcomes")
    ctx.extra["tlc_generated_behaviours"] = {"calls2_all_outcomes": total, "calls3": total3}
    traces = [replay(ctx, s, ctx.seed * 31 + k, region_mode=(k % 5 == 0)) for k, s in enumerate(scn + scn3)]
    for t in traces:
        ctx.count_distinct(json.dumps(t["scn"], sort_keys=True))
    judge(ctx, traces, "flow")
    n, bad, atr = auto_connect_runs(ctx)
    judge(ctx, atr, "auto_connect", canaries=False)
    ctx.extra["auto_connect_runs"] = n
    smarthome_runs(ctx)
    t0 = traces[0]
    ctx.sample({"scenario": [(s["a"], s["out"]) for s in t0["scn"]], "requests": [bytes(e["path"]).decode() + " -> " + e["out"] for e in t0["events"] if e["ev"] == "req"]})
    return ctx.finish(
        rule="all behaviours of the Cloud flow model with 2 calls over {login, get_token} x per-attempt outcomes {ok, timeout, HTTP error, API error} x "
             "token lists {empty, match only, near-miss only, match last/first/middle, duplicates} (quick: a sample), 3-call behaviours; random ASCII "
             "accounts/passwords incl. + @ space & = % and the three built-in regions; random udpids with near-miss ids (one character off, other "
             "case, prefix); auto-connect of V3 devices registered under the LE / BE udpid with login timeouts; distinct = distinct behaviours",
        assumptions=["F11: the model cloud answers getToken with an entry for whatever udpid is asked; the device decides which byte order authenticates",
                     "F4: the order of the form fields is free (the server parses the form; the signature is over the key-sorted query)"])


def replay_cmd(ctx, path):
    c = json.load(open(path))["case"]
    if c.get("scn"):
        judge(ctx, [replay(ctx, c["scn"], ctx.seed, c.get("region_mode", False))], "replay", canaries=False)
    return ctx.finish(rule="replay of one recorded behaviour")


_replay_scn = replay


def replay(a, b=None, c=None, region_mode=False):     # noqa: F811 - main.py calls replay(ctx, path); the driver calls replay(ctx, scn, seed, region_mode=...)
    if isinstance(b, str):
        return replay_cmd(a, b)
    return _replay_scn(a, b, c, region_mode)
