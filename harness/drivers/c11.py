"""C11 - state responses decode to exactly the reported state.

(a) TLC MC_C11: temperature clauses for all 256 x 10 x 2 (raw, tenths, unit); StateView inverts StateBody.
(c) real code: a fresh AirConditioner refreshes against a simulated device reporting a chosen raw 0xC0 body;
    the public attributes are judged by TLC (Trace_C11) with the vendor layout + the three temperature clauses.
"""
from __future__ import annotations

import asyncio

from ..common import B, Ctx
from .. import vloop, acdev, landev

NONE = -32768


def base_body(rng, n=24):
    b = bytearray(n)
    b[0] = 0xC0
    b[1] = rng.choice([0, 1])
    b[2] = rng.randrange(256)
    b[3] = rng.choice([20, 40, 60, 80, 100, 102, rng.randrange(256)])
    b[4] = b[5] = 0x7F
    b[7] = 0x30 | rng.choice([0, 3, 12, 15])
    b[8] = rng.choice([0, 0x20, 0x40, 0x80, rng.randrange(256)])
    b[9] = rng.choice([0, 0x10, 0x20, 0x08, rng.randrange(256)])
    b[10] = rng.choice([0, 1, 2, 4, rng.randrange(256)])
    b[11] = rng.randrange(256)
    b[12] = rng.randrange(256)
    b[13] = rng.choice([0, 0, rng.randrange(256)])
    b[14] = rng.choice([0, 0x70, rng.randrange(256)])
    b[15] = rng.randrange(10) | (rng.randrange(10) << 4)
    for k in range(16, n):
        b[k] = rng.choice([0, rng.randrange(256)])
    return b


def cases(ctx: Ctx):
    rng = ctx.rng
    out = []
    # temperatures: all raw x tenths, both sensors, both units
    for raw in range(256):
        for tenths in range(10):
            for sensor in (11, 12):
                units = (0, 4) if not ctx.quick else ((0, 4) if (raw + tenths + sensor) % 2 == 0 else (0,))
                for unit in units:
                    b = base_body(rng)
                    b[sensor] = raw
                    other = rng.randrange(10)
                    b[15] = (tenths | other << 4) if sensor == 11 else (other | tenths << 4)
                    b[10] = (b[10] & ~4 & 0xFF) | unit
                    out.append(("temp", b))
    # all 32 alternate x 32 primary codes (primary code = low 5 bits of byte 2: 4-bit code + half flag)
    for alt in range(32):
        for prim in range(32):
            b = base_body(rng)
            b[2] = (b[2] & 0xE0) | prim
            b[13] = (b[13] & 0xE0) | alt
            out.append(("setpoint", b))
    # all 256 values of each flag byte
    for pos in (1, 2, 3, 7, 8, 9, 10, 13, 14, 19, 21):
        for v in range(256):
            for _ in range(ctx.pick(1, 4)):
                b = base_body(rng)
                b[pos] = v
                out.append((f"byte{pos}", b))
    # lengths 16..40, both check styles
    for n in range(16, 41):
        for _ in range(ctx.pick(6, 60)):
            out.append(("length", base_body(rng, n)))
    for _ in range(ctx.pick(800, 40000)):
        out.append(("random", base_body(rng, rng.choice([16, 18, 19, 20, 21, 22, 23, 24, 24, 24, 30]))))
    return out


def t10(x):
    if x is None:
        return NONE
    v = round(x * 10)
    assert abs(v - x * 10) < 1e-6, x
    return int(v)


def observe(d):
    return {
        "power": bool(d.power_state), "t2": int(round(d.target_temperature * 2)),
        "mode": int(d.operational_mode), "fan": int(d.fan_speed), "swing": int(d.swing_mode),
        "turbo": bool(d.turbo), "follow": bool(d.follow_me), "aux": int(d.aux_mode), "eco": bool(d.eco),
        "purifier": bool(d.purifier), "sleep": bool(d.sleep), "fahr": bool(d.fahrenheit),
        "filter": bool(d.filter_alert), "display": bool(d.display_on),
        "hum": NONE if d.target_humidity is None else int(d.target_humidity),
        "freeze": NONE if d.freeze_protection is None else int(bool(d.freeze_protection)),
        "indoor10": t10(d.indoor_temperature), "outdoor10": t10(d.outdoor_temperature),
    }


class RawStateDevice(acdev.ACModel):
    def __init__(self):
        super().__init__()
        self.raw = None
        self.rstyle = "crc"

    def handle(self, f):
        c = acdev.parse_command(f)
        if c["ok"] and c["body"][:2] == bytes([0x41, 0x81]):
            return [acdev.resp_frame(3, self.raw, self.rstyle)]
        if c["ok"] and c["body"][:1] == b"\xb5":
            return [acdev.resp_frame(3, bytes([0xB5, 1, 0x10, 0x02, 1, 1, 0, 0]), "crc")]       # custom fan speeds, nothing else (no filter reminder, no display ...)
        return []


def collect(ctx: Ctx, bodies):
    from msmart.device import AirConditioner as AC
    vloop.install_clock()
    loop = vloop.new_loop()
    net = vloop.Net(loop)
    ac = RawStateDevice()
    dev = landev.LanDevice(loop, net, ac, version=2)
    vectors = []

    async def go():
        for k, (tag, body) in enumerate(bodies):
            ac.raw = bytes(body)
            ac.rstyle = "crc" if k % 2 == 0 else "sum"
            d = AC(ip="10.0.0.1", port=6444, device_id=k)
            ctxname = ""
            try:
                if k % 12 == 1:
                    ctxname = " [after get_capabilities of a unit advertising little]"
                    await d.get_capabilities()
                elif k % 6 == 3 and k > 0:
                    # the same object refreshed before with the SAME bytes, local attributes changed by setters in between (never applied)
                    ctxname = " [second refresh with identical bytes after local changes]"
                    await d.refresh()
                    from .c10 import rand_state, apply_state
                    apply_state(AC, d, rand_state(ctx.rng), ctx.rng)
                elif k % 12 == 5 and k > 0:
                    # an unsolicited report of ANOTHER state reached the idle client before this refresh
                    ctxname = " [an older unsolicited report queued]"
                    other = bytes(bodies[k - 1][1])
                    ac.raw = other
                    await d.refresh()
                    ac.raw = bytes(body)
                    net.conns[-1].feed(landev.v2_wrap(acdev.resp_frame(5, other, "crc"), k))
                    await asyncio.sleep(0.2)
                elif k % 12 == 7 and k > 0:
                    # a report damaged on the serial line (transport intact, frame checksum right, body check byte wrong) reached the idle client: it is
                    # dropped, the answer behind it is used
                    ctxname = " [a damaged unsolicited report queued]"
                    other = bytes(bodies[k - 1][1])
                    ac.raw = other
                    await d.refresh()
                    ac.raw = bytes(body)
                    fr = bytearray(acdev.resp_frame(5, other, "crc"))
                    fr[-2] ^= 0x5A
                    fr[-1] = acdev.csum(bytes(fr[1:-1]))
                    net.conns[-1].feed(landev.v2_wrap(bytes(fr), k))
                    await asyncio.sleep(0.2)
                elif k % 12 == 11 and k > 0:
                    # the TCP segment that completes the answer also carries the first bytes of a further report; its rest follows 0.3 s later
                    ctxname = " [answer and the beginning of a further report in one segment]"
                    nxt = landev.v2_wrap(acdev.resp_frame(5, bytes(body), "crc"), k)

                    def straddle(tr, packets, nxt=nxt):
                        cut = [1, 6, 10, 40][k % 4]
                        loop.call_later(0.0005, tr.feed, b"".join(packets) + nxt[:cut])
                        loop.call_later(0.3, tr.feed, nxt[cut:])
                    dev.respond = straddle
                try:
                    await d.refresh()
                finally:
                    if dev.respond is not dev._respond_soon:
                        dev.respond = dev._respond_soon
                        await asyncio.sleep(0.5)
                vectors.append({"tag": tag + ctxname, "body": B(body), "style": ac.rstyle, "online": bool(d.online and d.supported),
                                "attrs": observe(d), "exc": "none"})
            except Exception as e:  # noqa: BLE001
                vectors.append({"tag": tag, "body": B(body), "style": ac.rstyle, "online": False, "attrs": {},
                                "exc": type(e).__name__})
            if d._lan._protocol:
                d._lan._disconnect()

    vloop.run(loop, go())
    return vectors


def judge(ctx: Ctx, vectors, canaries=True):
    good = []
    for v in vectors:
        if v["exc"] != "none":
            ctx.violation("refresh() raised on a valid state response", v["exc"], v)
        else:
            good.append(v)
    cans = []
    if canaries and len(good) > 3:
        for j, (field, f) in enumerate([("eco", lambda x: not x), ("t2", lambda x: x + 1), ("indoor10", lambda x: NONE if x != NONE else 0)]):
            c = dict(good[j], attrs=dict(good[j]["attrs"]))
            c["attrs"][field] = f(c["attrs"][field])
            cans.append(c)
    rej = ctx.validate_vectors("Trace_C11", good + cans)
    n = len(good)
    got = {i for i, _ in rej if i >= n}
    if len(got) != len(cans):
        from ..tlc import MachineryError
        ctx.defer_machinery("Trace_C11 accepted a canary")
    ctx.extra["canaries_rejected"] = len(cans)
    for i, clause in rej:
        if i < n:
            ctx.violation("attributes after refresh()", clause, good[i])


def group_conformance(ctx: Ctx):
    """Spec growth beyond C11: energy / humidity group responses (conformance drift only, never a verdict)."""
    from msmart.device import AirConditioner as AC
    rng = ctx.rng
    vloop.install_clock()
    loop = vloop.new_loop()
    net = vloop.Net(loop)
    caps = bytes([0xB5, 2, 0x16, 0x02, 1, 3, 0x1F, 0x02, 1, 2, 0, 0])
    ac = acdev.ACModel(caps_pages=[caps])
    landev.LanDevice(loop, net, ac, version=2)
    vectors = []

    def split(x):
        if x is None:
            return NONE, NONE
        n = int(round(x * 10))
        return n >> 16, n & 0xFFFF

    async def go():
        for k in range(ctx.pick(300, 6000)):
            bcd = k % 3 != 0
            def nib():
                return (rng.randrange(10) << 4 | rng.randrange(10)) if bcd else rng.randrange(256)
            e = bytes([0xC1, 0x21, 0x01, 0x44] + [rng.choice([0, nib()]) for _ in range(4)] + [rng.randrange(256) for _ in range(4)]
                      + [rng.choice([0, nib()]) for _ in range(4)] + [rng.choice([0, nib()]) for _ in range(3)] + [rng.randrange(256)])
            if k % 11 == 0:
                e = bytes([0xC1, 0x21, 0x01, 0x44]) + bytes(16)
            h = bytes([0xC1, 0x21, 0x01, 0x45, rng.choice([0, rng.randrange(1, 256)]), 0, 0, 0])
            ac.energy, ac.humidity = e, h
            d = AC(ip="10.0.0.1", port=6444, device_id=k)
            binary = bool(k % 2)
            d.use_alternate_energy_format = binary
            await d.get_capabilities()
            await d.refresh()
            t, c, p = d.total_energy_usage, d.current_energy_usage, d.real_time_power_usage
            v = {"energy": B(e), "humidity": B(h), "binary": binary, "hum": NONE if d.indoor_humidity is None else int(d.indoor_humidity),
                 "power10": NONE if p is None else int(round(p * 10))}
            if binary:
                v["total_hi"], v["total_lo"] = split(t)
                v["current_hi"], v["current_lo"] = split(c)
                v["total100"] = v["current100"] = NONE if t is None else 0
            else:
                v["total100"] = NONE if t is None else int(round(t * 100))
                v["current100"] = NONE if c is None else int(round(c * 100))
                v["total_hi"] = v["total_lo"] = v["current_hi"] = v["current_lo"] = 0
            vectors.append(v)
            if d._lan._protocol:
                d._lan._disconnect()
    vloop.run(loop, go())
    n0 = ctx.traces_validated
    rej = ctx.validate_vectors("Trace_Group", vectors, name="C11_group")
    ctx.traces_validated = n0
    ctx.evaluations -= len(vectors)
    ctx.extra["extra_conformance_group_data"] = {"vectors": len(vectors), "differences": len(rej)}
    for i, clause in rej[:10]:
        ctx.drift.append({"vector": i, "what": "group data (energy/humidity): " + clause})


def run(ctx: Ctx) -> int:
    ctx.mc("MC_C11", "INIT Init\nNEXT Next\nINVARIANT TempClauses\nINVARIANT LayoutInverse\n")
    bodies = cases(ctx)
    vectors = collect(ctx, bodies)
    for v in vectors:
        ctx.count_distinct(bytes(v["body"]))
    judge(ctx, vectors)
    ctx.sample({"body": bytes(vectors[0]["body"]).hex(), "attrs": vectors[0]["attrs"]})
    ctx.sample({"body": bytes(vectors[-1]["body"]).hex(), "attrs": vectors[-1]["attrs"]})
    group_conformance(ctx)
    return ctx.finish(
        rule="raw 0xC0 bodies: all 256 raw x 10 tenths per sensor (both units), all 32x32 setpoint code pairs, all 256 values of "
             "bytes 1,2,3,7,8,9,10,13,14,19,21, lengths 16..40, both check styles, seeded random; distinct = distinct bodies; each is "
             "reported by the simulated device to a fresh AirConditioner.refresh() and the attributes are judged by TLC (StateView + clauses)",
        assumptions=["tenths digits restricted to 0..9 for the temperature clauses (the property's domain)",
                     "alternate setpoint code c means c+12 degrees for every c (DESIGN 6.1 F8)"])


def replay(ctx: Ctx, path: str) -> int:
    import json
    case = json.load(open(path))["case"]
    vectors = collect(ctx, [(case.get("tag", "replay"), bytes(case["body"]))])
    judge(ctx, vectors, canaries=False)
    return ctx.finish(rule="replay of one recorded case")
