"""Deterministic virtual-time asyncio loop, in-memory TCP/UDP, virtual wall clock.

The real msmart code from /repo runs on this loop unmodified.  Two driving modes:
  * free running  : loop.run_until_complete(coro); timers fire by jumping the clock.
  * controlled    : Sched steps the loop by hand, one environment action at a time
                    (deliver / fire_timer / cancel / ...), so that a TLC-chosen interleaving
                    is reproduced exactly.
"""
from __future__ import annotations

import asyncio
import datetime as _dt
import heapq
import threading
from asyncio import events


class Deadlock(RuntimeError):
    pass


class VLoop(asyncio.BaseEventLoop):
    def __init__(self):
        super().__init__()
        self._vt = 0.0
        self.net = None
        self.max_steps = 2_000_000
        self._steps = 0

    def time(self):
        return self._vt

    # -- free running -----------------------------------------------------------------
    def _run_once(self):
        self._steps += 1
        if self._steps > self.max_steps:
            raise Deadlock("virtual loop exceeded step budget (livelock in code under test?)")
        sched = self._scheduled
        while sched and sched[0]._cancelled:
            heapq.heappop(sched)._scheduled = False
        if not self._ready and sched:
            when = sched[0]._when
            if when > self._vt:
                self._vt = when
        end = self._vt + self._clock_resolution
        while sched and sched[0]._when < end:
            h = heapq.heappop(sched)
            h._scheduled = False
            self._ready.append(h)
        n = len(self._ready)
        if n == 0 and not sched:
            raise Deadlock("virtual loop deadlock: nothing ready, no timers")
        for _ in range(n):
            h = self._ready.popleft()
            if not h._cancelled:
                h._run()

    def _process_events(self, ev):
        pass

    def _write_to_self(self):
        pass

    # -- network ----------------------------------------------------------------------
    async def create_connection(self, factory, host=None, port=None, **kw):
        return await self.net.connect(factory, host, port)

    async def create_datagram_endpoint(self, factory, local_addr=None, remote_addr=None, **kw):
        return await self.net.datagram(factory, local_addr, remote_addr)

    # -- controlled stepping ----------------------------------------------------------
    def step_ready(self):
        """Run callbacks that are ready now (and timers already due) without advancing time."""
        old = events._get_running_loop()
        events._set_running_loop(self)
        self._thread_id = threading.get_ident()
        try:
            sched = self._scheduled
            while sched and sched[0]._cancelled:
                heapq.heappop(sched)._scheduled = False
            end = self._vt + self._clock_resolution
            while sched and sched[0]._when < end:
                h = heapq.heappop(sched)
                h._scheduled = False
                self._ready.append(h)
            n = len(self._ready)
            for _ in range(n):
                h = self._ready.popleft()
                if not h._cancelled:
                    h._run()
            return n
        finally:
            events._set_running_loop(old)
            self._thread_id = None

    def run_idle(self, budget=10000):
        """Run until no callback is ready (time does not advance)."""
        k = 0
        while self._ready:
            self.step_ready()
            k += 1
            if k > budget:
                raise Deadlock("run_idle budget exceeded")

    def pending_timers(self):
        return sorted(h._when for h in self._scheduled if not h._cancelled)

    def fire_next_timer(self):
        t = self.pending_timers()
        if not t:
            raise Deadlock("no timer pending")
        self._vt = max(self._vt, t[0])
        self.step_ready()
        self.run_idle()
        return t[0]

    def in_context(self, fn, *a):
        """Call fn as if from inside the loop (running-loop set)."""
        old = events._get_running_loop()
        events._set_running_loop(self)
        self._thread_id = threading.get_ident()
        try:
            return fn(*a)
        finally:
            events._set_running_loop(old)
            self._thread_id = None


class VClock(_dt.datetime):
    """Replacement for msmart.lan.datetime: wall clock = base + loop time + jump offset."""
    loop = None
    offset = 0.0
    base = _dt.datetime(2024, 3, 9, 7, 5, 3, 120000)

    @classmethod
    def now(cls, tz=None):
        el = (cls.loop.time() if cls.loop else 0.0) + cls.offset
        t = cls.base + _dt.timedelta(seconds=el)
        if tz is not None:
            return t.replace(tzinfo=tz)
        # naive "local" time of a zone with daylight saving: the wall clock is set back / forward by an hour every 12 h of real time, so that
        # any interval of 12 h contains a night in which the clocks change (lifetimes must be measured on an absolute time scale)
        return t + _dt.timedelta(seconds=3600 if int(el // 43200) % 2 == 0 else 0)


class FakeTransport(asyncio.Transport):
    def __init__(self, net, proto, cid, peer):
        super().__init__()
        self.net = net
        self.proto = proto
        self.cid = cid
        self.peer = peer
        self._closing = False
        self.client_closed = False
        self.peer_closed = False

    def get_extra_info(self, name, default=None):
        if name == "peername":
            return self.peer
        if name == "sockname":
            return ("10.0.0.100", 50000 + self.cid)
        return default

    def is_closing(self):
        return self._closing

    def close(self):
        if not self.client_closed:
            self.client_closed = True
            self.net.log(("close", self.cid))
        self._closing = True

    def abort(self):
        self.close()

    def write(self, data):
        data = bytes(data)
        self.net.log(("tx", self.cid, data))
        self.net.on_client_bytes(self, data)

    def can_write_eof(self):
        return False

    # harness side
    def feed(self, data):
        """Deliver bytes from the peer (ignored once the client closed the transport)."""
        if not self._closing:
            try:
                self.proto.data_received(bytes(data))
            except Exception as exc:  # noqa: BLE001 - what asyncio's selector transport does: log, force-close, connection_lost(exc)
                self.net.log(("fatal", self.cid, type(exc).__name__))
                self._closing = True
                self.proto.connection_lost(exc)
            return True
        return False

    def peer_close(self, exc=None):
        if not self._closing:
            self._closing = True
            self.peer_closed = True
            self.net.log(("peer_close", self.cid))
            self.proto.connection_lost(exc)


class FakeDatagramTransport(asyncio.DatagramTransport):
    class _Sock:
        def __init__(self):
            self.opts = []

        def setsockopt(self, *a):
            self.opts.append(a)

    def __init__(self, net, proto):
        super().__init__()
        self.net = net
        self.proto = proto
        self._closing = False
        self.sock = self._Sock()
        self.sent = []

    def get_extra_info(self, name, default=None):
        if name == "socket":
            return self.sock
        return default

    def sendto(self, data, addr=None):
        self.sent.append((bytes(data), addr))
        fail = getattr(self.net, "udp_send_error", None)
        if fail is not None and fail(addr):
            # a failed sendto (EPERM from a local firewall, ENETUNREACH ...): asyncio reports it to the protocol and keeps the endpoint open
            import errno
            self.net.on_datagram_sent(self, bytes(data), addr)          # (logged as a probe the client tried to send)
            self.proto.error_received(OSError(errno.EPERM, "Operation not permitted"))
            return
        self.net.on_datagram_sent(self, bytes(data), addr)

    def close(self):
        self._closing = True

    def is_closing(self):
        return self._closing

    def inject(self, data, addr):
        if not self._closing:
            self.proto.datagram_received(bytes(data), addr)


class Net:
    """In-memory network.  `connect_mode` decides how the next TCP connect resolves:
       "ok" | "refuse" | "hang" | "manual" (a future the scheduler resolves)."""

    def __init__(self, loop):
        self.loop = loop
        loop.net = self
        self.conns: list[FakeTransport] = []
        self.events: list = []
        self.connect_mode = "ok"
        self.pending_connect = None       # (future, factory, host, port) in manual mode
        self.on_bytes = None              # callback(transport, data)
        self.on_connect = None            # callback(transport)
        self.on_udp = None                # callback(transport, data, addr)
        self.udp = None
        self.connect_requests = 0

    def log(self, ev):
        self.events.append(ev)

    def on_client_bytes(self, tr, data):
        if self.on_bytes:
            self.on_bytes(tr, data)

    def on_datagram_sent(self, tr, data, addr):
        if self.on_udp:
            self.on_udp(tr, data, addr)

    def _open(self, factory, host, port):
        proto = factory()
        tr = FakeTransport(self, proto, len(self.conns), (host, port))
        self.conns.append(tr)
        self.log(("open", tr.cid, host, port))
        proto.connection_made(tr)
        if self.on_connect:
            self.on_connect(tr)
        return tr, proto

    def connect_error(self):
        """A failed connect as the OS / asyncio report it: refused, unreachable host or network, name resolution failure, asyncio's
        aggregated error for a multi-address host, connection timed out - all OSError, only some of them ConnectionError."""
        import errno
        import socket
        Net._connect_failures = getattr(Net, "_connect_failures", 0) + 1          # process-wide: the kinds rotate across runs as well
        k = Net._connect_failures % 6
        if k == 1:
            return ConnectionRefusedError(errno.ECONNREFUSED, "Connect call failed ('10.0.0.1', 6444)")
        if k == 2:
            return OSError(errno.EHOSTUNREACH, "No route to host")
        if k == 3:
            return OSError(errno.ENETUNREACH, "Network is unreachable")
        if k == 4:
            return socket.gaierror(socket.EAI_NONAME, "Name or service not known")
        if k == 5:
            return OSError("Multiple exceptions: [Errno 111] Connect call failed ('10.0.0.1', 6444), [Errno 113] Connect call failed ('10.0.0.2', 6444)")
        return TimeoutError(errno.ETIMEDOUT, "Connection timed out")

    async def connect(self, factory, host, port):
        self.connect_requests += 1
        self.log(("connreq", host, port))
        mode = self.connect_mode
        if mode == "refuse":
            raise self.connect_error()
        if mode == "hang":
            await asyncio.sleep(10 ** 6)
        if mode == "manual":
            fut = self.loop.create_future()
            self.pending_connect = (fut, factory, host, port)
            try:
                verdict = await fut
            finally:
                self.pending_connect = None
            if verdict == "refuse":
                raise self.connect_error()
        return self._open(factory, host, port)

    async def datagram(self, factory, local_addr, remote_addr):
        proto = factory()
        tr = FakeDatagramTransport(self, proto)
        self.udp = tr
        proto.connection_made(tr)
        return tr, proto


def new_loop():
    loop = VLoop()
    asyncio.set_event_loop(loop)
    VClock.loop = loop
    VClock.offset = 0.0
    return loop


def install_clock():
    import msmart.lan as lan
    lan.datetime = VClock
    try:
        import msmart.cloud as cloud
        cloud.datetime = VClock          # request time stamps follow the virtual clock as well
    except Exception:  # noqa: BLE001
        pass


class VPolicy(asyncio.DefaultEventLoopPolicy):
    """Event-loop policy so that asyncio.run() (used by msmart.cli) gets a virtual loop."""

    def __init__(self, setup):
        super().__init__()
        self._setup = setup
        self.loops = []

    def new_event_loop(self):
        loop = VLoop()
        VClock.loop = loop
        VClock.offset = 0.0
        self._setup(loop)
        self.loops.append(loop)
        return loop


def run(loop, coro, *, timeout_steps=2_000_000):
    loop.max_steps = timeout_steps
    loop._steps = 0
    return loop.run_until_complete(coro)
