"""Controlled scheduler: the harness IS the environment of a real msmart LAN / Device object.

One primitive per environment action of spec/LanSession.tla.  Device replies are parked, never delivered on
their own; library timers fire only when `timer()` is called; connects resolve only when told.  After each
primitive the observable events it caused (client closes, connect requests, transmissions as decoded by the
device with ITS keys, call results) are appended to `self.trace` in the alphabet of spec/SessionMon.tla.
"""
from __future__ import annotations

import asyncio

from . import vloop, landev, refcrypto as rc
from .common import B

GOOD_TOKEN = bytes(range(64))
GOOD_KEY = bytes(range(100, 132))
BAD_TOKEN = bytes(reversed(range(64)))
BAD_KEY = bytes(range(7, 39))
OTHER_KEY = bytes(range(200, 232))

ABSTRACT = {"valid": "valid", "flip_cipher": "forged", "flip_hash": "forged", "short": "forged", "long": "forged", "otherkey": "forged",
            "retype": "garbage", "garbage": "garbage", "error": "error", "enc": "enc", "none": "none",
            "badtag": "bad", "badinner": "bad", "badsig": "bad", "signed_garbage": "bad", "hsr": "hsr",
            "valid+unsolicited": "valid+unsolicited", "dup": "dup"}
CONCRETE_HS = {"valid": ["valid"], "forged": ["flip_cipher", "flip_hash", "short", "long", "otherkey"], "garbage": ["retype", "garbage"],
               "error": ["error"], "enc": ["enc"], "none": ["none"]}
CONCRETE_DATA3 = {"valid": ["valid"], "bad": ["badtag", "badinner"], "error": ["error"], "garbage": ["garbage"], "hsr": ["hsr"], "none": ["none"],
                  "valid+unsolicited": ["valid+unsolicited"], "dup": ["dup"]}
CONCRETE_DATA2 = {"valid": ["valid"], "bad": ["badsig", "garbage", "signed_garbage"], "none": ["none"],
                  "valid+unsolicited": ["valid+unsolicited"], "dup": ["dup"]}
REPLY_CLASSES_HS = ["valid", "flip_cipher", "flip_hash", "short", "long", "retype", "otherkey", "error", "garbage", "enc", "none"]
REPLY_CLASSES_DATA = ["valid", "badtag", "badinner", "error", "garbage", "hsr", "none", "valid+unsolicited", "dup"]
REPLY_CLASSES_V2 = ["valid", "badsig", "garbage", "signed_garbage", "none", "valid+unsolicited", "dup"]


def acdev_state_frame():
    from . import acdev
    return acdev.resp_frame(4, acdev.encode_state(acdev.DEFAULT_STATE), "crc")


class Session:
    def __init__(self, *, version=3, retries=3, lifetime=None, seed=0, target="lan", ac=None):
        from msmart.lan import LAN
        vloop.install_clock()
        self.loop = vloop.new_loop()
        self.net = vloop.Net(self.loop)
        self.net.connect_mode = "manual"
        self.version = version
        self.retries = retries
        from . import acdev

        class _Echo(acdev.ACModel):          # the LAN layer does not interpret frames: answer every frame with itself
            def handle(self, f):
                self.rx_frames.append(bytes(f))
                return [bytes(f)]
        self.ac = ac or _Echo()
        self.dev = landev.LanDevice(self.loop, self.net, self.ac, version=version, token=GOOD_TOKEN, key=GOOD_KEY, seed=seed)
        self.dev.respond = self._park
        self.dev.reply_filter = self._filter
        self.parked = []                 # dicts: conn, data, cls, k (key id), gen
        self.next_reply = []             # reply classes for upcoming transmissions (default "valid")
        self.next_reply_hs = None        # standing choice by kind (random walks)
        self.next_reply_data = None
        self.trace = []
        self.task = None
        self.call_name = None
        self.result = None
        self._ev_mark = 0
        self._rx_mark = 0
        self.target = target
        if target == "lan":
            self.lan = LAN("10.0.0.1", 6444, 0x0A0B0C0D0E0F)
            self.obj = self.lan
        else:
            from msmart.device import AirConditioner as AC
            self.obj = AC(ip="10.0.0.1", port=6444, device_id=0x0A0B0C0D0E0F)
            self.lan = self.obj._lan
        if version == 3:
            self.lan._protocol_version = 3 if target == "lan3pre" else self.lan._protocol_version
        if lifetime is not None:
            self.lan.max_connection_lifetime = lifetime
        self.lifetime = lifetime
        self.frame = bytes.fromhex("aa20ac00000000000003418100ff03ff000200000000000000000000000003")  # any bytes: LAN does not interpret
        self.frame = self.frame + bytes([0x11, 0x22])

    # ---- device side: reply classes ---------------------------------------------------------
    def _filter(self, kind, tr, packets):
        if self.next_reply:
            cls = self.next_reply.pop(0)
        else:
            cls = (self.next_reply_hs if kind in ("hs", "hs_bad") else self.next_reply_data) or "valid"
        if not packets:
            cls = "none"
        self._last_cls = cls
        s = self.dev.sess[tr.cid]
        out = []

        def park(data, c, k=0, gen=False):
            out.append({"conn": tr.cid, "data": bytes(data), "cls": c, "k": k, "gen": gen})
        if kind == "hs":
            p = packets[0]
            body = p[8:]
            k = s["keyid"]
            if cls == "valid":
                park(p, "HSR", k, True)
            elif cls == "flip_cipher":
                park(p[:11] + bytes([p[11] ^ 0x10]) + p[12:], "HSR", k, False)
            elif cls == "flip_hash":
                park(p[:50] + bytes([p[50] ^ 0x01]) + p[51:], "HSR", k, False)
            elif cls == "short":
                park(landev.v3_plain_packet(1, 0, body[:63]), "HSR", k, False)
            elif cls == "long":
                park(landev.v3_plain_packet(1, 0, body + b"\x00"), "HSR", k, False)
            elif cls == "retype":
                park(p[:5] + bytes([0x02]) + p[6:], "OTHER", k, False)
            elif cls == "otherkey":
                nonce = bytes(range(32))
                park(landev.v3_plain_packet(1, 0, landev.hs_reply_payload(OTHER_KEY, nonce)), "HSR", k, False)
            elif cls == "error":
                park(landev.v3_error_packet(), "ERR")
            elif cls == "garbage":
                park(b"\x83\x70\x00\x10\x20\x07" + bytes(18), "OTHER")
            elif cls == "enc":
                park(landev.v3_enc_packet(s["key"], landev.v2_wrap(self.frame), 1), "ENC", k, True)
            # "none": nothing
        elif kind == "hs_bad":
            if cls != "none":
                park(packets[0], "ERR")
        elif kind == "data" and self.version == 3:
            k = s["keyid"]
            key = s["key"]
            base = cls.split("+")[0]
            if base in ("valid", "dup"):
                for p in packets:
                    park(p, "ENC", k, True)
                if base == "dup":
                    park(packets[0], "ENC", k, True)
            elif base == "badtag":
                p = packets[0]
                park(p[:-1] + bytes([p[-1] ^ 1]), "ENC", k, False)
            elif base == "badinner":
                park(landev.v3_enc_packet(key, b"\x5a\x5a" + bytes(70), 9), "ENC", k, False)
            elif base == "error":
                park(landev.v3_error_packet(), "ERR")
            elif base == "garbage":
                park(b"\x83\x70\x00\x10\x20\x09" + bytes(18), "OTHER")
            elif base == "hsr":
                park(landev.v3_plain_packet(1, 0, bytes(64)), "HSR", 0, False)
            if "+unsolicited" in cls:
                park(landev.v3_enc_packet(key, landev.v2_wrap(acdev_state_frame()), 77), "ENC", k, True)
        elif kind == "data":
            base = cls.split("+")[0]
            if base in ("valid", "dup"):
                for p in packets:
                    park(p, "PKT", 0, True)
                if base == "dup":
                    park(packets[0], "PKT", 0, True)
            elif base == "badsig":
                p = packets[0]
                park(p[:-1] + bytes([p[-1] ^ 1]), "PKT", 0, False)
            elif base == "garbage":
                park(bytes(30), "PKT", 0, False)
            elif base == "signed_garbage":
                body = b"\x5a\x5a\x01\x11" + (40 + 7 + 16).to_bytes(2, "little") + b"\x20\x00" + bytes(32) + bytes(7)
                park(body + rc.md5(body + rc.SIGN_KEY), "PKT", 0, False)
            if "+unsolicited" in cls:
                park(landev.v2_wrap(acdev_state_frame(), 1), "PKT", 0, True)
        self.parked += out
        return []

    def _park(self, tr, packets):   # never called: _filter returns []
        pass

    # ---- observation ---------------------------------------------------------------------------
    def _collect(self, ev):
        """Append env event `ev` followed by the client-observable events it caused."""
        evs = [ev]
        rx = self.dev.rx[self._rx_mark:]
        self._rx_mark = len(self.dev.rx)
        rxi = 0
        for e in self.net.events[self._ev_mark:]:
            if e[0] == "close":
                evs.append({"e": "close", "c": e[1] + 1})
            elif e[0] == "connreq":
                evs.append({"e": "connreq"})
            elif e[0] == "tx":
                r = rx[rxi] if rxi < len(rx) else {"kind": "garbage"}
                rxi += 1
                evs.append(self._tx_event(e[1] + 1, r))
        self._ev_mark = len(self.net.events)
        self.next_reply.clear()
        if self.task is not None and self.task.done():
            evs.append(self._ret_event())
            self.task = None
        self.trace += evs
        return evs

    def _tx_event(self, c, r):
        cls = getattr(self, "_last_cls", "valid")
        if r.get("kind") == "hs":
            raw = r["raw"]
            tok = raw[8:]
            return {"e": "tx", "c": c, "t": "HS", "ctr": r["ctr"], "tok": "good" if tok == GOOD_TOKEN else ("bad" if tok == BAD_TOKEN else "other"),
                    "k": r.get("keyid", 0), "wf": bool(raw[:6] == b"\x83\x70" + len(tok).to_bytes(2, "big") + b"\x20\x00"),
                    "reply": self._abs_hs(cls, r)}
        if r.get("kind") == "data":
            return {"e": "tx", "c": c, "t": "DATA", "ctr": r.get("ctr", -1), "tok": "na", "k": r.get("keyid", 0),
                    "wf": bool(r.get("ok") and r.get("v2_ok")), "reply": ABSTRACT.get(cls, cls) if (r.get("ok") and r.get("current") and r.get("v2_ok")) else "none"}
        if r.get("kind") == "v2":
            return {"e": "tx", "c": c, "t": "DATA", "ctr": -1, "tok": "na", "k": 0, "wf": bool(r.get("ok")), "reply": ABSTRACT.get(cls, cls) if r.get("ok") else "none"}
        return {"e": "tx", "c": c, "t": "JUNK", "ctr": -1, "tok": "na", "k": 0, "wf": False, "reply": "none"}

    def _abs_hs(self, cls, r):
        a = ABSTRACT.get(cls, cls)
        if not r.get("token_ok"):
            return "none" if a == "none" else "error"        # the device answers an unknown token with an error packet (or nothing)
        return a

    def _stored(self):
        t, k = self.lan.token, self.lan.key
        if t is None and k is None:
            return "none"
        if t == GOOD_TOKEN and k == GOOD_KEY:
            return "good"
        if t == BAD_TOKEN or k == BAD_KEY:
            return "bad"
        return "other"

    def _ret_event(self):
        t = self.task
        ev = {"e": "ret", "op": self.call_name, "n": 0, "stored": "none"}
        if t.cancelled():
            ev["r"] = "cancelled"
        elif t.exception() is not None:
            ex = t.exception()
            name = type(ex).__name__
            ev["r"] = {"ProtocolError": "proto", "AuthenticationError": "auth", "TimeoutError": "timeout", "CancelledError": "cancelled"}.get(name, "other:" + name)
            ev["msg"] = str(ex)[:60]
        else:
            v = t.result()
            if self.call_name == "auth":
                ev["r"] = "authok"
            else:
                ev["r"] = "frames"
                ev["n"] = len(v) if v is not None else 0
                self.last_frames = v
        ev["stored"] = self._stored()
        return ev

    # ---- enabledness (for random walks) ------------------------------------------------------------
    def enabled(self):
        en = []
        if self.task is None:
            if self.version == 2:
                en += ["call_send"]
            else:
                en += ["call_auth_good", "call_auth_bad"] + (["call_send"] if self.lan._protocol_version == 3 else [])
            if self.lan._protocol is not None:
                en += ["jumpauth"] if self.version == 3 else []
                if self.lifetime is not None:
                    en.append("jumplife")
        else:
            en.append("cancel")
            if self.net.pending_connect is not None:
                en += ["connok", "connrefuse", "connhang"]
            elif self.loop.pending_timers():
                en.append("timer")
        for i in range(len(self.parked)):
            en.append(("deliver", i))
        if any(not t._closing for t in self.net.conns):
            en.append("peerclose")
        return en

    # ---- primitives ----------------------------------------------------------------------------------
    def call_send(self, reply=None):
        return self._call("send", lambda: self.lan.send(self.frame, retries=self.retries), "cached", reply)

    def call_auth(self, creds, reply=None):
        tok, key = (GOOD_TOKEN, GOOD_KEY) if creds == "good" else (BAD_TOKEN, BAD_KEY)
        return self._call("auth", lambda: self.lan.authenticate(tok, key, retries=self.retries), creds, reply)

    def _call(self, name, mk, cr, reply):
        assert self.task is None
        if reply:
            self.next_reply.append(reply)
        self.call_name = name
        self.task = self.loop.in_context(lambda: self.loop.create_task(mk()))
        self.loop.run_idle()
        return self._collect({"e": "call", "op": name, "cr": cr})

    def conn(self, how, reply=None):
        assert self.net.pending_connect is not None
        if reply:
            self.next_reply.append(reply)
        if how == "hang":
            self.loop.fire_next_timer()
            return self._collect({"e": "connhang"})
        fut = self.net.pending_connect[0]
        fut.set_result("ok" if how == "ok" else "refuse")
        self.loop.run_idle()
        if how == "ok":
            return self._collect({"e": "connok", "c": len(self.net.conns)})
        return self._collect({"e": "connrefuse"})

    def deliver(self, i=0, reply=None):
        m = self.parked.pop(i)
        if reply:
            self.next_reply.append(reply)
        tr = self.net.conns[m["conn"]]
        cur = self.lan._protocol is not None and getattr(self.lan._protocol, "_transport", None) is tr
        fed = tr.feed(m["data"])
        self.loop.run_idle()
        return self._collect({"e": "deliver", "c": m["conn"] + 1, "m": m["cls"], "k": m["k"], "gen": bool(m["gen"]), "live": bool(fed)})

    def timer(self, reply=None):
        if reply:
            self.next_reply.append(reply)
        self.loop.fire_next_timer()
        return self._collect({"e": "timer"})

    def cancel(self):
        self.task.cancel()
        self.loop.run_idle()
        return self._collect({"e": "cancel"})

    def peerclose(self):
        trs = [t for t in self.net.conns if not t._closing]
        tr = trs[-1]
        tr.peer_close()
        self.loop.run_idle()
        return self._collect({"e": "peerclose", "c": tr.cid + 1})

    def jumpauth(self):
        vloop.VClock.offset += 12 * 3600 + 1
        return self._collect({"e": "jumpauth"})

    def jumplife(self):
        vloop.VClock.offset += (self.lifetime or 0) + 1
        return self._collect({"e": "jumplife"})

    def close(self):
        """End of scenario: cancel whatever is still running so that nothing is left for the GC to complain about."""
        try:
            if self.task is not None and not self.task.done():
                self.task.cancel()
            for _ in range(5):
                self.loop.run_idle()
            for t in asyncio.all_tasks(self.loop):
                t.cancel()
            self.loop.run_idle()
        except Exception:  # noqa: BLE001
            pass

    def drop(self, i=0):
        """An in-flight message is lost in the network."""
        m = self.parked.pop(i)
        return self._collect({"e": "lost", "c": m["conn"] + 1, "m": m["cls"]})
