"""Controlled scheduler: the harness IS the environment of a real msmart LAN / Device object.

One primitive per environment action of spec/LanSession.tla.  Device replies are parked, never delivered on
their own; library timers fire only when `timer()` is called; connects resolve only when told.  After each
primitive the observable events it caused (client closes, connect requests, transmissions as decoded by the
device with ITS keys, call results) are appended to `self.trace` in the alphabet of spec/SessionMon.tla.
"""
from __future__ import annotations

import asyncio
import datetime as _dt

from . import vloop, landev, refcrypto as rc
from .common import B

GOOD_TOKEN = bytes(range(64))
GOOD_KEY = bytes(range(100, 132))
BAD_TOKEN = bytes(reversed(range(64)))
BAD_KEY = bytes(range(7, 39))
OTHER_KEY = bytes(range(200, 232))

ABSTRACT = {"valid": "valid", "flip_cipher": "forged", "flip_hash": "forged", "short": "forged", "long": "forged", "otherkey": "forged",
            "retype": "garbage", "garbage": "garbage", "error": "error", "enc": "enc", "encold": "enc", "none": "none",
            "badtag": "bad", "badinner": "bad", "badsig": "bad", "signed_garbage": "bad", "hsr": "hsr",
            "valid+unsolicited": "valid+unsolicited", "dup": "dup"}
CONCRETE_HS = {"valid": ["valid"], "forged": ["flip_cipher", "flip_hash", "short", "long", "otherkey"], "garbage": ["retype", "garbage"],
               "error": ["error"], "enc": ["enc"], "none": ["none"]}
CONCRETE_DATA3 = {"valid": ["valid"], "bad": ["badtag", "badinner"], "error": ["error"], "garbage": ["garbage"], "hsr": ["hsr"], "none": ["none"],
                  "valid+unsolicited": ["valid+unsolicited"], "dup": ["dup"]}
CONCRETE_DATA2 = {"valid": ["valid"], "bad": ["badsig", "garbage", "signed_garbage"], "none": ["none"],
                  "valid+unsolicited": ["valid+unsolicited"], "dup": ["dup"]}
REPLY_CLASSES_HS = ["valid", "flip_cipher", "flip_hash", "short", "long", "retype", "otherkey", "error", "garbage", "enc", "none"]
REPLY_CLASSES_DATA = ["valid", "badtag", "badinner", "error", "garbage", "hsr", "none", "valid+unsolicited", "dup"]
REPLY_CLASSES_V2 = ["valid", "badsig", "garbage", "signed_garbage", "none", "valid+unsolicited", "dup"]


FIELDS = {"call": ("e", "op", "cr"), "connreq": ("e",), "close": ("e", "c"), "connok": ("e", "c"), "connrefuse": ("e",), "connhang": ("e",),
          "tx": ("e", "c", "t", "ctr", "tok", "k", "wf", "reply"), "ret": ("e", "op", "r", "n", "stored"),
          "deliver": ("e", "c", "m", "k", "gen", "live", "i"), "devcall": ("e", "op"), "devret": ("e", "op", "raised", "online", "frames"), "lost": ("e", "c", "m", "i"), "peerclose": ("e", "c"),
          "jumpauth": ("e",), "jumphalf": ("e",), "setlife": ("e",), "jumplife": ("e",), "timer": ("e",), "cancel": ("e",)}


def norm_event(e):
    """Exactly the fields the LanSession model publishes for this kind of event (record equality in TLC)."""
    return {k: e[k] for k in FIELDS[e["e"]]}


def acdev_response_ok(f):
    """Reference check that f is a well-formed, checksum-valid appliance response frame (what 'a response' means at device level)."""
    from . import acdev
    f = bytes(f)
    if len(f) < 13 or f[0] != 0xAA or f[1] != len(f) - 1 or acdev.csum(f[1:-1]) != f[-1]:
        return False
    body = f[10:-1]
    return body[0] in (0xB0, 0xB1) or acdev.crc8(body[:-1]) == body[-1] or acdev.csum(body[:-1]) == body[-1]


def acdev_state_frame():
    from . import acdev
    return acdev.resp_frame(4, acdev.encode_state(acdev.DEFAULT_STATE), "crc")


class Session:
    def __init__(self, *, version=3, retries=3, lifetime=None, seed=0, target="lan", ac=None, creds=None):
        """creds: optional (good_token, good_key, bad_token, bad_key) - default fixed test vectors."""
        self.tok_good, self.key_good, self.tok_bad, self.key_bad = creds or (GOOD_TOKEN, GOOD_KEY, BAD_TOKEN, BAD_KEY)
        self.presented_key = self.key_good
        self.seed = seed if isinstance(seed, int) else 0
        from msmart.lan import LAN
        vloop.install_clock()
        self.loop = vloop.new_loop()
        self.net = vloop.Net(self.loop)
        self.net.connect_mode = "manual"
        self.version = version
        self.retries = retries
        from . import acdev

        class _Echo(acdev.ACModel):          # the LAN layer does not interpret frames: answer every frame with itself
            def handle(self, f):
                self.rx_frames.append(bytes(f))
                return [bytes(f)]
        self.ac = ac or _Echo()
        self.dev = landev.LanDevice(self.loop, self.net, self.ac, version=version, token=self.tok_good, key=self.key_good, seed=seed)
        self.dev.respond = self._park
        self.dev.reply_filter = self._filter
        self.parked = []                 # dicts: conn, data, cls, k (key id), gen
        self.next_reply = []             # reply classes for upcoming transmissions (default "valid")
        self.next_reply_hs = None        # standing choice by kind (random walks)
        self.next_reply_data = None
        self.trace = []
        self.steps = []                  # the same events grouped per environment action (one LanSession step each)
        self.conn_time = {}              # connection number -> wall-clock instant it was established
        self.task = None
        self.call_name = None
        self.result = None
        self._ev_mark = 0
        self._rx_mark = 0
        self.target = target
        self.op_frames = 0               # frames returned by the LAN exchanges of the running device-level operation
        if target == "lan":
            self.lan = LAN("10.0.0.1", 6444, 0x0A0B0C0D0E0F)
            self.obj = self.lan
        else:
            from msmart.device import AirConditioner as AC
            self.obj = AC(ip="10.0.0.1", port=6444, device_id=0x0A0B0C0D0E0F)
            self.lan = self.obj._lan
        if version == 3:
            self.lan._protocol_version = 3 if target == "lan3pre" else self.lan._protocol_version
        if lifetime is not None:
            self.lan.max_connection_lifetime = lifetime
        self.lifetime = lifetime
        self.frame = bytes.fromhex("aa20ac00000000000003418100ff03ff000200000000000000000000000003")  # any bytes: LAN does not interpret
        self.frame = self.frame + bytes([0x11, 0x22])

    # ---- device side: reply classes ---------------------------------------------------------
    def _filter(self, kind, tr, packets):
        if self.next_reply:
            cls = self.next_reply.pop(0)
        else:
            cls = (self.next_reply_hs if kind in ("hs", "hs_bad") else self.next_reply_data) or "valid"
        if not packets:
            cls = "none"
        self._last_cls = cls
        s = self.dev.sess[tr.cid]
        out = []

        def park(data, c, k=0, gen=False):
            out.append({"conn": tr.cid, "data": bytes(data), "cls": c, "k": k, "gen": gen, "obs": self._observe(bytes(data))})
        if cls.startswith("raw:"):                      # byte-level adversary: the reply is exactly these bytes
            data = bytes.fromhex(cls[4:])
            m, k, gen = self._classify(data, s)
            park(data, m, k, gen)
            self._last_cls = "raw"
            self.parked += out
            return []
        if kind == "hs":
            p = packets[0]
            body = p[8:]
            k = s["keyid"]
            if cls == "valid":
                park(p, "HSR", k, True)
            elif cls == "flip_cipher":
                park(p[:11] + bytes([p[11] ^ 0x10]) + p[12:], "HSR", k, False)
            elif cls == "flip_hash":
                park(p[:50] + bytes([p[50] ^ 0x01]) + p[51:], "HSR", k, False)
            elif cls == "short":
                park(landev.v3_plain_packet(1, 0, body[:63]), "HSR", k, False)
            elif cls == "long":
                park(landev.v3_plain_packet(1, 0, body + b"\x00"), "HSR", k, False)
            elif cls == "retype":
                park(p[:5] + bytes([0x02]) + p[6:], "OTHER")
            elif cls.startswith("flip:"):                 # one bit of the 64-byte reply payload inverted
                b = int(cls[5:])
                q = bytearray(p)
                q[8 + b // 8] ^= 1 << (b % 8)
                park(bytes(q), "HSR", k, False)
            elif cls.startswith("len:"):                  # reply payload cut / extended to n bytes (size field consistent)
                n = int(cls[4:])
                park(landev.v3_plain_packet(1, 0, (body + bytes(range(1, 40)))[:n]), "HSR", k, n == 64)
            elif cls.startswith("lentype:"):              # over-long reply (genuine proof + trailing bytes) whose type byte carries a "padding" count in its upper nibble
                _, n, hi = cls.split(":")
                q = bytearray(landev.v3_plain_packet(1, 0, (body + bytes(range(1, 40)))[:int(n)]))
                q[5] = (int(hi) << 4) | 1
                park(bytes(q), "HSR", k, False)
            elif cls.startswith("split:"):                # the genuine reply reaches the client in two TCP segments cut after n bytes
                n = int(cls[6:])
                park(p[:n], "OTHER")
                park(p[n:], "HSR", k, True)
                out[-1]["whole"] = bytes(p)               # what the receiver has once this segment has arrived
            elif cls.startswith("cut:"):                  # the transport delivers only the first n bytes of the reply, then nothing more
                park(p[:int(cls[4:])], "OTHER")
            elif cls.startswith("type:"):                 # another packet type nibble in place of the reply
                t = int(cls[5:])
                park(p[:5] + bytes([(p[5] & 0xF0) | t]) + p[6:], {1: "HSR", 15: "ERR", 3: "ENC"}.get(t, "OTHER"), k if t in (1, 3) else 0, t == 1)
            elif cls == "otherkey":
                nonce = bytes(range(32))
                park(landev.v3_plain_packet(1, 0, landev.hs_reply_payload(OTHER_KEY, nonce)), "HSR", k, False)
            elif cls == "error":
                park(landev.v3_error_packet(), "ERR")
            elif cls == "garbage":
                park(b"\x83\x70\x00\x10\x20\x07" + bytes(18), "OTHER")
            elif cls == "enc":
                park(landev.v3_enc_packet(s["key"], landev.v2_wrap(self.frame), 1), "ENC", k, True)
            elif cls == "encold":                         # an encrypted response that is valid under the PREVIOUS session key (the one the client still holds)
                if s.get("prevkey"):
                    park(landev.v3_enc_packet(s["prevkey"], landev.v2_wrap(self.frame), 1), "ENC", s.get("prevkeyid", 0), True)
                else:
                    park(landev.v3_error_packet(), "ERR")
            # "none": nothing
        elif kind == "hs_bad":
            if cls != "none":
                park(packets[0], "ERR")
        elif kind == "data" and self.version == 3:
            k = s["keyid"]
            key = s["key"]
            base = cls.split("+")[0]
            if base in ("valid", "dup"):
                for p in packets:
                    park(p, "ENC", k, True)
                if base == "dup":
                    park(packets[0], "ENC", k, True)
            elif base == "badtag":
                p = packets[0]
                park(p[:-1] + bytes([p[-1] ^ 1]), "ENC", k, False)
            elif base == "badinner":
                park(landev.v3_enc_packet(key, b"\x5a\x5a" + bytes(70), 9), "ENC", k, False)
            elif base == "error":
                park(landev.v3_error_packet(), "ERR")
            elif base == "garbage":
                park(b"\x83\x70\x00\x10\x20\x09" + bytes(18), "OTHER")
            elif base == "hsr":
                park(landev.v3_plain_packet(1, 0, bytes(64)), "HSR", 0, False)
            elif base == "noise":                    # line noise: bytes without a start marker
                park(getattr(self, "noise_bytes", b"\x01\x02\x03"), "NOISE", 0, False)
            if "+unsolicited" in cls:
                park(landev.v3_enc_packet(key, landev.v2_wrap(acdev_state_frame()), 77), "ENC", k, True)
        elif kind == "data":
            base = cls.split("+")[0]
            if base in ("valid", "dup"):
                for p in packets:
                    park(p, "PKT", 0, True)
                if base == "dup":
                    park(packets[0], "PKT", 0, True)
            elif base == "badsig":
                p = packets[0]
                park(p[:-1] + bytes([p[-1] ^ 1]), "PKT", 0, False)
            elif base == "garbage":
                park(bytes(30), "PKT", 0, False)
            elif base == "signed_garbage":
                body = b"\x5a\x5a\x01\x11" + (40 + 7 + 16).to_bytes(2, "little") + b"\x20\x00" + bytes(32) + bytes(7)
                park(body + rc.md5(body + rc.SIGN_KEY), "PKT", 0, False)
            if "+unsolicited" in cls:
                park(landev.v2_wrap(acdev_state_frame(), 1), "PKT", 0, True)
        self.parked += out
        return []

    def _park(self, tr, packets):   # never called: _filter returns []
        pass

    def _observe(self, data):
        """Reference-evaluated facts about one device->client message (independent codecs of landev/refcrypto).  The
        specification, not this harness, decides from them whether a handshake reply is genuine (Trace_Mon!Ev)."""
        if self.version != 3:
            return {"ty": -1, "ln": len(data), "proof": False}
        start = data.find(b"\x83\x70")
        if start > 0:
            data = data[start:]                  # bytes in front of the start marker are skipped by a conforming receiver (C04)
        ok_hdr = len(data) >= 8 and data[:2] == b"\x83\x70" and data[4] == 0x20 and int.from_bytes(data[2:4], "big") + 8 == len(data)
        if not ok_hdr:
            return {"ty": -1, "ln": len(data), "proof": False}
        body = data[8:]
        proof = False
        if len(body) >= 64:
            proof = rc.sha256(rc.cbc_decrypt(self.presented_key, body[:32])) == body[32:64]
        return {"ty": data[5] & 0xF, "ln": len(body), "proof": bool(proof)}

    def _classify(self, data, s):
        """Abstract class (m, k, gen) of raw reply bytes, by the reference parsers."""
        if self.version == 2:
            o = landev.v2_unwrap(data)
            return "PKT", 0, bool(o["ok"])
        ob = self._observe(data)
        if ob["ty"] == 1:
            return "HSR", s["keyid"], bool(ob["ln"] == 64 and ob["proof"])
        if ob["ty"] == 15:
            return "ERR", 0, False
        if ob["ty"] == 3:
            for kid, k in sorted(self.dev.keys.items(), reverse=True):
                o = landev.v3_dec_packet(k, data)
                if o["ok"]:
                    return "ENC", kid, bool(landev.v2_unwrap(o["payload"])["ok"])
            return "ENC", s["keyid"], False
        return "OTHER", 0, False

    # ---- observation ---------------------------------------------------------------------------
    def _collect(self, ev):
        """Append env event `ev` followed by the client-observable events it caused."""
        evs = [ev]
        rx = self.dev.rx[self._rx_mark:]
        self._rx_mark = len(self.dev.rx)
        rxi = 0
        for e in self.net.events[self._ev_mark:]:
            if e[0] == "close":
                evs.append({"e": "close", "c": e[1] + 1})
            elif e[0] == "connreq":
                evs.append({"e": "connreq"})
            elif e[0] == "call":
                self._open_calls = getattr(self, "_open_calls", 0) + 1
                evs.append({"e": "call", "op": "send", "cr": "cached"})
            elif e[0] == "ret":
                self._open_calls = getattr(self, "_open_calls", 0) - 1
                evs.append(self._ret_of("send", e[1]))
            elif e[0] == "tx":
                r = rx[rxi] if rxi < len(rx) else {"kind": "garbage"}
                rxi += 1
                evs.append(self._tx_event(e[1] + 1, r))
        self._ev_mark = len(self.net.events)
        self.next_reply.clear()
        if self.task is not None and self.task.done():
            if str(self.call_name).startswith("dev:"):
                t = self.task
                raised = t.cancelled() or t.exception() is not None
                evs.append({"e": "devret", "op": self.call_name[4:], "raised": bool(raised), "online": bool(self.obj.online), "frames": self.op_frames,
                            "exc": "" if not raised else ("CancelledError" if t.cancelled() else type(t.exception()).__name__)})
            else:
                evs.append(self._ret_event())
            self.task = None
        self.trace += evs
        self.steps.append([norm_event(e) for e in evs])
        return evs

    def _tx_event(self, c, r):
        cls = getattr(self, "_last_cls", "valid")
        if r.get("kind") == "hs":
            raw = r["raw"]
            tok = raw[8:]
            return {"e": "tx", "c": c, "t": "HS", "ctr": r["ctr"], "tok": "good" if tok == self.tok_good else ("bad" if tok == self.tok_bad else "other"),
                    "k": r.get("keyid", 0), "wf": bool(raw[:6] == b"\x83\x70" + len(tok).to_bytes(2, "big") + b"\x20\x00"),
                    "reply": self._abs_hs(cls, r)}
        if r.get("kind") == "data":
            return {"e": "tx", "c": c, "t": "DATA", "ctr": r.get("ctr", -1), "tok": "na", "k": r.get("keyid", 0),
                    "wf": bool(r.get("ok") and r.get("v2_ok")), "reply": ABSTRACT.get(cls, cls) if (r.get("ok") and r.get("current") and r.get("v2_ok")) else "none"}
        if r.get("kind") == "v2":
            return {"e": "tx", "c": c, "t": "DATA", "ctr": -1, "tok": "na", "k": 0, "wf": bool(r.get("ok")),
                    "reply": ("bad" if cls == "garbage" else ABSTRACT.get(cls, cls)) if r.get("ok") else "none"}
        return {"e": "tx", "c": c, "t": "JUNK", "ctr": -1, "tok": "na", "k": 0, "wf": False, "reply": "none"}

    def _abs_hs(self, cls, r):
        a = ABSTRACT.get(cls, cls)
        if not r.get("token_ok"):
            return "none" if a == "none" else "error"        # the device answers an unknown token with an error packet (or nothing)
        return a

    def _stored(self):
        t, k = self.lan.token, self.lan.key
        if t is None and k is None:
            return "none"
        if t == self.tok_good and k == self.key_good:
            return "good"
        if t == self.tok_bad or k == self.key_bad:
            return "bad"
        return "other"

    def _ret_event(self):
        t = self.task
        if t.cancelled():
            return self._ret_of(self.call_name, asyncio.CancelledError())
        if t.exception() is not None:
            return self._ret_of(self.call_name, t.exception())
        return self._ret_of(self.call_name, t.result())

    def _ret_of(self, op, v):
        ev = {"e": "ret", "op": op, "n": 0, "stored": "none"}
        if isinstance(v, BaseException):
            name = type(v).__name__
            ev["r"] = {"ProtocolError": "proto", "AuthenticationError": "auth", "TimeoutError": "timeout", "CancelledError": "cancelled"}.get(name, "other:" + name)
            ev["msg"] = str(v)[:60]
        elif op == "auth":
            ev["r"] = "authok"
        else:
            ev["r"] = "frames"
            ev["n"] = len(v) if v is not None else 0
            self.last_frames = v
            self.op_frames += sum(1 for f in (v or []) if acdev_response_ok(f))
        ev["stored"] = self._stored()
        return ev

    # ---- enabledness (for random walks) ------------------------------------------------------------
    def enabled(self):
        en = []
        if self.task is None:
            if self.version == 2:
                en += ["call_send"]
            else:
                en += ["call_auth_good", "call_auth_bad"] + (["call_send"] if self.lan._protocol_version == 3 else [])
            if self.lan._protocol is not None:
                en += ["jumpauth", "jumphalf"] if self.version == 3 else []
                if self.lifetime is not None:
                    en.append("jumplife")
        else:
            en.append("cancel")
            if self.net.pending_connect is not None:
                en += ["connok", "connrefuse", "connhang"]
            elif self.loop.pending_timers():
                en.append("timer")
        for i in range(len(self.parked)):
            en.append(("deliver", i))
        if any(not t._closing for t in self.net.conns):
            en.append("peerclose")
        return en

    # ---- primitives ----------------------------------------------------------------------------------
    def call_send(self, reply=None):
        pk = self.lan.key                                       # an implicit handshake presents the stored key
        if isinstance(pk, str):
            try:
                pk = bytes.fromhex(pk)
            except ValueError:
                pk = None
        self.presented_key = pk if isinstance(pk, (bytes, bytearray)) and len(pk) == 32 else self.key_good
        return self._call("send", lambda: self.lan.send(self.frame, retries=self.retries), "cached", reply)

    def call_auth(self, creds, reply=None, hexform=None, level="lan"):
        if hexform is None:
            # bytes or hex strings (what the cloud, discovery and the command line hand over): the form varies from session to session
            hexform = [False, "both", False, "token", False, "key"][self.seed % 6] if isinstance(getattr(self, "seed", 0), int) else False
        tok, key = (self.tok_good, self.key_good) if creds == "good" else (self.tok_bad, self.key_bad)
        self.presented_key = key
        if hexform in (True, "both"):
            tok, key = tok.hex(), key.hex()
        elif hexform == "token":
            tok = tok.hex()
        elif hexform == "key":
            key = key.hex()
        if level == "dev":                    # through Device.authenticate (default retry budget)
            return self._call("auth", lambda: self.obj.authenticate(tok, key), creds, reply)
        return self._call("auth", lambda: self.lan.authenticate(tok, key, retries=self.retries), creds, reply)

    def reprovision(self):
        """The unit is provisioned anew (paired again with the cloud): from now on it accepts the OTHER credential pair and no longer the old one.
        No event: what the model calls good / bad credentials is relative to what the unit accepts.  Callers authenticate explicitly right after."""
        self.tok_good, self.tok_bad = self.tok_bad, self.tok_good
        self.key_good, self.key_bad = self.key_bad, self.key_good
        self.dev.token, self.dev.key = self.tok_good, self.key_good

    def call_op(self, name, reply=None):
        """Device-level operation (refresh/apply/...) on the AirConditioner; its LAN exchanges appear as ordinary send calls."""
        assert self.task is None and self.target != "lan"
        if reply:
            self.next_reply.append(reply)
        self._wrap_lan()
        self.call_name = "dev:" + name
        self.op_frames = 0
        self.task = self.loop.in_context(lambda: self.loop.create_task(getattr(self.obj, name)()))
        self.loop.run_idle()
        return self._collect({"e": "devcall", "op": name})

    def _wrap_lan(self):
        if getattr(self, "_wrapped", False):
            return
        self._wrapped = True
        orig = self.lan.send
        net = self.net

        async def send(data, *a, **kw):
            net.log(("call", "send"))
            try:
                r = await orig(data, *a, **kw)
            except BaseException as ex:
                net.log(("ret", ex))
                raise
            net.log(("ret", r))
            return r
        self.lan.send = send

    def _call(self, name, mk, cr, reply):
        assert self.task is None
        if reply:
            self.next_reply.append(reply)
        self.call_name = name
        self.task = self.loop.in_context(lambda: self.loop.create_task(mk()))
        self.loop.run_idle()
        return self._collect({"e": "call", "op": name, "cr": cr})

    def conn(self, how, reply=None):
        assert self.net.pending_connect is not None
        if reply:
            self.next_reply.append(reply)
        if how == "hang":
            self.loop.fire_next_timer()
            return self._collect({"e": "connhang"})
        fut = self.net.pending_connect[0]
        fut.set_result("ok" if how == "ok" else "refuse")
        self.loop.run_idle()
        if how == "ok":
            self.conn_time[len(self.net.conns)] = vloop.VClock.now(_dt.timezone.utc).timestamp()
            return self._collect({"e": "connok", "c": len(self.net.conns)})
        return self._collect({"e": "connrefuse"})

    def deliver(self, i=0, reply=None):
        m = self.parked.pop(i)
        if reply:
            self.next_reply.append(reply)
        tr = self.net.conns[m["conn"]]
        cur = self.lan._protocol is not None and getattr(self.lan._protocol, "_transport", None) is tr
        # "proof under the presented key" is a fact about the message AND the call that receives it: a reply produced for an earlier call (good
        # credentials) that reaches a later call presenting other credentials proves nothing to that call
        m["obs"] = self._observe(m.get("whole", m["data"]))
        if self.version == 3 and m["cls"] == "HSR":
            m["gen"] = bool(m["gen"] and m["obs"]["ty"] == 1 and m["obs"]["ln"] == 64 and m["obs"]["proof"])     # genuine FOR THE CALL that receives it
        fed = tr.feed(m["data"])
        self.loop.run_idle()
        return self._collect({"e": "deliver", "c": m["conn"] + 1, "m": m["cls"], "k": m["k"], "gen": bool(m["gen"]), "live": bool(fed), "i": i + 1,
                              "obs": m.get("obs") or {"ty": -1, "ln": 0, "proof": False}})

    def inject(self, data):
        """The peer sends bytes nobody asked for on the client's current connection (they are in flight until delivered)."""
        trs = [t for t in self.net.conns if not t._closing]
        if not trs:
            return False
        tr = trs[-1]
        m, k, gen = self._classify(bytes(data), self.dev.sess[tr.cid])
        self.parked.append({"conn": tr.cid, "data": bytes(data), "cls": m, "k": k, "gen": gen, "obs": self._observe(bytes(data))})
        return True

    def timer(self, reply=None):
        if reply:
            self.next_reply.append(reply)
        self.loop.fire_next_timer()
        return self._collect({"e": "timer"})

    def hang(self):
        """The active call can never complete: abandon it and record that as its outcome."""
        t, name = self.task, self.call_name
        t.cancel()
        try:
            self.loop.run_idle()
        except Exception:  # noqa: BLE001
            pass
        self.task = None
        evs = [{"e": "timer"}]
        if str(name).startswith("dev:"):
            if getattr(self, "_open_calls", 0) > 0:
                evs.append({"e": "ret", "op": "send", "n": 0, "stored": self._stored(), "r": "other:NeverReturns", "msg": "the call can never complete"})
                self._open_calls = 0
            evs.append({"e": "devret", "op": name[4:], "raised": True, "online": bool(self.obj.online), "frames": self.op_frames, "exc": "NeverReturns"})
        else:
            evs.append({"e": "ret", "op": name, "n": 0, "stored": self._stored(), "r": "other:NeverReturns", "msg": "the call can never complete"})
        self._ev_mark = len(self.net.events)
        self._rx_mark = len(self.dev.rx)
        self.trace += evs
        self.steps.append([norm_event(e) for e in evs]) if hasattr(self, "steps") else None
        return evs

    def cancel(self):
        self.task.cancel()
        self.loop.run_idle()
        return self._collect({"e": "cancel"})

    def peerclose(self, reset=False):
        """The peer closes the connection (reset=True: the connection is lost with an error, e.g. ECONNRESET)."""
        trs = [t for t in self.net.conns if not t._closing]
        if not trs:
            return []                      # nothing is connected (an earlier step of the scenario did not get that far): no event
        tr = trs[-1]
        tr.peer_close(ConnectionResetError(104, "Connection reset by peer") if reset else None)
        self.loop.run_idle()
        return self._collect({"e": "peerclose", "c": tr.cid + 1})

    def jumpauth(self):
        vloop.VClock.offset += 12 * 3600 + 1
        return self._collect({"e": "jumpauth"})

    def jumphalf(self):
        """Half the key lifetime passes (6 h and a second)."""
        vloop.VClock.offset += 6 * 3600 + 1
        return self._collect({"e": "jumphalf"})

    def setlife(self):
        """The user configures the same maximum connection lifetime once more."""
        self.obj.set_max_connection_lifetime(self.lifetime) if hasattr(self.obj, "set_max_connection_lifetime") else setattr(self.lan, "max_connection_lifetime", self.lifetime)
        return self._collect({"e": "setlife"})

    def jumplife(self):
        """The wall clock jumps to just past (instant the current connection was established) + max_connection_lifetime."""
        t_conn = self.conn_time.get(len(self.net.conns), None)
        now = vloop.VClock.now(_dt.timezone.utc).timestamp()
        target = (t_conn + (self.lifetime or 0) + 1) if t_conn is not None else now + (self.lifetime or 0) + 1
        vloop.VClock.offset += max(target - now, 1.0)
        return self._collect({"e": "jumplife"})

    def settle(self, *, hs=None, data=None, connect="ok", deliver=True, limit=60, until=None, last=None, hold=False):
        """Run the active call to its end with a plain environment: connects resolve as `connect`, every in-flight message is
        delivered in order (unless deliver=False: the network drops it), otherwise the pending library timer fires.
        hs / data = class of the device's reaction to every handshake / data transmission made meanwhile (None: valid)."""
        n = 0
        if until is not None and last is not None and until(last):
            return last[-1]
        while self.task is not None:
            n += 1
            if n > limit:
                raise RuntimeError("call does not terminate")
            self.next_reply_hs, self.next_reply_data = hs, data
            if self.net.pending_connect is not None:
                evs = self.conn(connect)
            elif self.parked and deliver and not hold:
                evs = self.deliver(0)
            elif self.parked and not hold:
                evs = self.drop(0)
            elif self.loop.pending_timers():
                evs = self.timer()
            else:
                # nothing in flight, no timer pending, yet the call has not returned: it never will (e.g. a lock that is never released).
                # That is an outcome like any other (C09: an exchange ends in frames, an error or a timeout): recorded, the task is abandoned
                evs = self.hang()
            if until is not None and until(evs):
                break
        self.next_reply_hs = self.next_reply_data = None
        return self.trace[-1]

    def close(self):
        """End of scenario: cancel whatever is still running so that nothing is left for the GC to complain about."""
        try:
            if self.task is not None and not self.task.done():
                self.task.cancel()
            for _ in range(5):
                self.loop.run_idle()
            for t in asyncio.all_tasks(self.loop):
                t.cancel()
            self.loop.run_idle()
        except Exception:  # noqa: BLE001
            pass

    def drop(self, i=0):
        """An in-flight message is lost in the network."""
        m = self.parked.pop(i)
        return self._collect({"e": "lost", "c": m["conn"] + 1, "m": m["cls"], "i": i + 1})
