"""Entry point:  ./check <property id> [--tier quick|thorough] [--replay path]

exit 0: property held on everything explored (KNOWN-FINDING lines possible)
exit 1: violation(s); one line  VIOLATION property=<id> replay=<path>  each
exit 2: machinery failure (TLC crash, unparsable output, canary accepted, ...) -- never a verdict
"""
from __future__ import annotations

import argparse
import importlib
import logging
import os
import sys
import traceback


def main(argv=None) -> int:
    ap = argparse.ArgumentParser()
    ap.add_argument("pid")
    ap.add_argument("--tier", default=os.environ.get("VERIF_TIER", "quick"), choices=["quick", "thorough"])
    ap.add_argument("--replay", default=None)
    a = ap.parse_args(argv)
    seed = int(os.environ.get("VERIF_SEED", "0") or 0)
    logging.disable(logging.CRITICAL)
    from .common import Ctx
    from .tlc import MachineryError
    pid = a.pid.upper()
    try:
        mod = importlib.import_module(f"harness.drivers.{pid.lower()}")
    except ModuleNotFoundError:
        print(f"no driver for {pid}", file=sys.stderr)
        return 2
    tier = a.tier
    if a.replay:
        import json
        try:
            rec = json.load(open(a.replay))          # read before anything is cleaned up
        except Exception as e:  # noqa: BLE001
            print(f"MACHINERY-FAILURE {pid}: cannot read replay file {a.replay}: {e}", file=sys.stderr)
            return 2
        seed = int(rec.get("seed", seed))
        tier = rec.get("tier", tier) if rec.get("tier") in ("quick", "thorough") else tier
    # Two runs of the same property in one /verif share .work/<pid>_* and replay/<pid>: serialise them (the second waits) instead of letting them
    # overwrite each other's cfg / trace files, which ends in a machinery failure (exit 2), never in a verdict, but is avoidable.
    import fcntl
    from .tlc import WORK
    WORK.mkdir(parents=True, exist_ok=True)
    _lock = open(WORK / f"{pid}.lock", "w")                 # noqa: SIM115 - held until the process ends
    fcntl.flock(_lock, fcntl.LOCK_EX)
    ctx = Ctx(pid, tier, seed, replay_mode=bool(a.replay))
    try:
        if a.replay:
            # 1. the recorded case alone, re-executed against the current tree (when the driver can do that); 2. if that shows nothing - many cases
            #    depend on the run around them (objects with a past, streams, sessions) - the whole check with the recorded seed and tier, which
            #    regenerates the same cases deterministically
            from .common import NotReplayable
            try:
                rc = mod.replay(ctx, a.replay)
            except (NotReplayable, KeyError, IndexError, TypeError):
                rc = 0
            if rc != 0:
                return rc
            print(f"[{pid}] the recorded case alone shows no violation on this tree; re-running the whole check with seed={seed} tier={tier}")
            ctx = Ctx(pid, tier, seed, replay_mode=True)
        return mod.run(ctx)
    except MachineryError as e:
        print(f"MACHINERY-FAILURE {pid}: {e}", file=sys.stderr)
        if ctx.violations:
            # violations judged by TLC before the machinery problem (e.g. a canary built from misbehaving output) stand
            ctx.notes.append("run cut short by a machinery failure after violations had been established: " + str(e)[:300])
            return ctx.finish(rule="(run cut short by a machinery failure; the violations listed were established before it)")
        return 2
    except Exception:
        traceback.print_exc()
        print(f"MACHINERY-FAILURE {pid}: unexpected exception in the harness", file=sys.stderr)
        if ctx.violations:
            ctx.notes.append("run cut short by an exception in the harness after violations had been established")
            return ctx.finish(rule="(run cut short by a harness exception; the violations listed were established before it)")
        return 2


if __name__ == "__main__":
    sys.exit(main())
