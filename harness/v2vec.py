"""Vectors for Trace_V2: oracle records (reference evaluations on spec-defined spans) and library results."""
from __future__ import annotations

from . import refcrypto as rc
from .common import B


def v2_oracle(q: bytes) -> dict:
    """Reference evaluations on the spans LanV2Packet!V2Decode defines (the spec re-checks the inputs)."""
    q = bytes(q)
    o = {"md5_in": [], "md5_out": [], "ecb_ct": [], "ecb_pt": []}
    if len(q) >= 6 and q[:2] == b"\x5a\x5a":
        L = int.from_bytes(q[4:6], "little")
        if 56 <= L <= len(q):
            r = q[:L]
            span = r[:-16] + rc.SIGN_KEY
            o["md5_in"] = B(span)
            o["md5_out"] = B(rc.md5(span))
            ct = r[40:-16]
            if ct and len(ct) % 16 == 0:
                o["ecb_ct"] = B(ct)
                o["ecb_pt"] = B(rc.ecb_decrypt(rc.ENC_KEY, ct))
    return o


def result_of(fn, *a):
    """Run library code; abstract the outcome as the trace records it."""
    try:
        r = fn(*a)
        return {"k": "frame", "f": B(r)}
    except Exception as e:  # noqa: BLE001 - code under test
        return {"k": "raise", "exc": type(e).__name__}
