"""Spec growth beyond the listed properties: the public operations of AirConditioner as sequences of exchanges (spec/DevOps.tla).

TLC explores the machine for every operation x capability profile x pattern of answered / unanswered transmissions (MC_DevOps) and prints every
complete behaviour; each is replayed into a real AirConditioner on the simulated network (V2) - the unit answers or ignores each transmission as
the behaviour says - and TLC judges the recorded run (Trace_DevOps): requests on the wire, online flag, nothing raised.  Drift only.
"""
from __future__ import annotations

import json

from .common import B, Ctx
from .tlc import MachineryError, run_tlc
from . import acdev, landev, vloop

CFG = ("CONSTANTS\nRetries = 3\nINVARIANT EveryQuestionAsked\nINVARIANT Budget\nINVARIANT OnlineIffAnswered\nINVARIANT OnlineOnlyByRefresh\nINVARIANT Ends\nCHECK_DEADLOCK FALSE\n")
ENERGY = bytes([0xC1, 0x21, 0x01, 0x44, 0, 0, 0x12, 0x34, 0, 0, 0, 0, 0, 0, 0, 0x56, 0, 7, 0x89, 0])
HUMID = bytes([0xC1, 0x21, 0x01, 0x45, 47, 0, 0, 0])


class Plan(acdev.ACModel):
    """Answers or ignores each transmission as scripted while `armed`; classifies what it receives."""

    def __init__(self, **kw):
        super().__init__(**kw)
        self.plan, self.kinds, self.answers, self.armed = [], [], [], False

    def handle(self, f):
        replies = super().handle(f)
        if not self.armed:
            return replies
        c = acdev.parse_command(f)
        if not c["ok"]:
            self.kinds.append("unparsed")
            self.answers.append(False)
            return []
        kind = {"get_state": "state", "get_energy": "energy", "get_humidity": "humidity", "get_props": "props", "set_state": "set_state", "set_props": "set_props",
                "toggle_display": "toggle"}.get(self.log[-1][0], self.log[-1][0])
        if kind == "get_caps":
            kind = "caps1" if self.log[-1][1] == 1 else "caps0"
        ans = self.plan.pop(0) if self.plan else True
        self.kinds.append(kind)
        self.answers.append(bool(ans))
        return replies if ans else []


def caps_for(pr):
    recs = [bytes([0x14, 0x02, 1, 1])]
    if pr["energy"]:
        recs.append(bytes([0x16, 0x02, 1, 2]))
    if pr["humidity"]:
        recs.append(bytes([0x1F, 0x02, 1, 2]))
    if pr["props"]:
        recs += [bytes([0x09, 0x00, 1, 1]), bytes([0x0A, 0x00, 1, 1])]
    p0 = bytes([0xB5, len(recs)]) + b"".join(recs) + bytes([1 if pr["more"] else 0, 0])
    return [p0, bytes([0xB5, 1, 0x12, 0x02, 1, 1, 0, 0])] if pr["more"] else [p0]


def replay_all(scn):
    from msmart.device import AirConditioner as AC
    vloop.install_clock()
    loop = vloop.new_loop()
    net = vloop.Net(loop)
    out = []

    async def one(k, sc):
        pr = sc["pr"]
        ac = Plan(caps_pages=caps_for(pr), energy=ENERGY, humidity=HUMID, props={0x09: b"\x00", 0x0A: b"\x00"})
        landev.LanDevice(loop, net, ac, version=2)
        d = AC(ip="10.0.0.1", port=6444, device_id=k + 1)
        raised = "none"
        if sc["op"] != "caps" and (pr["energy"] or pr["humidity"] or pr["props"]):
            await d.get_capabilities()                      # the object learns the profile first (all answered; not part of the run judged)
        if pr["pend"]:
            d.vertical_swing_angle = AC.SwingAngle.POS_3
        ac.plan, ac.armed = list(sc["answers"]), True
        try:
            await {"refresh": d.refresh, "caps": d.get_capabilities, "apply": d.apply, "toggle": d.toggle_display, "clean": d.start_self_clean}[sc["op"]]()
        except Exception as e:  # noqa: BLE001 - code under test
            raised = type(e).__name__
        ac.armed = False
        out.append({"op": sc["op"], "pr": pr, "answers": ac.answers, "kinds": ac.kinds, "online": bool(d.online), "raised": raised, "scn": sc})
        if d._lan._protocol:
            d._lan._disconnect()

    async def go():
        for k, sc in enumerate(scn):
            await one(k, sc)
    vloop.run(loop, go(), timeout_steps=max(2_000_000, 3000 * len(scn)))
    return out


def growth(ctx: Ctx):
    ctx.mc("MC_DevOps", "SPECIFICATION OSpec\n" + CFG, name=f"{ctx.pid}_mc_devops", timeout=900)
    ctx.mc("MC_DevOps", "SPECIFICATION FairOSpec\nCONSTANTS\nRetries = 3\nPROPERTY Terminates\nCHECK_DEADLOCK FALSE\n", name=f"{ctx.pid}_live_devops", timeout=900)
    r = run_tlc("MC_DevOps", "SPECIFICATION OSpec\nCONSTANTS\nRetries = 3\nCONSTRAINT GEmit\nCHECK_DEADLOCK FALSE\n", name=f"{ctx.pid}_gen_devops", workers=1, timeout=900)
    scn = [json.loads(p[1]) for p in r.prints if isinstance(p, list) and p and p[0] == "SCN"]
    if len(scn) < 100:
        raise MachineryError("MC_DevOps produced no scenarios")
    total = len(scn)
    cap = ctx.pick(500, 100000)                        # per operation (toggle_display = toggle + refresh has by far the most behaviours)
    by = {}
    for x in scn:
        by.setdefault(x["op"], []).append(x)
    scn = [x for op in sorted(by) for x in (by[op] if len(by[op]) <= cap else ctx.rng.sample(by[op], cap))]
    vectors = replay_all(scn)
    n = len(vectors)
    cans = []
    for v in vectors:
        if v["op"] == "refresh" and len(v["kinds"]) >= 2 and len(cans) < 1:
            c = json.loads(json.dumps(v)); c["kinds"] = c["kinds"][:-1]; c["answers"] = c["answers"][:-1]; cans.append(c)       # the last request never made
        if v["op"] == "refresh" and len(cans) < 2:
            c = json.loads(json.dumps(v)); c["online"] = not c["online"]; cans.append(c)
    rej = dict(ctx.validate_vectors("Trace_DevOps", vectors + cans, name=f"{ctx.pid}_Trace_DevOps", consts="CONSTANTS\nRetries = 3\n"))
    missed = [j for j in range(n, n + len(cans)) if j not in rej]
    if missed:
        ctx.defer_machinery("Trace_DevOps accepted a canary")
    for j, clause in rej.items():
        if j < n:
            ctx.drift.append({"what": "device operations (beyond the listed properties): " + clause, "scn": vectors[j]["scn"]})
    ctx.traces_validated -= len(cans) - len(missed)
    from collections import Counter
    ctx.extra["device_operations_growth"] = {"tlc_generated_behaviours": total, "replayed": n, "accepted": n - len([j for j in rej if j < n]),
                                             "canaries_rejected": len(cans) - len(missed), "by_operation": dict(Counter(v["op"] for v in vectors))}
