"""Vectors for Trace_V3: oracle records under a session key, and results of the library's V3 code paths."""
from __future__ import annotations

from . import refcrypto as rc
from .common import B


def v3_oracle(key: bytes, q: bytes) -> dict:
    q = bytes(q)
    o = {"cbc_ct": [], "cbc_pt": [], "sha_in": [], "sha_out": []}
    if len(q) >= 6 + 16 + 32:
        ct = q[6:-32]
        if ct and len(ct) % 16 == 0 and key:
            pt = rc.cbc_decrypt(key, ct)
            o["cbc_ct"] = B(ct)
            o["cbc_pt"] = B(pt)
            o["sha_in"] = B(q[:6] + pt)
            o["sha_out"] = B(rc.sha256(q[:6] + pt))
    return o


def new_proto(key: bytes | None):
    from msmart.lan import _LanProtocolV3
    p = _LanProtocolV3()
    p._local_key = key
    return p
