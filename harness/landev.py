"""Scripted LAN peer: independent V2 / V3 packet codecs (refcrypto only) + a device endpoint for the in-memory net."""
from __future__ import annotations

import random

from . import refcrypto as rc


# ---- V2 ------------------------------------------------------------------------------------------

def v2_wrap(frame: bytes, devid: int = 0, ts: bytes = bytes(8), magic: bytes = b"\x20\x00",
            msgid: bytes = bytes(4), tail: bytes = bytes(12)) -> bytes:
    ct = rc.ecb_encrypt(rc.ENC_KEY, rc.pkcs7_pad(frame))
    n = 40 + len(ct) + 16
    h = b"\x5a\x5a\x01\x11" + n.to_bytes(2, "little") + magic + msgid + ts + devid.to_bytes(8, "little") + tail
    p = h + ct
    return p + rc.md5(p + rc.SIGN_KEY)


def v2_unwrap(p: bytes) -> dict:
    """Reference parser.  Returns a dict of observations; `frame` present only when everything verifies."""
    p = bytes(p)
    o = {"len": len(p), "ok": False}
    if len(p) < 56:
        o["why"] = "short"
        return o
    o["marker_ok"] = p[:2] == b"\x5a\x5a"
    o["lenfield"] = int.from_bytes(p[4:6], "little")
    o["devid"] = p[20:28]
    if not o["marker_ok"]:
        o["why"] = "marker"
        return o
    if o["lenfield"] != len(p):
        o["why"] = "length"
        return o
    o["sig_ok"] = rc.md5(p[:-16] + rc.SIGN_KEY) == p[-16:]
    if not o["sig_ok"]:
        o["why"] = "signature"
        return o
    ct = p[40:-16]
    if len(ct) == 0 or len(ct) % 16:
        o["why"] = "alignment"
        return o
    pt = rc.ecb_decrypt(rc.ENC_KEY, ct)
    try:
        o["frame"] = rc.pkcs7_unpad(pt)
    except ValueError:
        o["why"] = "padding"
        return o
    o["ok"] = True
    return o


# ---- V3 ------------------------------------------------------------------------------------------

def v3_pad(n: int) -> int:
    r = (n + 2) % 16
    return 16 - r if r else 0


def v3_enc_packet(key: bytes, payload: bytes, ctr: int, ptype: int = 3, padbytes: bytes | None = None) -> bytes:
    pad = v3_pad(len(payload))
    hdr = b"\x83\x70" + (len(payload) + pad + 32).to_bytes(2, "big") + b"\x20" + bytes([pad << 4 | ptype])
    if padbytes is None:
        padbytes = bytes((i * 7 + 3) & 0xFF for i in range(pad))
    plain = ctr.to_bytes(2, "big") + bytes(payload) + padbytes[:pad]
    return hdr + rc.cbc_encrypt(key, plain) + rc.sha256(hdr + plain)


def v3_dec_packet(key: bytes, pkt: bytes) -> dict:
    """Reference decode of an encrypted packet (either direction)."""
    pkt = bytes(pkt)
    o = {"ok": False, "len": len(pkt)}
    if len(pkt) < 6 + 16 + 32 or pkt[:2] != b"\x83\x70" or pkt[4] != 0x20:
        o["why"] = "header"
        return o
    size = int.from_bytes(pkt[2:4], "big")
    o["size"] = size
    o["type"] = pkt[5] & 0xF
    pad = pkt[5] >> 4
    o["pad"] = pad
    if size + 8 != len(pkt):
        o["why"] = "size"
        return o
    ct = pkt[6:-32]
    if len(ct) % 16 or not ct:
        o["why"] = "alignment"
        return o
    plain = rc.cbc_decrypt(key, ct)
    if rc.sha256(pkt[:6] + plain) != pkt[-32:]:
        o["why"] = "tag"
        return o
    if pad > len(plain) - 2:
        o["why"] = "pad"
        return o
    o["ctr"] = int.from_bytes(plain[:2], "big")
    o["payload"] = plain[2:len(plain) - pad]
    o["ok"] = True
    return o


def v3_plain_packet(ptype: int, ctr: int, payload: bytes) -> bytes:
    return b"\x83\x70" + len(payload).to_bytes(2, "big") + b"\x20" + bytes([ptype]) + ctr.to_bytes(2, "big") + bytes(payload)


def v3_error_packet() -> bytes:
    return v3_plain_packet(0x0F, 0, bytes(32))


def hs_reply_payload(key: bytes, nonce: bytes) -> bytes:
    return rc.cbc_encrypt(key, nonce) + rc.sha256(nonce)


def udpid(idbytes: bytes) -> bytes:
    h = rc.sha256(idbytes)
    return rc.xor(h[:16], h[16:])


# ---- endpoint --------------------------------------------------------------------------------------

class LanDevice:
    """Device endpoint on the in-memory Net.

    version 2 or 3.  `respond(conn, packets)` is the delivery hook (default: feed on next loop turn).
    Every decoded client packet is appended to self.rx as an observation record.
    """

    def __init__(self, loop, net, ac, *, version=3, token=None, key=None, seed=0, devid=None):
        self.loop = loop
        self.net = net
        self.ac = ac
        self.version = version
        self.token = token
        self.key = key
        self.rng = random.Random(seed)
        self.sess = {}            # cid -> dict(key, keyid, ctr_out)
        self.rx = []
        self.nkeys = 0
        self.keys = {}            # keyid -> key bytes
        self.respond = self._respond_soon
        self.reply_filter = None  # fn(kind, conn, packets) -> packets (fault injection)
        self.rotate_on_handshake = True
        net.on_bytes = self.on_bytes
        net.on_connect = self.on_connect
        self.buffers = {}

    def on_connect(self, tr):
        self.sess[tr.cid] = {"key": None, "keyid": 0, "ctr": 0}
        self.buffers[tr.cid] = b""

    def _respond_soon(self, tr, packets):
        # a (virtual) half millisecond of network latency: the answer arrives when the client is already waiting for it, as on a real network
        # (all packets of one reply within the same instant, each as its own segment)
        self.loop.call_later(0.0005, lambda: [tr.feed(p) for p in packets])

    # -- packet handling ---
    def on_bytes(self, tr, data):
        if self.version == 2:
            self._v2(tr, data)
        else:
            self._v3(tr, data)

    def _emit(self, kind, tr, packets):
        if self.reply_filter:
            packets = self.reply_filter(kind, tr, packets)
        if packets:
            self.respond(tr, packets)

    def _v2(self, tr, data):
        o = v2_unwrap(data)
        rec = {"conn": tr.cid, "kind": "v2", "ok": o["ok"], "raw": data}
        if o["ok"]:
            rec["frame"] = o["frame"]
            rec["devid"] = o["devid"]
        self.rx.append(rec)
        if not o["ok"]:
            return
        replies = self.ac.handle(o["frame"])
        self._emit("data", tr, [v2_wrap(f, int.from_bytes(o["devid"], "little")) for f in replies])

    def _v3(self, tr, data):
        s = self.sess[tr.cid]
        if len(data) < 8 or data[:2] != b"\x83\x70":
            self.rx.append({"conn": tr.cid, "kind": "garbage", "raw": data})
            return
        ptype = data[5] & 0xF
        if ptype == 0:
            ctr = int.from_bytes(data[6:8], "big")
            tok = data[8:]
            ok = self.token is not None and tok == self.token and int.from_bytes(data[2:4], "big") == len(tok)
            rec = {"conn": tr.cid, "kind": "hs", "ctr": ctr, "token_ok": ok, "raw": data}
            self.rx.append(rec)
            if not ok:
                self._emit("hs_bad", tr, [v3_error_packet()])
                return
            nonce = bytes(self.rng.getrandbits(8) for _ in range(32))
            if getattr(self, "nonce_hook", None):
                nonce = self.nonce_hook(nonce)          # the appliance's random value is its own choice: tests steer it to reach rare session keys
            if self.rotate_on_handshake or s["key"] is None:
                s["prevkey"], s["prevkeyid"] = s["key"], s["keyid"]
                self.nkeys += 1
                s["key"] = rc.xor(nonce, self.key)
                s["keyid"] = self.nkeys
                self.keys[self.nkeys] = s["key"]
            rec["keyid"] = s["keyid"]
            rec["nonce"] = nonce
            self._emit("hs", tr, [v3_plain_packet(1, ctr, hs_reply_payload(self.key, nonce))])
        elif ptype == 6:
            rec = {"conn": tr.cid, "kind": "data", "raw": data, "ok": False, "keyid": 0}
            # try every key this device ever issued, to report WHICH key the client used
            for kid, k in sorted(self.keys.items(), reverse=True):
                o = v3_dec_packet(k, data)
                if o["ok"]:
                    rec.update(ok=True, keyid=kid, ctr=o["ctr"], current=(kid == s["keyid"]))
                    v2 = v2_unwrap(o["payload"])
                    rec["v2_ok"] = v2["ok"]
                    if v2["ok"]:
                        rec["frame"] = v2["frame"]
                        rec["devid"] = v2["devid"]
                    break
            self.rx.append(rec)
            if not rec["ok"] or not rec.get("current") or not rec.get("v2_ok"):
                return                                   # undecryptable for the device: silence
            replies = self.ac.handle(rec["frame"])
            out = []
            for f in replies:
                s["ctr"] = (s["ctr"] + 1) & 0xFFFF
                out.append(v3_enc_packet(s["key"], v2_wrap(f, int.from_bytes(rec["devid"], "little")), s["ctr"]))
            self._emit("data", tr, out)
        else:
            self.rx.append({"conn": tr.cid, "kind": "other", "type": ptype, "raw": data})
