"""Discovery harness: independent reply builder (refcrypto only), scripted responders on the in-memory UDP net, run recorder."""
from __future__ import annotations

import ipaddress

from . import vloop, refcrypto as rc
from .common import B


def disc_body(ip_reported: str, port: int, sn: bytes, name: bytes, tail: bytes = b"") -> bytes:
    return bytes(reversed(ipaddress.IPv4Address(ip_reported).packed)) + port.to_bytes(2, "little") + b"\x00\x00" + sn + bytes([len(name)]) + name + tail


def disc_reply(version: int, devid: int, body: bytes, *, rng=None, magic=b"\x7a\x80") -> bytes:
    ct = rc.ecb_encrypt(rc.ENC_KEY, rc.pkcs7_pad(body))
    n = 40 + len(ct) + 16
    ts = bytes(rng.randrange(256) for _ in range(8)) if rng else bytes(8)
    h = b"\x5a\x5a\x01\x11" + n.to_bytes(2, "little") + magic + bytes(4) + ts + devid.to_bytes(6, "little") + b"\x00\x00" + bytes(12)
    inner = h + ct
    inner += rc.md5(inner + rc.SIGN_KEY)
    if version == 2:
        return inner
    suffix = bytes(rng.randrange(256) for _ in range(16)) if rng else bytes(16)
    # the wrapper's own counter field (bytes 6..7) is whatever the module's firmware counts: also values that look like the inner packet's marker
    ctr = rng.choice([b"\x00\x00", b"\x00\x00", b"\x00\x5a", b"\x5a\x5a", b"\x5a\x00", bytes([rng.randrange(256), rng.randrange(256)])]) if rng else b"\x00\x00"
    return b"\x83\x70" + (len(inner) + 16).to_bytes(2, "big") + b"\x20\x0f" + ctr + inner + suffix


def oracle(reply: bytes) -> dict:
    """Reference ECB decryption of the span a conforming parser would decrypt (the spec re-derives the span and compares)."""
    r = bytes(reply)
    inner = r[8:-16] if r[:2] == b"\x83\x70" else r
    ct = inner[40:-16] if len(inner) >= 56 else b""
    if len(ct) == 0 or len(ct) % 16:
        return {"ct": B(ct), "pt": []}
    return {"ct": B(ct), "pt": B(rc.ecb_decrypt(rc.ENC_KEY, ct))}


def probe_oracle(p: bytes) -> dict:
    p = bytes(p)
    return {"md5_in": B(p[:56]), "md5_out": B(rc.md5(p[:56] + rc.SIGN_KEY))}


def run_discovery(plan, *, target="255.255.255.255", single=False, auto_connect=False, tcp_devices=None, timeout=5, cloud_client=None,
                  account=None, password=None, region=None, keep_lock=False, udp_send_error=None):
    """plan: list of (delay_s, src_ip, src_port, data) datagrams sent after the first probe is seen.
    Returns the vector for Trace_Disc (probes, arrivals in delivery order, result / exception)."""
    from msmart.discover import Discover
    vloop.install_clock()
    loop = vloop.new_loop()
    net = vloop.Net(loop)
    state = {"armed": False}
    arrivals = []

    def on_udp(tr, data, addr):
        if state["armed"]:
            return
        state["armed"] = True
        for k, (delay, ip, port, d) in enumerate(plan):
            def fire(ip=ip, port=port, d=d):
                arrivals.append({"ip": ip, "port": port, "data": B(d), "o": oracle(d)})
                tr.inject(d, (ip, port))
            loop.call_later(delay + k * 1e-6, fire)
    net.on_udp = on_udp
    if udp_send_error is not None:
        net.udp_send_error = udp_send_error
    if tcp_devices:
        tcp_devices(loop, net)
    vec = {"target": target, "exc": "", "result": [], "probes": [], "arrivals": arrivals}
    Discover._lock = None               # the lock belongs to the event loop of the previous run

    async def go():
        kw = dict(timeout=timeout, auto_connect=auto_connect)
        if cloud_client is not None:
            kw.update(get_async_client=cloud_client, account=account, password=password)
        if region is not None:
            kw.update(region=region)
        try:
            if single:
                r = await Discover.discover_single(target, **kw)
                devs = [r] if r is not None else []
            else:
                devs = await Discover.discover(target=target, **kw) if target != "255.255.255.255" else await Discover.discover(**kw)
        except Exception as ex:  # noqa: BLE001 - code under test
            vec["exc"] = type(ex).__name__
            devs = []
        vec["devices"] = devs
        for d in devs:
            vec["result"].append({"ip": str(d.ip), "port": int(d.port), "id": B(int(d.id).to_bytes(6, "little")) if 0 <= int(d.id) < 2 ** 48 else [],
                                  "sn": B((d.sn or "").encode()), "name": B((d.name or "").encode()), "type": int(d.type),
                                  "version": int(d.version or 0), "cls": type(d).__name__})
    vloop.run(loop, go())
    for data, addr in (net.udp.sent if net.udp else []):
        vec["probes"].append({"data": B(data), "o": probe_oracle(data), "host": addr[0], "port": addr[1]})
    return vec
