"""Shared plumbing of the transport-session checks (C06, C07, C08, C09).

spec/LanSession.tla   the LAN transport as a state machine (one action = environment event + client code to its next await)
spec/SessionMon.tla   property monitor over the observable event alphabet (C06-C09 clauses)
  (a) mc()       TLC explores LanSession exhaustively; invariant m.bad = {}
  (b) gen()      TLC (BFS or -simulate) prints complete behaviours of Gen_LanSession as scenarios;
      replay()   each scenario is replayed into the REAL msmart.lan.LAN with the controlled scheduler (sched.Session)
  (c) validate() the recorded executions are judged by TLC twice:
                   Trace_Mon         every monitor clause at every event            -> property verdict
                   Trace_LanSession  the execution must be a behaviour of LanSession -> conformance (drift is reported, not alarmed)
"""
from __future__ import annotations

import json
import random

from . import sched, vloop
from .common import Ctx
from .tlc import MachineryError, run_tlc

import os
NCPU_ = os.cpu_count() or 4
BIG = dict(MaxCalls=100000, MaxConn=48, MaxFly=64, MaxKeys=100000)


def consts(ver, retries, *, ctrmod=3, calls=2, conn=3, fly=2, keys=3, life=True, hs="HSSome", data=None, hsretries=None, halves=False):
    data = data or ("DataSome" if ver == 3 else "V2All")
    hsretries = hsretries if hsretries is not None else retries
    return (f"CONSTANTS\nRetries = {retries}\nVer = {ver}\nCtrMod = {ctrmod}\nHSRetries = {hsretries}\nDevLevel = FALSE\nMaxCalls = {calls}\nMaxConn = {conn}\n"
            f"MaxFly = {fly}\nMaxKeys = {keys}\nLife = {'TRUE' if life else 'FALSE'}\nHalves = {'TRUE' if halves else 'FALSE'}\nHSClasses <- {hs}\nDataClasses <- {data}\n")


def mc(ctx: Ctx, ver, retries, *, name, timeout=3000, heap="10g", coverage=False, **kw):
    cfg = ("SPECIFICATION Spec\n" + consts(ver, retries, **kw) +
           "INVARIANT NoViolation\nINVARIANT TypeOK\nINVARIANT KeyImpliesIssued\nCHECK_DEADLOCK FALSE\n")
    r = ctx.mc("MC_LanSession", cfg, name=name, timeout=timeout, heap=heap, coverage=coverage)
    if coverage and r.coverage:
        never = sorted(a for a, (d, t) in r.coverage.items() if t == 0 and "LanSession!" in a and a.split("!")[1].split("@")[0] in ACTIONS)
        ctx.extra.setdefault("mc_action_coverage", {})[name] = {a: r.coverage[a][1] for a in r.coverage if a.split("!")[1].split("@")[0] in ACTIONS}
        if never:
            ctx.notes.append(f"{name}: actions never taken in this instance: {never}")
    return r


def live(ctx: Ctx, ver, retries, *, name, timeout=3000, heap="10g", **kw):
    """Liveness at the design level: under weak fairness of the environment's progress actions (a connect attempt resolves, a message in flight is
    delivered or lost, a pending timer fires) every call returns.  The bounds on keys / connections / messages in flight are guards in the model, so
    they are chosen large enough never to block a retransmission (a blocked one would show up as a counterexample, as it did with MaxKeys = 3)."""
    kw.setdefault("keys", 9)
    kw.setdefault("conn", 5)
    kw.setdefault("fly", 3)
    cfg = "SPECIFICATION FairSpec\n" + consts(ver, retries, **kw) + "PROPERTY EveryCallReturns\nCHECK_DEADLOCK FALSE\n"
    return ctx.mc("MC_LanSession", cfg, name=name, timeout=timeout, heap=heap)


def clause_reachability(ctx: Ctx, pid, *, maxlen=6, versions=(3, 2)):
    """Non-vacuity of the monitor: every clause of property `pid` in SessionMon.tla must fire for some event sequence
    (spec/MonVacuity.tla explores arbitrary event sequences over a small alphabet)."""
    import re
    from .tlc import SPEC
    text = (SPEC / "SessionMon.tla").read_text()
    want = {m.group(2) for m in re.finditer(r'<<"(C\d\d)", "([^"]*)">>', text) if m.group(1) == pid}
    seen = set()
    for ver in versions:
        cfg = (f"INIT Init\nNEXT Next\nINVARIANT Seen\nCHECK_DEADLOCK FALSE\nCONSTANTS\nRetries = 2\nVer = {ver}\nCtrMod = 4\nHSRetries = 1\n"
               f"DevLevel = TRUE\nMaxLen = {maxlen}\nSmall = FALSE\n")
        r = run_tlc("MonVacuity", cfg, name=f"{pid}_vacuity_v{ver}", workers=NCPU_, timeout=1500, heap="10g")
        ctx.checker_cmds.append(r.cmd)
        ctx.states += r.distinct
        ctx.transitions += r.generated
        seen |= {p[2] for p in r.prints if isinstance(p, list) and len(p) == 3 and p[0] == "CLAUSE" and p[1] == pid}
        if want <= seen:
            break
    if not want <= seen:
        # clauses that need a longer, well-behaved prefix (e.g. a complete authentication before the interesting call): reduced alphabet, longer sequences
        cfg = ("INIT Init\nNEXT Next\nINVARIANT Seen\nCHECK_DEADLOCK FALSE\nCONSTANTS\nRetries = 2\nVer = 3\nCtrMod = 4\nHSRetries = 1\n"
               "DevLevel = TRUE\nMaxLen = 9\nSmall = TRUE\n")
        r = run_tlc("MonVacuity", cfg, name=f"{pid}_vacuity_small", workers=NCPU_, timeout=1500, heap="10g")
        ctx.checker_cmds.append(r.cmd)
        ctx.states += r.distinct
        ctx.transitions += r.generated
        seen |= {p[2] for p in r.prints if isinstance(p, list) and len(p) == 3 and p[0] == "CLAUSE" and p[1] == pid}
    ctx.extra["monitor_clauses_reachable"] = {"clauses": len(want), "fired_by_some_event_sequence": len(want & seen)}
    if not want <= seen:
        raise MachineryError(f"monitor clauses of {pid} that no explored event sequence can fire (vacuous?): {sorted(want - seen)}")


ACTIONS = {"CallSend", "CallAuth", "ConnOK", "ConnFail", "Deliver", "Lose", "PeerClose", "JumpAuth", "JumpLife", "TimerRead",
           "CancelRead", "TimerAuth", "CancelOther", "TimerSleep"}


def gen(ctx: Ctx, ver, retries, *, name, simulate=None, depth=None, seed=None, nxt="GNext", limit=None, timeout=1800, clean_auth_first=False, **kw):
    """TLC-generated scenarios: list of behaviours, each a list of steps, each a list of predicted events."""
    cfg = (f"INIT GInit\nNEXT {nxt}\n" + consts(ver, retries, **kw) + ("CONSTRAINT CleanAuthFirst\n" if clean_auth_first else "") + "CONSTRAINT GEmit\nCHECK_DEADLOCK FALSE\n")
    r = run_tlc("Gen_LanSession", cfg, name=name, workers=1, timeout=timeout, heap="6g",
                simulate=simulate, depth=depth, seed=seed)
    ctx.checker_cmds.append(r.cmd)
    out = []
    seen = set()
    for pr in r.prints:
        if isinstance(pr, list) and pr and pr[0] == "SCN":
            if pr[1] in seen:
                continue
            seen.add(pr[1])
            out.append(json.loads(pr[1]))
            if limit and len(out) >= limit:
                break
    if not out:
        raise MachineryError(f"generator {name} produced no scenario")
    return out


def concrete(kind, cls, ver, rng):
    table = sched.CONCRETE_HS if kind == "HS" else (sched.CONCRETE_DATA3 if ver == 3 else sched.CONCRETE_DATA2)
    return rng.choice(table.get(cls, [cls]))


LIFE = 10 ** 7          # configured connection lifetime in replays: far above 12 h so that the two clock jumps are independent


def replay(scn, *, ver, retries, life=True, rng=None, seed=0, target="lan"):
    """Replay one TLC scenario into the real code.  Returns dict(steps=[[event,...],...], events=[...], stuck=None|reason)."""
    rng = rng or random.Random(seed)
    s = sched.Session(version=ver, retries=retries, lifetime=LIFE if life else None, seed=seed, target=target)
    stuck = None
    try:
        for k, step in enumerate(scn):
            e0 = step[0]
            tx = [e for e in step if e["e"] == "tx"]
            r = concrete(tx[0]["t"], tx[0]["reply"], ver, rng) if tx else None
            a = e0["e"]
            try:
                if a == "call":
                    if s.task is not None:
                        raise RuntimeError("a call is still running")
                    if e0["op"] == "send":
                        s.call_send(reply=r)
                    else:
                        s.call_auth(e0["cr"], reply=r)
                elif a in ("connok", "connrefuse", "connhang"):
                    if s.net.pending_connect is None:
                        raise RuntimeError("no connect pending")
                    s.conn({"connok": "ok", "connrefuse": "refuse", "connhang": "hang"}[a], reply=r)
                elif a == "deliver":
                    if e0["i"] > len(s.parked):
                        raise RuntimeError("no such message in flight")
                    s.deliver(e0["i"] - 1, reply=r)
                elif a == "lost":
                    if e0["i"] > len(s.parked):
                        raise RuntimeError("no such message in flight")
                    s.drop(e0["i"] - 1)
                elif a == "peerclose":
                    if not any(not t._closing for t in s.net.conns):
                        raise RuntimeError("no open connection")
                    s.peerclose()
                elif a == "jumpauth":
                    s.jumpauth()
                elif a == "jumphalf":
                    s.jumphalf()
                elif a == "setlife":
                    s.setlife()
                elif a == "jumplife":
                    s.jumplife()
                elif a == "timer":
                    if s.task is None or not s.loop.pending_timers():
                        raise RuntimeError("no timer pending")
                    s.timer(reply=r)
                elif a == "cancel":
                    if s.task is None:
                        raise RuntimeError("no call running")
                    s.cancel()
                else:
                    raise RuntimeError("unknown action " + a)
            except RuntimeError as ex:
                stuck = f"step {k + 1} ({a}) cannot be performed on the real object: {ex}"
                break
        if s.task is not None:
            # the model predicted that the last call is over, the real one is still running: let it run to its end in a plain
            # environment so that the monitor sees the consequences (the extra steps are still LanSession environment actions)
            stuck = stuck or "the real call did not end where the model's did"
            try:
                s.settle()
            except RuntimeError:
                pass
    finally:
        s.close()
    return {"steps": s.steps, "events": s.trace, "stuck": stuck, "predicted": scn}


# ---- code-driven random walks restricted to the model's environment alphabet ----------------------------------

def walk(seed, *, ver=3, retries=3, steps=40, life=True, weights=None, hs_mix=None, data_mix=None):
    rng = random.Random(f"walk:{seed}")
    s = sched.Session(version=ver, retries=retries, lifetime=LIFE if life else None, seed=seed)
    W = {"cancel": 0.15, "peerclose": 0.1, "jumpauth": 0.3, "jumphalf": 0.4, "setlife": 0.3, "jumplife": 0.3, "call_auth_bad": 0.3, "connhang": 0.3, "connrefuse": 0.3,
         "deliver": 2.0, "drop": 0.15}
    W.update(weights or {})
    hs_all = hs_mix or (["valid"] * 4 + sched.REPLY_CLASSES_HS)
    data_all = data_mix or (["valid"] * 4 + (sched.REPLY_CLASSES_DATA if ver == 3 else sched.REPLY_CLASSES_V2))
    try:
        for _ in range(steps):
            en = model_enabled(s)
            a = rng.choices(en, [W.get(x if isinstance(x, str) else x[0], 1.0) for x in en])[0]
            s.next_reply_hs, s.next_reply_data = rng.choice(hs_all), rng.choice(data_all)
            if a == "call_send":
                s.call_send()
            elif a == "call_auth_good":
                s.call_auth("good")
            elif a == "call_auth_bad":
                s.call_auth("bad")
            elif a in ("connok", "connrefuse", "connhang"):
                s.conn(a[4:])
            elif a == "timer":
                s.timer()
            elif a == "cancel":
                s.cancel()
            elif a == "peerclose":
                s.peerclose()
            elif a == "jumpauth":
                s.jumpauth()
            elif a == "jumphalf":
                s.jumphalf()
            elif a == "setlife":
                s.setlife()
            elif a == "jumplife":
                s.jumplife()
            elif a[0] == "deliver":
                s.deliver(a[1])
            elif a[0] == "drop":
                s.drop(a[1])
    finally:
        s.close()
    return {"steps": s.steps, "events": s.trace, "stuck": None}


def model_enabled(s):
    """Environment actions LanSession has in the state the real object is in (enabling conditions read off public/observable state)."""
    en = []
    lan = s.lan
    proto = lan._protocol
    if s.task is None:
        if s.version == 2:
            en.append("call_send")
        else:
            en += ["call_auth_good", "call_auth_bad"] + (["call_send"] if lan._protocol_version == 3 else [])
        if proto is not None and s.version == 3 and getattr(proto, "_local_key", None) is not None and proto.authenticated:
            en.append("jumpauth")
            en.append("jumphalf")
        exp = getattr(lan, "_connection_expiration", None)
        if proto is not None and s.lifetime is not None and exp is not None and vloop.VClock.now(exp.tzinfo) <= exp:
            en.append("jumplife")
            en.append("setlife")
    else:
        en.append("cancel")
        if s.net.pending_connect is not None:
            en += ["connok", "connrefuse", "connhang"]
        elif s.loop.pending_timers():
            en.append("timer")
    for i in range(len(s.parked)):
        en.append(("deliver", i))
        en.append(("drop", i))
    if proto is not None and proto._transport is not None and not proto._transport.is_closing():
        en.append("peerclose")
    return en


# ---- validation -----------------------------------------------------------------------------------------------

def validate(ctx: Ctx, runs, *, ver, retries, name, what, conformance=True, focus=None, devlevel=False):
    """runs: list of dict(steps, events, stuck, ...).  Monitor verdicts -> ctx.violation; model conformance -> ctx.drift."""
    focus = focus or ctx.pid
    c_mon = (f"CONSTANTS\nRetries = {retries}\nVer = {ver}\nCtrMod = 65536\nHSRetries = 3\nDevLevel = {'TRUE' if devlevel else 'FALSE'}\n"
             f'Focus = "{focus}"\n')
    bad = ctx.validate_chains("Trace_Mon", [{"events": r["events"]} for r in runs], name=name + "_mon", consts=c_mon)
    for k, clause in sorted(bad.items()):
        if clause.startswith("stuck") or clause.startswith("harness"):
            raise MachineryError(f"Trace_Mon could not judge trace {k} of {name}: {clause}")
        r = runs[k]
        cl = clause.split(" @event ")[0]
        at = int(clause.split(" @event ")[1]) if " @event " in clause else len(r["events"])
        ctx.violation(f"{what} #{k}", cl, {"clause": cl, "at_event": at, "ver": ver, "retries": retries,
                                           "events": r["events"][:at], "scenario": r.get("predicted")})
    acts = ctx.extra.setdefault("environment_actions_exercised_on_real_code", {})
    for r in runs:
        for st in r.get("steps") or []:
            if st:
                k = st[0]["e"] + (":" + st[0].get("op", "") if st[0]["e"] == "call" else "")
                acts[k] = acts.get(k, 0) + 1
    if conformance:
        big = consts(ver, retries, ctrmod=4096, hsretries=3, calls=BIG["MaxCalls"], conn=BIG["MaxConn"], fly=BIG["MaxFly"], keys=BIG["MaxKeys"],
                     life=True, hs="HSAll", data="DataNoise" if ver == 3 else "V2All", halves=True)
        ok_runs = [(k, r) for k, r in enumerate(runs) if k not in bad]
        stuck = ctx.validate_chains("Trace_LanSession", [{"steps": r["steps"], "events": r["steps"]} for _, r in ok_runs],
                                    name=name + "_ls", consts=big)
        ctx.traces_validated -= len(ok_runs) - len(stuck)       # the same executions were already counted by the monitor pass
        ctx.evaluations -= len(ok_runs)
        ctx.extra["model_conformant_executions"] = ctx.extra.get("model_conformant_executions", 0) + len(ok_runs) - len(stuck)
        for j, clause in sorted(stuck.items()):
            k, r = ok_runs[j]
            if not clause.startswith("stuck"):
                # the model's own monitor flagged it although Trace_Mon did not: inconsistent machinery
                raise MachineryError(f"Trace_LanSession and Trace_Mon disagree on trace {k} of {name}: {clause}")
            ctx.drift.append({"trace": f"{name}#{k}", "what": "execution is not a behaviour of LanSession (model drift, no property clause violated)",
                              "clause": clause, "harness_stuck": r.get("stuck")})
    return bad
