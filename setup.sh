#!/bin/sh
# Offline setup: parse every TLA+ module, self-test the reference primitives, smoke-test the harness.
cd "$(dirname "$0")" || exit 2
export PYTHONPATH="/verif:${VERIF_REPO:-/repo}:$PYTHONPATH"
/venv/bin/python -m harness.refcrypto || exit 2
/venv/bin/python - <<'PY' || exit 2
import sys
from pathlib import Path
from harness.tlc import sany, SPEC
mods = sorted(p.stem for p in SPEC.glob("*.tla"))
for m in mods:
    sany(m)
print("SANY ok:", len(mods), "modules")
PY
mkdir -p /verif/.work /verif/evidence /verif/replay
echo "setup ok"
